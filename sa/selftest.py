"""Checker-sensitivity self-test (thorough tier).

Each variant is an edit of the *current* tree, analysed through an in-memory
overlay (nothing is written to disk, nothing is executed): the rule must fire
on a broken variant, naming a finding of the expected rule, and stay silent
on a behaviour-preserving twin.  A variant whose anchor text is no longer in
the tree is skipped and listed.  Seeded changes kept under /verif/seeded are
replayed the same way from their patch.diff.
"""
import importlib
import json
import os
import re

from .index import RepoIndex, AnalysisError, REPO
from .report import Run, load_known, VERIF


class Variant:
    def __init__(self, name, relpath, old, new, expect, count=1):
        self.name = name
        self.relpath = relpath
        self.old = old
        self.new = new
        self.expect = expect   # 'silent' | 'fires:<rule prefix>' | 'error'
        self.count = count


class SV:
    """Statement-level variant: inside function `qual` ('Class.method' or
    'function') of `relpath`, the consecutive statements whose unparsed form
    equals `old` (comments / layout ignored) are replaced by `new` ('' to
    delete).  The variant text is the unparsed edited module."""
    def __init__(self, name, relpath, qual, old, new, expect):
        self.name = name
        self.relpath = relpath
        self.qual = qual
        self.old = old
        self.new = new
        self.expect = expect

    def build(self, text):
        """-> new module text or None when the anchor is missing."""
        import ast
        import textwrap
        tree = ast.parse(text)
        target = None
        parts = self.qual.split(".")
        scope = tree.body
        for part in parts:
            found = None
            for stmt in scope:
                if isinstance(stmt, (ast.ClassDef, ast.FunctionDef)) and \
                        stmt.name == part:
                    found = stmt
            if found is None:
                return None
            target = found
            scope = found.body
        old = [ast.unparse(s) for s in
               ast.parse(textwrap.dedent(self.old)).body]
        new = ast.parse(textwrap.dedent(self.new)).body if self.new.strip() \
            else []
        hits = []

        def visit(stmts):
            for k in range(len(stmts) - len(old) + 1):
                if [ast.unparse(x) for x in stmts[k:k + len(old)]] == old:
                    hits.append((stmts, k))
            for stmt in stmts:
                for field in ("body", "orelse", "finalbody"):
                    sub = getattr(stmt, field, None)
                    if isinstance(sub, list) and sub and \
                            isinstance(sub[0], ast.stmt):
                        visit(sub)
                for hnd in getattr(stmt, "handlers", []):
                    visit(hnd.body)
        visit(target.body)
        if len(hits) != 1:
            return None
        stmts, k = hits[0]
        stmts[k:k + len(old)] = new or [ast.Pass()]
        ast.fix_missing_locations(tree)
        return ast.unparse(tree)


def apply_unified_diff(patch_text):
    """-> {relpath: new text} by applying a git diff to the current tree.
    Returns None if some hunk does not apply."""
    files = {}
    cur = None
    hunks = []
    for line in patch_text.splitlines():
        if line.startswith("diff --git"):
            cur = None
        elif line.startswith("+++ "):
            path = line[4:].strip()
            if path.startswith("b/"):
                path = path[2:]
            cur = path
            files[cur] = []
        elif line.startswith("--- "):
            continue
        elif line.startswith("@@") and cur is not None:
            files[cur].append([])
        elif cur is not None and files[cur] and \
                (line[:1] in (" ", "+", "-") or line == ""):
            files[cur][-1].append(line if line else " ")
    out = {}
    for path, hunks in files.items():
        full = os.path.join(REPO, path)
        if not os.path.exists(full):
            return None
        with open(full, encoding="utf-8") as fin:
            lines = fin.read().split("\n")
        for hunk in hunks:
            before = [l[1:] for l in hunk if l[0] in (" ", "-")]
            after = [l[1:] for l in hunk if l[0] in (" ", "+")]
            pos = _find(lines, before)
            if pos is None:
                return None
            lines[pos:pos + len(before)] = after
        out[path] = "\n".join(lines)
    return out


def _find(lines, block):
    if not block:
        return None
    hits = [i for i in range(len(lines) - len(block) + 1)
            if lines[i:i + len(block)] == block]
    if len(hits) == 1:
        return hits[0]
    # tolerate context drift: shrink the context symmetrically
    return hits[0] if hits else None


def analyse(pid, overlay):
    """Run property `pid` on the overlay; returns (new finding keys, error)"""
    modname = None
    rdir = os.path.join(VERIF, "rules")
    for fname in os.listdir(rdir):
        if fname.startswith("c" + pid[1:]) and fname.endswith(".py"):
            modname = "rules." + fname[:-3]
    mod = importlib.import_module(modname)
    run = Run(pid, "thorough", getattr(mod, "LEVEL", "other"))
    try:
        idx = RepoIndex(overlay=overlay)
        mod.check(idx, run)
        if hasattr(mod, "check_thorough"):
            mod.check_thorough(idx, run)
    except AnalysisError as err:
        known = load_known()
        new = [f for f in run.findings
               if not (f.key in known and
                       known[f.key].get("status") == "known" and
                       known[f.key].get("property") == pid)]
        if new:
            return new, None
        return None, str(err)
    known = load_known()
    new = [f for f in run.findings
           if not (f.key in known and known[f.key].get("status") == "known"
                   and known[f.key].get("property") == pid)]
    return new, None


_REFORMATTED = None


def reformatted_tree():
    """{relpath: ast.unparse(ast.parse(text))} for every non-test module"""
    global _REFORMATTED
    if _REFORMATTED is None:
        import ast
        out = {}
        base = os.path.join(REPO, "src", "psyclone")
        for root, dirs, files in os.walk(base):
            dirs[:] = [d for d in dirs if d != "tests"]
            for fname in files:
                if not fname.endswith(".py"):
                    continue
                full = os.path.join(root, fname)
                with open(full, encoding="utf-8") as fin:
                    text = fin.read()
                try:
                    out[os.path.relpath(full, REPO)] = ast.unparse(
                        ast.parse(text))
                except SyntaxError:
                    continue
        _REFORMATTED = out
    return _REFORMATTED


def run_for(pid, verbose=True):
    """-> None if fine, else text describing the failing variants."""
    results = []
    failures = []
    try:
        vmod = importlib.import_module("selftest." + pid.lower())
        variants = list(vmod.VARIANTS)
    except ModuleNotFoundError:
        variants = []
    for var in variants:
        full = os.path.join(REPO, var.relpath)
        if not os.path.exists(full):
            results.append((var.name, "skipped: file missing"))
            continue
        with open(full, encoding="utf-8") as fin:
            text = fin.read()
        if isinstance(var, SV):
            newtext = var.build(text)
            if newtext is None:
                results.append((var.name, "skipped: anchor statements not "
                                "found exactly once"))
                continue
            new, err = analyse(pid, {var.relpath: newtext})
            results.append(_judge(var.name, var.expect, new, err, failures))
            continue
        if text.count(var.old) != var.count:
            results.append((var.name, f"skipped: anchor text occurs "
                            f"{text.count(var.old)}x (expected {var.count})"))
            continue
        newtext = text.replace(var.old, var.new)
        try:
            compile(newtext, var.relpath, "exec")
        except SyntaxError as err:
            failures.append(f"{var.name}: variant does not compile: {err}")
            continue
        new, err = analyse(pid, {var.relpath: newtext})
        results.append(_judge(var.name, var.expect, new, err, failures))
    # seeded changes
    sdir = os.path.join(VERIF, "seeded")
    if os.path.isdir(sdir):
        for name in sorted(os.listdir(sdir)):
            meta_p = os.path.join(sdir, name, "meta.json")
            patch_p = os.path.join(sdir, name, "patch.diff")
            if not (os.path.exists(meta_p) and os.path.exists(patch_p)):
                continue
            with open(meta_p, encoding="utf-8") as fin:
                meta = json.load(fin)
            if meta.get("property") != pid:
                continue
            with open(patch_p, encoding="utf-8") as fin:
                overlay = apply_unified_diff(fin.read())
            if overlay is None:
                results.append((f"seeded/{name}",
                                "skipped: patch does not apply to the "
                                "current tree"))
                continue
            expect = meta.get("expected_static", "fires:" + pid)
            new, err = analyse(pid, overlay)
            results.append(_judge(f"seeded/{name}", expect, new, err,
                                  failures))
    # every repair made to /repo, undone: the reverse of each `fix:` commit is
    # kept as a patch; the defect must be reported again if it ever returns
    rdir = os.path.join(VERIF, "selftest", "reverts")
    if os.path.isdir(rdir):
        for name in sorted(os.listdir(rdir)):
            if not (name.startswith(pid + "_") and name.endswith(".diff")):
                continue
            with open(os.path.join(rdir, name), encoding="utf-8") as fin:
                overlay = apply_unified_diff(fin.read())
            label = f"fix {name[4:-5]} undone"
            if overlay is None:
                results.append((label, "skipped: patch does not apply to "
                                "the current tree"))
                continue
            new, err = analyse(pid, overlay)
            results.append(_judge(label, "fires:" + pid, new, err, failures))
    # behaviour-preserving twin of the whole tree: every non-test module
    # re-generated from its syntax tree (comments gone, layout, quoting and
    # parenthesisation changed).  A rule that matched source text rather
    # than structure would alarm here.
    overlay = reformatted_tree()
    new, err = analyse(pid, overlay)
    results.append(_judge("whole-tree reformatted (ast round trip)",
                          "silent", new, err, failures))
    if verbose:
        for name, res in results:
            print(f"selftest {pid} {name}: {res}")
    out_dir = os.path.join(VERIF, "evidence")
    path = os.path.join(out_dir, f"{pid}.json")
    if os.path.exists(path):
        with open(path, encoding="utf-8") as fin:
            evid = json.load(fin)
        evid["coverage"]["selftest"] = [
            {"variant": n, "result": r} for n, r in results]
        with open(path, "w", encoding="utf-8") as fout:
            json.dump(evid, fout, indent=1)
    return "; ".join(failures) if failures else None


def _judge(name, expect, new, err, failures):
    if expect == "error":
        if err is None:
            failures.append(f"{name}: expected ANALYSIS-ERROR, got "
                            f"{len(new)} findings")
            return name, "FAILED (no analysis error)"
        return name, "ok (analysis error as expected)"
    if err is not None:
        if expect == "miss":
            return name, f"analysis error: {err}"
        failures.append(f"{name}: unexpected analysis error: {err}")
        return name, f"FAILED (analysis error: {err})"
    if expect == "silent":
        if new:
            failures.append(f"{name}: behaviour-preserving variant raised "
                            f"{[f.key for f in new][:2]}")
            return name, "FAILED (false alarm)"
        return name, "ok (silent)"
    if expect == "miss":
        return name, ("recorded miss (outside what the rules decide)"
                      if not new else
                      f"now caught: {[f.rule for f in new][:3]}")
    prefix = expect.split(":", 1)[1]
    hit = [f for f in new if f.rule.startswith(prefix)]
    if not hit:
        failures.append(f"{name}: expected a {prefix} finding, got "
                        f"{[f.key for f in new][:3]}")
        return name, "FAILED (not detected)"
    return name, f"ok (fires {hit[0].rule}: {hit[0].detail[:60]})"
