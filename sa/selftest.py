"""Checker-sensitivity self-test (thorough tier). Filled per property."""


def run_for(pid):
    return None
