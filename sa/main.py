"""Driver: runs the rule module of one property against /repo's current
working tree.  exit 0 = held, 1 = VIOLATION, 2 = ANALYSIS-ERROR."""
import importlib
import json
import os
import sys
import traceback

HERE = os.path.dirname(os.path.abspath(__file__))
sys.path.insert(0, os.path.dirname(HERE))

from sa.index import RepoIndex, AnalysisError  # noqa: E402
from sa.report import Run  # noqa: E402

RULES = {
}


def discover():
    rdir = os.path.join(os.path.dirname(HERE), "rules")
    for fname in sorted(os.listdir(rdir)):
        if fname.startswith("c") and fname.endswith(".py") and \
                fname[1:3].isdigit():
            RULES["C" + fname[1:3]] = "rules." + fname[:-3]


def is_known(pid, fnd):
    from sa.report import load_known
    ent = load_known().get(fnd.key)
    return ent is not None and ent.get("status") == "known" and \
        ent.get("property") == pid


def run_property(pid, tier, quiet=False, index=None):
    modname = RULES.get(pid)
    if modname is None:
        raise AnalysisError(f"no check is built for property {pid}")
    mod = importlib.import_module(modname)
    idx = index or RepoIndex()
    run = Run(pid, tier, getattr(mod, "LEVEL", "other"))
    try:
        mod.check(idx, run)
        if tier == "thorough" and hasattr(mod, "check_thorough"):
            mod.check_thorough(idx, run)
    except AnalysisError as err:
        # a rule already decided a violation before a later rule lost its
        # anchor: the violation stands, the lost anchor is reported with it
        new = [f for f in run.findings if not is_known(pid, f)]
        if not new:
            raise
        run.note("analysis", f"stopped early: {err}")
    return run


def main(argv):
    discover()
    args = list(argv)
    tier = os.environ.get("VERIF_TIER", "quick") or "quick"
    replay = None
    pid = None
    while args:
        arg = args.pop(0)
        if arg == "--tier":
            tier = args.pop(0)
        elif arg == "--replay":
            replay = args.pop(0)
        elif arg == "--list":
            print(" ".join(sorted(RULES)))
            return 0
        else:
            pid = arg
    if tier not in ("quick", "thorough"):
        tier = "quick"
    if replay and not pid:
        with open(replay, encoding="utf-8") as fin:
            pid = json.load(fin)["property"]
    if not pid:
        print("usage: check <Cnn> [--tier quick|thorough] [--replay f]")
        return 2
    try:
        run = run_property(pid, tier, quiet=bool(replay))
        if replay:
            with open(replay, encoding="utf-8") as fin:
                want = json.load(fin)
            hit = [f for f in run.findings if f.key == want["key"]]
            if hit:
                fnd = hit[0]
                print(f"{fnd.where}: {fnd.rule} {fnd.construct} "
                      f"[{fnd.detail}] {fnd.message}")
                print(f"VIOLATION property={pid} replay={replay}")
                return 1
            print(f"replay: finding {want['key']} does not reproduce on "
                  f"the current tree")
            return 0
        code = run.finish()
        if tier == "thorough":
            from sa import selftest
            st = selftest.run_for(pid)
            if st:
                print(f"ANALYSIS-ERROR property={pid} checker self-test "
                      f"failed: {st}")
                return 2
        return code
    except AnalysisError as err:
        print(f"ANALYSIS-ERROR property={pid} {err}")
        return 2
    except Exception:  # pylint: disable=broad-except
        traceback.print_exc()
        print(f"ANALYSIS-ERROR property={pid} internal error in the checker")
        return 2


if __name__ == "__main__":
    sys.exit(main(sys.argv[1:]))
