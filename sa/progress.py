"""Loop-progress (termination hazard) analysis for `while` loops.

For every path through the loop body that returns to the loop head, some
quantity the loop test depends on must *advance*:
  * `v += c` / `v -= c` with a non-zero constant,
  * `v = <expr mentioning v>` (x = x.parent, x = x[1:], x = f(x)),
  * `v = <expr mentioning another name that advances on this path>`,
  * a container in the test is shrunk (del c[k], c.pop(), c.remove(...)) or
    consumed (next(it)).
A test variable that is only re-assigned from values that do not change
across iterations is the classic non-termination pattern.
"""
import ast
from .cfg import CFG, header_exprs

SHRINKERS = {"pop", "remove", "popleft", "popitem", "clear", "discard"}


def names(node):
    return {n.id for n in ast.walk(node) if isinstance(n, ast.Name)}


def test_names(test):
    """Names (and attribute roots) the loop test reads."""
    return names(test)


def path_effects(path):
    """-> (augmented, assigned {name: [value exprs]}, shrunk names)"""
    aug = set()
    assigned = {}
    shrunk = set()
    for cnode, _lab in path:
        node = cnode.ast
        if node is None:
            continue
        if cnode.kind == "stmt":
            if isinstance(node, ast.AugAssign) and \
                    isinstance(node.target, ast.Name):
                if isinstance(node.value, ast.Constant) and \
                        node.value.value not in (0, "", None):
                    aug.add(node.target.id)
                else:
                    assigned.setdefault(node.target.id, []).append(
                        ast.BinOp(left=node.target, op=node.op,
                                  right=node.value))
            elif isinstance(node, ast.Assign):
                for tgt in node.targets:
                    if isinstance(tgt, ast.Name):
                        assigned.setdefault(tgt.id, []).append(node.value)
                    elif isinstance(tgt, ast.Tuple):
                        for elt in tgt.elts:
                            if isinstance(elt, ast.Name):
                                assigned.setdefault(elt.id, []).append(
                                    node.value)
            elif isinstance(node, ast.Delete):
                for tgt in node.targets:
                    if isinstance(tgt, ast.Subscript):
                        shrunk |= names(tgt.value)
        elif cnode.kind == "for" and isinstance(node.target, ast.Name):
            assigned.setdefault(node.target.id, []).append(node.iter)
        for expr in header_exprs(cnode):
            for sub in ast.walk(expr):
                if isinstance(sub, ast.Call) and \
                        isinstance(sub.func, ast.Attribute) and \
                        sub.func.attr in SHRINKERS:
                    shrunk |= names(sub.func.value)
                if isinstance(sub, ast.Call) and \
                        isinstance(sub.func, ast.Name) and \
                        sub.func.id == "next" and sub.args:
                    shrunk |= names(sub.args[0])
    return aug, assigned, shrunk


def advancing(tnames, aug, assigned, shrunk):
    """Names that advance on this path (fixpoint)."""
    adv = set(aug) | set(shrunk)
    changed = True
    while changed:
        changed = False
        for name, vals in assigned.items():
            if name in adv:
                continue
            for val in vals:
                used = names(val)
                if name in used or used & adv:
                    adv.add(name)
                    changed = True
                    break
    return adv


def check_while(func, loop, cfg=None):
    """-> list of (kind, text) hazards for one `while` statement.
    kind: 'invariant-reassign' | 'no-progress'"""
    cfg = cfg or CFG(func)
    head = [n for n in cfg.nodes if n.ast is loop and n.kind == "test"]
    if not head:
        return []
    head = head[0]
    test = loop.test
    if isinstance(test, ast.Constant):
        return []   # `while True` with explicit exits: not judged here
    tnames = test_names(test)
    hazards = []
    starts = [tgt for tgt, lab in head.succ if lab == "true"]
    seen = set()
    for start in starts:
        for path in cfg.paths(start=start, stop=lambda n: n is head,
                              limit=4000):
            if path[-1][0] is not head:
                continue   # path leaves the loop (return / raise / break)
            aug, assigned, shrunk = path_effects(path)
            adv = advancing(tnames, aug, assigned, shrunk)
            if adv & tnames:
                continue
            # attribute-based tests: `while self._x` with self._x changed
            touched = set(assigned) & tnames
            key = tuple(sorted(touched))
            if key in seen:
                continue
            seen.add(key)
            if touched:
                txt = "; ".join(
                    f"{n} = {ast.unparse(assigned[n][-1])[:40]}"
                    for n in sorted(touched))
                hazards.append((
                    "invariant-reassign",
                    f"test variable(s) re-assigned only from values that "
                    f"do not change between iterations ({txt})"))
            else:
                # stores through attributes of a test name count as change
                attr_change = False
                for cnode, _ in path:
                    node = cnode.ast
                    if cnode.kind == "stmt" and isinstance(
                            node, (ast.Assign, ast.AugAssign)):
                        tgts = node.targets if isinstance(node, ast.Assign) \
                            else [node.target]
                        for tgt in tgts:
                            if isinstance(tgt, (ast.Attribute,
                                                ast.Subscript)) and \
                                    names(tgt) & tnames:
                                attr_change = True
                if not attr_change:
                    hazards.append((
                        "no-progress",
                        f"a path through the body changes nothing the test "
                        f"'{ast.unparse(test)[:50]}' depends on"))
    return hazards
