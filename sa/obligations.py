"""Obligation tables: which analysis helpers a validate() method must consult
on every accepting path.

An obligation names a *consultation* (a call fragment such as
`._validate_written_array(`), optionally the option that may bypass it.  The
check is path-sensitive on the CFG:

  state = (node, consulted?)      consulted becomes true at a node whose
                                  evaluated expressions contain the fragment
  a `for` head may only be left through its exhausted edge if the
  consultation is not inside that loop or has happened (a loop containing
  the consultation is assumed to run at least once: the obligation is per
  element)
  an `if` whose test mentions a bypass option may skip the consultation

If (EXIT, not consulted) is reachable, some accepting path skips the helper.
A helper that no longer occurs anywhere in the method is an ANALYSIS-ERROR
(the code was refactored and the table must be reviewed), unless
`missing_is_violation` is set.
"""
import ast
from .index import AnalysisError, loc
from .cfg import CFG, header_exprs


def node_text(cnode):
    return " ".join(ast.unparse(e) for e in header_exprs(cnode))


def matches(fragment, cnode):
    """fragment: text, or a tuple of alternative texts"""
    txt = node_text(cnode)
    if isinstance(fragment, tuple):
        return any(f in txt for f in fragment)
    return fragment in txt


def resolve_method(idx, clsname, meth):
    cls = idx.get_class(clsname)
    res = idx.find_method(cls, meth)
    if res is None:
        raise AnalysisError(f"{clsname}.{meth} not found")
    return cls, res[0], res[1]


def split_bypass(bypass):
    """'force' -> exempt when the test is true; 'opt:false' -> exempt when
    the test is false (the option *enables* the check)"""
    names, inverted = [], set()
    for item in bypass:
        name, _, pol = item.partition(":")
        names.append(name)
        if pol == "false":
            inverted.add(name)
    return names, inverted


def bypass_names(func, options):
    """local names bound to options.get('<opt>') / options['<opt>']"""
    options = [o.partition(":")[0] for o in options]
    names = set(options)
    for stmt in ast.walk(func):
        if isinstance(stmt, ast.Assign) and isinstance(stmt.targets[0],
                                                       ast.Name):
            txt = ast.unparse(stmt.value)
            if any(f"'{opt}'" in txt and "options" in txt
                   for opt in options):
                names.add(stmt.targets[0].id)
    return names


def skips_consult(func, fragment, bypass=(), early_ok=()):
    """Can a normal exit be reached without evaluating `fragment`?
    -> None if not, else a short description of the skipping path."""
    cfg = CFG(func)
    marks = {n.id for n in cfg.stmt_nodes() if matches(fragment, n)}
    if not marks:
        return "absent"
    bnames = bypass_names(func, bypass) if bypass else set()
    # for-loops that contain a marked node
    loop_has = {}
    for node in cfg.nodes:
        if node.kind == "for":
            inside = {n.id for n in cfg.stmt_nodes()
                      if n.ast is not node.ast and any(
                          sub is n.ast for sub in ast.walk(node.ast))}
            loop_has[node.id] = bool(inside & marks)
    start = (cfg.entry.id, False)
    seen = {start}
    todo = [(cfg.entry, False, [])]
    while todo:
        node, done, trail = todo.pop()
        if node is cfg.exit and not done:
            return " -> ".join(trail[-4:]) or "entry -> exit"
        for nxt, label in node.succ:
            if label == "exc":
                continue
            ndone = done or nxt.id in marks
            if node.kind == "for" and label == "false" and \
                    loop_has.get(node.id) and not done:
                continue
            if node.kind == "test" and isinstance(node.ast, ast.If) and \
                    early_ok and label == "true" and \
                    " ".join(ast.unparse(node.ast.test).split()) in early_ok:
                ndone = True    # reviewed early acceptance
            if node.kind == "test" and isinstance(node.ast, ast.If) and \
                    bnames:
                ttxt = ast.unparse(node.ast.test)
                tnames = {n.id for n in ast.walk(node.ast.test)
                          if isinstance(n, ast.Name)}
                onames, inverted = split_bypass(bypass)
                uses = bool(tnames & bnames) or any(
                    f"'{opt}'" in ttxt for opt in onames)
                if uses:
                    # the branch taken when the option is set is exempt
                    neg = ttxt.startswith("not ")
                    inv = any(f"'{opt}'" in ttxt for opt in inverted)
                    exempt = "false" if (neg != inv) else "true"
                    if label == exempt:
                        ndone = True
            key = (nxt.id, ndone)
            if key in seen:
                continue
            seen.add(key)
            step = trail + ([f"{node.lineno}:{label}"] if label else [])
            todo.append((nxt, ndone, step))
    return None


def iteration_skips(func, fragment, allowed_skips, bypass=()):
    """For the innermost `for` loop containing the consultation: the paths
    through one iteration that do not evaluate `fragment`.  Each must take a
    reviewed skip condition (text of an `if` test taken on its true branch)
    or a bypass option.  -> list of offending paths (texts of the tests)."""
    cfg = CFG(func)
    marks = {n.id for n in cfg.stmt_nodes() if matches(fragment, n)}
    if not marks:
        return ["absent"]
    bnames = bypass_names(func, bypass) if bypass else set()
    heads = []
    for node in cfg.nodes:
        if node.kind == "for":
            inside = {n.id for n in cfg.stmt_nodes()
                      if n.ast is not node.ast and any(
                          sub is n.ast for sub in ast.walk(node.ast))}
            if inside & marks:
                heads.append((len(inside), node))
    if not heads:
        return []
    head = min(heads, key=lambda h: h[0])[1]
    bad = []
    for nxt, label in head.succ:
        if label != "true":
            continue
        for path in cfg.paths(start=nxt, stop=lambda n: n is head,
                              limit=5000):
            if path[-1][0] is not head:
                continue    # leaves the loop by return / raise
            if any(n.id in marks for n, _ in path):
                continue
            tests = [(" ".join(ast.unparse(n.ast.test).split()), lab,
                      n.ast.test) for n, lab in path
                     if n.kind == "test" and isinstance(n.ast, ast.If)]
            ok = False
            for txt, lab, test in tests:
                if lab == "true" and txt in allowed_skips:
                    ok = True
                tnames = {x.id for x in ast.walk(test)
                          if isinstance(x, ast.Name)}
                if (tnames & bnames) or any(f"'{o}'" in txt
                                            for o in bypass):
                    neg = txt.startswith("not ")
                    if lab == ("false" if neg else "true"):
                        ok = True
            if not ok:
                bad.append([f"{t} is {l}" for t, l, _ in tests])
    return bad


def moved_to_helper(idx, cls, func, fragment):
    """is the fragment found in a method of the same class that `func`
    calls directly (a refactoring rather than a deletion)?"""
    for call in ast.walk(func):
        if isinstance(call, ast.Call) and isinstance(call.func,
                                                     ast.Attribute) and \
                isinstance(call.func.value, ast.Name) and \
                call.func.value.id in ("self", "cls"):
            res = idx.find_method(cls, call.func.attr)
            if res is None or res[1] is func:
                continue
            txt = " ".join(ast.unparse(res[1]).split())
            frags = fragment if isinstance(fragment, tuple) else (fragment,)
            if any(f in txt for f in frags):
                return True
    return False


def option_defaults(func, opt):
    """defaults given to options.get('<opt>', default) in func"""
    out = []
    for call in ast.walk(func):
        if isinstance(call, ast.Call) and isinstance(call.func,
                                                     ast.Attribute) and \
                call.func.attr == "get" and call.args and \
                isinstance(call.args[0], ast.Constant) and \
                call.args[0].value == opt:
            if len(call.args) > 1:
                dflt = call.args[1]
                if isinstance(dflt, ast.Constant):
                    out.append(dflt.value)
                else:
                    out.append(ast.unparse(dflt))
            else:
                out.append(None)
    return out


def const_test(test):
    """True / False when the test is trivially constant, else None"""
    if isinstance(test, ast.Constant):
        return bool(test.value)
    if isinstance(test, ast.UnaryOp) and isinstance(test.op, ast.Not):
        val = const_test(test.operand)
        return None if val is None else not val
    if isinstance(test, ast.BoolOp):
        vals = [const_test(v) for v in test.values]
        if isinstance(test.op, ast.And) and False in vals:
            return False
        if isinstance(test.op, ast.Or) and True in vals:
            return True
    return None


def reachable_refusals(func):
    """raise statements of an error that can be reached from the entry
    (constant-false tests are not followed)"""
    cfg = CFG(func)
    seen = {cfg.entry.id}
    todo = [cfg.entry]
    count = 0
    while todo:
        node = todo.pop()
        for nxt, label in node.succ:
            if node.kind == "test" and isinstance(node.ast, ast.If) and \
                    const_test(node.ast.test) is not None:
                if label != ("true" if const_test(node.ast.test)
                             else "false"):
                    continue
            if nxt.id in seen:
                continue
            seen.add(nxt.id)
            todo.append(nxt)
            if isinstance(nxt.ast, ast.Raise) and nxt.ast.exc is not None \
                    and "Error" in ast.unparse(nxt.ast.exc):
                count += 1
    return count


def predicate_guards(func):
    """For a predicate of the shape `if c1: return False ... return True`:
    the texts of the tests whose true branch returns False and that
    dominate the final `return True` (top level of the body only)."""
    guards = []
    body = list(func.body)
    if not body or not (isinstance(body[-1], ast.Return) and
                        isinstance(body[-1].value, ast.Constant) and
                        body[-1].value.value is True):
        raise AnalysisError(f"{func.name}: not of the shape "
                            f"'guards ...; return True'")
    for stmt in body[:-1]:
        if isinstance(stmt, ast.If) and not stmt.orelse and \
                len(stmt.body) == 1 and isinstance(stmt.body[0], ast.Return) \
                and isinstance(stmt.body[0].value, ast.Constant) and \
                stmt.body[0].value.value is False and \
                const_test(stmt.test) is None:
            guards.append(" ".join(ast.unparse(stmt.test).split()))
        elif any(isinstance(s, ast.Return) for s in ast.walk(stmt)):
            raise AnalysisError(f"{func.name}: a return inside "
                                f"'{ast.unparse(stmt)[:40]}' is outside the "
                                f"simple predicate shape")
    return guards


def check_predicate(idx, run, rule, clsname, meth, required):
    """required: [(tuple of alternative fragments, why)] - each must occur
    in some `if ...: return False` guard of the predicate"""
    cls, owner, func = resolve_method(idx, clsname, meth)
    guards = predicate_guards(func)
    cons = f"{clsname}.{meth}"
    for frags, why in required:
        if isinstance(frags, str):
            frags = (frags,)
        ok = any(f in g for g in guards for f in frags)
        run.check(rule, ok, cons, f"answers False when {why}",
                  f"{cons} can answer True although {why}: none of its "
                  f"'return False' guards tests {list(frags)} any more "
                  f"(guards: {guards})", loc(owner.module, func),
                  sample={"rule": rule, "predicate": cons,
                          "required": list(frags), "ok": ok})


def check_table(idx, run, rule, table):
    """table: {(Class, method): {"consults": [(fragment, why, bypass)],
    "raises": floor}}"""
    for (clsname, meth), spec in sorted(table.items()):
        cls, owner, func = resolve_method(idx, clsname, meth)
        cons = f"{clsname}.{meth}"
        where = loc(owner.module, func)
        for entry in spec.get("consults", []):
            fragment, why = entry[0], entry[1]
            bypass = entry[2] if len(entry) > 2 else ()
            res = skips_consult(func, fragment, bypass,
                                spec.get("early_ok", ()))
            if res == "absent":
                if moved_to_helper(idx, cls, func, fragment):
                    raise AnalysisError(
                        f"{cons}: the consultation '{fragment}' moved into "
                        f"a helper method - the obligation table needs "
                        f"review")
                res = "every path: the call is gone"
            run.check(
                rule, res is None, cons, f"consults {fragment}",
                f"{cons} can accept a target without {why} "
                f"('{fragment}' is skipped on the path {res})"
                + (f"; only the option(s) {list(bypass)} may bypass it"
                   if bypass else ""), where,
                sample={"rule": rule, "method": cons,
                        "consult": fragment, "bypass": list(bypass),
                        "ok": res is None})
        for entry in list(spec.get("consults", [])) + [
                (e[0], e[1], e[3]) for e in spec.get("per_iteration", [])
                if len(e) > 3]:
            for item in (entry[2] if len(entry) > 2 else ()):
                opt, _, pol = item.partition(":")
                want = pol == "false"
                for got in option_defaults(func, opt):
                    run.check(
                        rule, bool(got) == want, cons,
                        f"default of option '{opt}'",
                        f"{cons}: the option '{opt}' that switches off "
                        f"'{entry[0]}' now defaults to {got!r}: the check "
                        f"is skipped unless the caller asks for it", where)
        for entry in spec.get("per_iteration", []):
            fragment, why, skips = entry[0], entry[1], entry[2]
            bypass = entry[3] if len(entry) > 3 else ()
            bad = iteration_skips(func, fragment, skips, bypass)
            if bad == ["absent"]:
                if moved_to_helper(idx, cls, func, fragment):
                    raise AnalysisError(
                        f"{cons}: the consultation '{fragment}' moved into "
                        f"a helper method - the obligation table needs "
                        f"review")
                bad = [["the call is gone"]]
            run.check(
                rule, not bad, cons, f"every element reaches {fragment}",
                f"{cons}: an iteration can finish without {why} "
                f"('{fragment}') and without one of the reviewed skip "
                f"conditions {skips}; tests on that path: {bad[:1]}",
                where, sample={"rule": rule, "method": cons,
                               "consult": fragment, "skips": skips,
                               "ok": not bad})
        floor = spec.get("raises")
        if floor is not None:
            nraise = reachable_refusals(func)
            if nraise < floor:
                # checks moved into helper methods of the class still count
                from .guards import refusals as _refusals

                def resolver(name, owner=owner):
                    got = idx.find_method(owner, name)
                    return got[1] if got else None
                nraise = max(nraise, len(_refusals(func, resolver)))
            run.check(
                rule, nraise >= floor, cons, "number of refusals",
                f"{cons} has {nraise} refusal statements, the reviewed "
                f"version had {floor}: a validity check was removed",
                where, sample={"rule": rule, "method": cons,
                               "refusals": nraise, "floor": floor})
        for frag, why in spec.get("contains", []):
            txt = " ".join(ast.unparse(func).split())
            run.check(rule, frag in txt, cons, f"has {frag[:50]}",
                      f"{cons} no longer contains '{frag}': {why}", where)
