"""Affine normal forms over two named integer atoms and an exact sign test on
polyhedral regions given by generators (one vertex, a set of rays).

Used to compare list positions computed by the code with Python's list
semantics for *all* values of (index, len) - the four regions below partition
Z x N, and on each region both the code's and the oracle's positions are
affine, so equality / ordering is decided exactly without sampling values.
"""
import ast
from .index import AnalysisError


class Aff:
    """c0 + sum coef[atom] * atom."""
    __slots__ = ("const", "coef")

    def __init__(self, const=0, coef=None):
        self.const = const
        self.coef = {k: v for k, v in (coef or {}).items() if v != 0}

    @staticmethod
    def atom(name):
        return Aff(0, {name: 1})

    def __add__(self, other):
        other = _lift(other)
        coef = dict(self.coef)
        for key, val in other.coef.items():
            coef[key] = coef.get(key, 0) + val
        return Aff(self.const + other.const, coef)

    def __neg__(self):
        return Aff(-self.const, {k: -v for k, v in self.coef.items()})

    def __sub__(self, other):
        return self + (-_lift(other))

    def scale(self, fac):
        return Aff(self.const * fac, {k: v * fac
                                      for k, v in self.coef.items()})

    def __eq__(self, other):
        other = _lift(other)
        return self.const == other.const and self.coef == other.coef

    def __hash__(self):
        return hash((self.const, tuple(sorted(self.coef.items()))))

    def is_const(self):
        return not self.coef

    def subst(self, atom, value):
        """Replace an atom by an affine form."""
        if atom not in self.coef:
            return self
        fac = self.coef[atom]
        rest = Aff(self.const, {k: v for k, v in self.coef.items()
                                if k != atom})
        return rest + _lift(value).scale(fac)

    def atoms(self):
        return set(self.coef)

    def __repr__(self):
        parts = []
        for key in sorted(self.coef):
            val = self.coef[key]
            if val == 1:
                parts.append(f"+{key}")
            elif val == -1:
                parts.append(f"-{key}")
            else:
                parts.append(f"{val:+d}*{key}")
        if self.const or not parts:
            parts.append(f"{self.const:+d}")
        txt = "".join(parts)
        return txt[1:] if txt.startswith("+") else txt


def _lift(val):
    if isinstance(val, Aff):
        return val
    if isinstance(val, int):
        return Aff(val)
    raise AnalysisError(f"not affine: {val!r}")


class Region:
    """A set of integer points {vertex + sum t_k * ray_k, t_k >= 0} over the
    named atoms.  All regions used here are unimodular cones so the integer
    points are exactly the integer combinations."""

    def __init__(self, name, atoms, vertex, rays, descr):
        self.name = name
        self.atoms = atoms
        self.vertex = dict(zip(atoms, vertex))
        self.rays = [dict(zip(atoms, r)) for r in rays]
        self.descr = descr

    def _val(self, aff, point, with_const=True):
        extra = aff.atoms() - set(self.atoms)
        if extra:
            raise AnalysisError(
                f"expression uses atoms {sorted(extra)} unknown to region "
                f"{self.name}")
        tot = aff.const if with_const else 0
        for key, fac in aff.coef.items():
            tot += fac * point[key]
        return tot

    def nonneg(self, aff):
        """aff >= 0 everywhere on the region (exact)."""
        aff = _lift(aff)
        if self._val(aff, self.vertex) < 0:
            return False
        return all(self._val(aff, ray, False) >= 0 for ray in self.rays)

    def sign(self, aff):
        """'>=0', '<0' or None (indeterminate on this region)."""
        aff = _lift(aff)
        if self.nonneg(aff):
            return ">=0"
        if self.nonneg((-aff) - 1):
            return "<0"
        return None

    def always(self, op, left, right):
        """Decide `left op right` on the whole region: True / False / None."""
        left, right = _lift(left), _lift(right)
        diff = left - right
        if op == ">=":
            sgn = self.sign(diff)
        elif op == ">":
            sgn = self.sign(diff - 1)
        elif op == "<=":
            sgn = self.sign(-diff)
        elif op == "<":
            sgn = self.sign((-diff) - 1)
        elif op == "==":
            if diff == Aff(0):
                return True
            if self.sign(diff - 1) == ">=0" or self.sign((-diff) - 1) == \
                    ">=0":
                return False
            return None
        elif op == "!=":
            res = self.always("==", left, right)
            return None if res is None else not res
        else:
            raise AnalysisError(f"unsupported comparison {op}")
        if sgn is None:
            return None
        return sgn == ">=0"

    def __repr__(self):
        return f"<Region {self.name}: {self.descr}>"


# The four regions of (index i, length n) that Python's list indexing
# distinguishes.  vertex / rays are (i, n) pairs.
INDEX_REGIONS = [
    Region("beyond", ("i", "n"), (0, 0), [(1, 0), (1, 1)],
           "i >= n >= 0 (at or past the end)"),
    Region("inside", ("i", "n"), (0, 1), [(0, 1), (1, 1)],
           "0 <= i < n"),
    Region("neg-inside", ("i", "n"), (-1, 1), [(0, 1), (-1, 1)],
           "-n <= i < 0"),
    Region("neg-beyond", ("i", "n"), (-1, 0), [(-1, 0), (-1, 1)],
           "i < -n"),
]

_CMP = {ast.GtE: ">=", ast.Gt: ">", ast.LtE: "<=", ast.Lt: "<",
        ast.Eq: "==", ast.NotEq: "!="}


def cmp_op(node):
    for klass, txt in _CMP.items():
        if isinstance(node, klass):
            return txt
    raise AnalysisError(f"unsupported comparison {type(node).__name__}")
