"""Findings, known-finding matching, evidence files, exit codes."""
import json
import os
import time

VERIF = os.path.dirname(os.path.dirname(os.path.abspath(__file__)))
KNOWN_FILE = os.path.join(VERIF, "known_findings.json")


class Finding:
    def __init__(self, rule, construct, detail, message, where, path=None):
        self.rule = rule            # e.g. "C14.R1"
        self.construct = construct  # qualified name of function / class
        self.detail = detail        # stable, line-independent instance key
        self.message = message
        self.where = where          # file:line (for humans only)
        self.path = path            # optional entry -> exit path text

    @property
    def key(self):
        return f"{self.rule}|{self.construct}|{self.detail}"

    def as_dict(self):
        out = {"rule": self.rule, "construct": self.construct,
               "detail": self.detail, "message": self.message,
               "where": self.where, "key": self.key}
        if self.path:
            out["path"] = self.path
        return out


class Run:
    """Collects what one check analysed and found."""

    def __init__(self, pid, tier="quick", level="other"):
        self.pid = pid
        self.tier = tier
        self.level = level
        self.start = time.time()
        self.findings = []
        self.notes = []
        self.obligations = 0
        self.discharged = 0
        self.samples = []
        self.analysed = {}       # kind -> count
        self.rules = {}          # rule -> {"instances": n, "failed": n}
        self.explanation = ""
        self.assumptions = []
        self.extra = {}
        self.exhaustive = None
        self.trusted_base = []
        self.errors = []

    # ------------------------------------------------------------------
    def count(self, kind, n=1):
        self.analysed[kind] = self.analysed.get(kind, 0) + n

    def ob(self, rule, ok, sample=None):
        """Record one obligation (rule instance)."""
        self.obligations += 1
        ent = self.rules.setdefault(rule, {"instances": 0, "failed": 0})
        ent["instances"] += 1
        if ok:
            self.discharged += 1
        else:
            ent["failed"] += 1
        if sample is not None and len(self.samples) < 60:
            self.samples.append(sample)
        return ok

    def finding(self, rule, construct, detail, message, where, path=None):
        fnd = Finding(rule, construct, detail, message, where, path)
        if fnd.key not in {f.key for f in self.findings}:
            self.findings.append(fnd)
        return fnd

    def check(self, rule, ok, construct, detail, message, where,
              sample=None, path=None):
        """Obligation + finding if it fails."""
        self.ob(rule, ok, sample if sample is not None else
                {"rule": rule, "construct": construct, "instance": detail,
                 "ok": bool(ok)})
        if not ok:
            self.finding(rule, construct, detail, message, where, path)
        return ok

    def note(self, rule, text):
        self.notes.append(f"{rule}: {text}")

    def floor(self, what, count, minimum):
        from .index import AnalysisError
        self.extra.setdefault("floors", {})[what] = \
            {"count": count, "minimum": minimum}
        if count < minimum:
            raise AnalysisError(
                f"instance count for '{what}' is {count}, below the "
                f"confirmed floor {minimum}: the rule no longer sees the "
                f"code it was written for")

    # ------------------------------------------------------------------
    def finish(self, quiet=False):
        known = load_known()
        new, matched = [], []
        for fnd in self.findings:
            ent = known.get(fnd.key)
            if ent is not None and ent.get("status") == "known" and \
                    ent.get("property") == self.pid:
                matched.append((fnd, ent))
            else:
                new.append(fnd)
        replay_dir = os.path.join(VERIF, "evidence", "replay")
        os.makedirs(replay_dir, exist_ok=True)
        # stale replay files of this property are removed
        for fname in os.listdir(replay_dir):
            if fname.startswith(self.pid + "-"):
                os.remove(os.path.join(replay_dir, fname))
        if not quiet:
            for key in sorted(self.analysed):
                print(f"analysed {key}: {self.analysed[key]}")
            for rule in sorted(self.rules):
                ent = self.rules[rule]
                print(f"rule {rule}: {ent['instances']} instances, "
                      f"{ent['failed']} failed")
            for note in self.notes:
                print(f"NOTE {note}")
            for fnd, ent in matched:
                print(f"KNOWN-FINDING: property={self.pid} {fnd.rule} "
                      f"{fnd.construct} [{fnd.detail}] {fnd.message} "
                      f"({fnd.where})")
        for k, fnd in enumerate(new):
            rpath = os.path.join(replay_dir, f"{self.pid}-{k}.json")
            with open(rpath, "w", encoding="utf-8") as fout:
                json.dump({"property": self.pid, **fnd.as_dict()}, fout,
                          indent=1)
            if not quiet:
                print(f"{fnd.where}: {fnd.rule} {fnd.construct} "
                      f"[{fnd.detail}] {fnd.message}")
                if fnd.path:
                    print(f"    path: {fnd.path}")
                print(f"VIOLATION property={self.pid} replay={rpath}")
        self.write_evidence(len(new), matched)
        if not quiet:
            print(f"{self.pid}: obligations={self.obligations} "
                  f"discharged={self.discharged} known={len(matched)} "
                  f"new={len(new)} wall={time.time() - self.start:.2f}s")
        return 1 if new else 0

    def write_evidence(self, nviol, matched):
        cov = {
            "explanation": self.explanation or
            "static rule check over the current source tree",
            "obligations": self.obligations,
            "discharged": self.discharged,
            "evaluations": max(self.obligations, 1),
            "distinct_nontrivial": max(len(
                {json.dumps(s, sort_keys=True, default=str)
                 for s in self.samples}), 0),
            "rule": "one evaluation = one rule instance (an obligation "
                    "extracted from the current source); distinct = "
                    "distinct (rule, construct, instance) triples among "
                    "the recorded samples",
            "samples": self.samples[:40] or
            [{"note": "no instance recorded"}],
            "analysed": self.analysed,
            "rules": self.rules,
            "notes": self.notes[:60],
            "known_findings_matched": [f.key for f, _ in matched],
            "checker_cmd": f"./check {self.pid} --tier {self.tier}",
            "trusted_base": self.trusted_base or [
                "CPython ast parser", "the rule tables in /verif/rules "
                "and /verif/tables (hand-confirmed against the tree)"],
        }
        if self.exhaustive is not None:
            cov["exhaustive"] = self.exhaustive
        cov.update(self.extra)
        level = self.level
        if level == "proof" and (self.obligations != self.discharged
                                 or self.obligations == 0):
            level = "other"
        evid = {
            "property_id": self.pid,
            "tier": self.tier,
            "seed": int(os.environ.get("VERIF_SEED", "0") or 0),
            "level": level,
            "coverage": cov,
            "assumptions": self.assumptions,
            "wall_s": round(time.time() - self.start, 3),
            "violations": nviol,
        }
        path = os.path.join(VERIF, "evidence", f"{self.pid}.json")
        os.makedirs(os.path.dirname(path), exist_ok=True)
        with open(path, "w", encoding="utf-8") as fout:
            json.dump(evid, fout, indent=1, default=str)


def load_known():
    if not os.path.exists(KNOWN_FILE):
        return {}
    with open(KNOWN_FILE, encoding="utf-8") as fin:
        data = json.load(fin)
    return {ent["key"]: ent for ent in data.get("findings", [])}
