"""Call resolution and interprocedural effect summaries.

* resolve(call)      -> the repo functions a call expression may invoke
* may_raise(func)    -> exception class names that can escape the function
* summaries are least fixpoints over the resolved call graph; unresolved
  callees are reported to the caller (rules decide what to do with them).
"""
import ast
from .index import ClassInfo, ModuleInfo, docstring_types

BUILTIN_EXC_BASES = {
    "KeyError": "LookupError", "IndexError": "LookupError",
    "LookupError": "Exception", "ValueError": "Exception",
    "TypeError": "Exception", "AttributeError": "Exception",
    "NotImplementedError": "RuntimeError", "RuntimeError": "Exception",
    "OSError": "Exception", "IOError": "Exception",
    "FileNotFoundError": "OSError", "FileExistsError": "OSError",
    "StopIteration": "Exception", "AssertionError": "Exception",
    "ImportError": "Exception", "ModuleNotFoundError": "ImportError",
    "ZeroDivisionError": "ArithmeticError", "ArithmeticError": "Exception",
    "UnicodeDecodeError": "ValueError", "Exception": "BaseException",
    "SystemExit": "BaseException", "KeyboardInterrupt": "BaseException",
}

PURE_BUILTINS = {
    "len", "isinstance", "issubclass", "str", "int", "float", "bool", "list",
    "tuple", "set", "dict", "frozenset", "sorted", "reversed", "enumerate",
    "zip", "range", "min", "max", "sum", "any", "all", "abs", "hasattr",
    "getattr", "type", "id", "repr", "print", "iter", "next", "map",
    "filter", "super", "callable", "format", "ord", "chr", "hash", "vars",
    "OrderedDict", "round", "divmod", "object", "slice", "bytes",
}


class FuncRef:
    __slots__ = ("module", "cls", "node")

    def __init__(self, module, cls, node):
        self.module = module
        self.cls = cls
        self.node = node

    @property
    def qname(self):
        if self.cls is not None:
            return f"{self.cls.name}.{self.node.name}"
        return f"{self.module.name.rsplit('.', 1)[-1]}.{self.node.name}"

    @property
    def key(self):
        return id(self.node)

    def __repr__(self):
        return f"<Func {self.qname}>"


class Effects:
    def __init__(self, idx):
        self.idx = idx
        self._raise_cache = {}
        self._in_progress = set()
        self._local_types_cache = {}
        self.unresolved = {}     # func key -> list of call text
        self.unique_names = True
        self._owner_cache = None

    # ------------------------------------------------------------------
    def exc_is_a(self, name, base):
        """Is exception class `name` a subclass of `base` (by simple name)?"""
        seen = set()
        cur = name
        while cur and cur not in seen:
            if cur == base:
                return True
            seen.add(cur)
            cands = self.idx.by_simple.get(cur)
            if cands:
                cls = cands[0]
                nxt = None
                for c in self.idx.mro(cls)[1:]:
                    if c.name == base:
                        return True
                # follow first base expression by name (covers externals)
                if cls.base_exprs:
                    nxt = ast.unparse(cls.base_exprs[0]).split(".")[-1]
                cur = nxt
            else:
                cur = BUILTIN_EXC_BASES.get(cur)
        return False

    # ------------------------------------------------------------------
    def local_types(self, fref):
        """name -> ClassInfo for locals whose class is evident."""
        if fref.key in self._local_types_cache:
            return self._local_types_cache[fref.key]
        types = {}
        mod = fref.module
        doc = docstring_types(fref.node)
        for arg, text in doc.items():
            cls = self._class_from_doc(text)
            if cls is not None:
                types[arg] = cls
        for sub in ast.walk(fref.node):
            if isinstance(sub, ast.Assign) and len(sub.targets) == 1 and \
                    isinstance(sub.targets[0], ast.Name) and \
                    isinstance(sub.value, ast.Call):
                res = self.idx.resolve_name(mod, sub.value.func)
                if isinstance(res, ClassInfo):
                    types.setdefault(sub.targets[0].id, res)
            elif isinstance(sub, ast.withitem) and \
                    isinstance(sub.optional_vars, ast.Name) and \
                    isinstance(sub.context_expr, ast.Call):
                res = self.idx.resolve_name(mod, sub.context_expr.func)
                if isinstance(res, ClassInfo):
                    types.setdefault(sub.optional_vars.id, res)
        self._local_types_cache[fref.key] = types
        return types

    def _class_from_doc(self, text):
        # ":py:class:`psyclone.psyir.nodes.Node`"
        if "`" not in text or "|" in text or " or " in text:
            return None
        inner = text.split("`")[1].lstrip("~")
        name = inner.split(".")[-1]
        cands = self.idx.by_simple.get(name, [])
        if len(cands) == 1:
            return cands[0]
        return None

    def resolve(self, fref, call):
        """-> (list of FuncRef, resolved?)  resolved=False means the callee
        is unknown to the analysis (external library or dynamic)."""
        func = call.func
        mod = fref.module
        idx = self.idx
        if isinstance(func, ast.Name):
            if func.id in PURE_BUILTINS:
                return [], True
            res = idx.resolve_name(mod, func)
            if isinstance(res, ClassInfo):
                init = idx.find_method(res, "__init__")
                return ([FuncRef(init[0].module, init[0], init[1])]
                        if init else []), True
            if isinstance(res, tuple) and isinstance(
                    res[1], (ast.FunctionDef, ast.AsyncFunctionDef)):
                return [FuncRef(res[0], None, res[1])], True
            # nested function defined in the same function
            for sub in ast.walk(fref.node):
                if isinstance(sub, ast.FunctionDef) and sub.name == func.id \
                        and sub is not fref.node:
                    return [FuncRef(mod, fref.cls, sub)], True
            return [], False
        if not isinstance(func, ast.Attribute):
            return [], False
        meth = func.attr
        recv = func.value
        # super().m()
        if isinstance(recv, ast.Call) and isinstance(recv.func, ast.Name) \
                and recv.func.id == "super" and fref.cls is not None:
            res = idx.find_method(fref.cls, meth, after=fref.cls)
            if res:
                return [FuncRef(res[0].module, res[0], res[1])], True
            return [], True   # object / list / dict base: treated external
        # self.m() / cls.m()
        if isinstance(recv, ast.Name) and recv.id in ("self", "cls") and \
                fref.cls is not None:
            return self._method_on(fref.cls, meth, include_overrides=True)
        # Cls.m() or module.f()
        res = idx.resolve_name(mod, recv)
        if isinstance(res, ClassInfo):
            return self._method_on(res, meth)
        if isinstance(res, ModuleInfo):
            sub = idx.resolve_dotted(res.name + "." + meth)
            if isinstance(sub, ClassInfo):
                init = idx.find_method(sub, "__init__")
                return ([FuncRef(init[0].module, init[0], init[1])]
                        if init else []), True
            if isinstance(sub, tuple) and isinstance(
                    sub[1], (ast.FunctionDef, ast.AsyncFunctionDef)):
                return [FuncRef(sub[0], None, sub[1])], True
            return [], False
        # Cls(...).m()
        if isinstance(recv, ast.Call):
            rcls = idx.resolve_name(mod, recv.func)
            if isinstance(rcls, ClassInfo):
                return self._method_on(rcls, meth)
        # local variable of evident class
        if isinstance(recv, ast.Name):
            ltypes = self.local_types(fref)
            if recv.id in ltypes:
                return self._method_on(ltypes[recv.id], meth,
                                       include_overrides=True)
        # method name defined by exactly one class in the repository
        if self.unique_names:
            owners = self._owners(meth)
            if len(owners) == 1:
                cls = owners[0]
                return [FuncRef(cls.module, cls, cls.methods[meth])], True
        return [], False

    def _owners(self, meth):
        if self._owner_cache is None:
            self._owner_cache = {}
            for cls in self.idx.classes.values():
                for name in cls.methods:
                    self._owner_cache.setdefault(name, []).append(cls)
        return self._owner_cache.get(meth, [])

    def _method_on(self, cls, meth, include_overrides=False):
        idx = self.idx
        out = []
        res = idx.find_method(cls, meth)
        if res:
            out.append(FuncRef(res[0].module, res[0], res[1]))
        if include_overrides:
            for sub in idx.all_subclasses(cls, include_self=False):
                if meth in sub.methods:
                    out.append(FuncRef(sub.module, sub, sub.methods[meth]))
        if not out:
            # may be an attribute holding a callable, or external base
            return [], False
        return out, True

    # ------------------------------------------------------------------
    def handlers_catch(self, stack, exc):
        """Does any handler frame on the stack catch exception `exc`?"""
        for frame in stack:
            for caught in frame:
                if caught is None or self.exc_is_a(exc, caught):
                    return True
        return False

    def raised_names(self, node):
        """Exception class name of a `raise` statement ('?' if dynamic)."""
        exc = node.exc
        if exc is None:
            return "<reraise>"
        if isinstance(exc, ast.Call):
            exc = exc.func
        if isinstance(exc, ast.Name):
            return exc.id
        if isinstance(exc, ast.Attribute):
            return exc.attr
        return "?"

    def may_raise(self, fref, depth=0):
        """Set of exception class names that may escape `fref` through an
        explicit raise here or in resolved callees."""
        key = fref.key
        if key in self._raise_cache:
            return self._raise_cache[key]
        if key in self._in_progress or depth > 25:
            return set()
        self._in_progress.add(key)
        result = set()
        unresolved = []

        def visit_expr(expr, stack):
            for sub in ast.walk(expr):
                if isinstance(sub, ast.Call):
                    targets, ok = self.resolve(fref, sub)
                    if not ok:
                        unresolved.append(ast.unparse(sub.func))
                    for tgt in targets:
                        for exc in self.may_raise(tgt, depth + 1):
                            if not self.handlers_catch(stack, exc):
                                result.add(exc)

        def visit(stmts, stack, handler_excs=None):
            for stmt in stmts:
                if isinstance(stmt, ast.Raise):
                    name = self.raised_names(stmt)
                    if name == "<reraise>":
                        for exc in handler_excs or ["?"]:
                            if exc is not None and \
                                    not self.handlers_catch(stack, exc):
                                result.add(exc)
                    elif name and not self.handlers_catch(stack, name):
                        result.add(name)
                    if stmt.exc is not None:
                        visit_expr(stmt.exc, stack)
                elif isinstance(stmt, ast.Try):
                    caught = []
                    for hnd in stmt.handlers:
                        if hnd.type is None:
                            caught.append(None)
                        elif isinstance(hnd.type, ast.Tuple):
                            caught += [ast.unparse(e).split(".")[-1]
                                       for e in hnd.type.elts]
                        else:
                            caught.append(
                                ast.unparse(hnd.type).split(".")[-1])
                    visit(stmt.body, stack + [caught], handler_excs)
                    visit(stmt.orelse, stack, handler_excs)
                    for hnd in stmt.handlers:
                        if hnd.type is None:
                            hexc = ["?"]
                        elif isinstance(hnd.type, ast.Tuple):
                            hexc = [ast.unparse(e).split(".")[-1]
                                    for e in hnd.type.elts]
                        else:
                            hexc = [ast.unparse(hnd.type).split(".")[-1]]
                        visit(hnd.body, stack, hexc)
                    visit(stmt.finalbody, stack, handler_excs)
                elif isinstance(stmt, (ast.FunctionDef, ast.AsyncFunctionDef,
                                       ast.ClassDef)):
                    continue
                else:
                    for field, value in ast.iter_fields(stmt):
                        if isinstance(value, list) and value and \
                                isinstance(value[0], ast.stmt):
                            visit(value, stack, handler_excs)
                        elif isinstance(value, list):
                            for item in value:
                                if isinstance(item, ast.AST):
                                    visit_expr(item, stack)
                        elif isinstance(value, ast.AST):
                            visit_expr(value, stack)

        visit(fref.node.body, [])
        self._in_progress.discard(key)
        self._raise_cache[key] = result
        self.unresolved[key] = unresolved
        return result

    def call_may_raise(self, fref, call, exc_base):
        """May this call (inside fref) raise a subclass of exc_base?
        -> (True/False, resolved?)"""
        targets, ok = self.resolve(fref, call)
        for tgt in targets:
            for exc in self.may_raise(tgt):
                if self.exc_is_a(exc, exc_base):
                    return True, ok
        return False, ok
