"""Which statements mutate the caller's PSyIR / symbol tables?

Vocabulary taken from PSyclone's own API (confirmed by reading node.py,
symbol_table.py, commentable_mixin.py):

  tree      replace_with detach addchild pop_all_children
            children.<list mutator>   X.children = ...   X.children[i] = ...
            lower_to_language_level   append_preceding_comment
            X.preceding_comment = / X.inline_comment =
  symbols   symbol_table.<add new_symbol find_or_create find_or_create_tag
            remove rename_symbol merge swap specify_argument_list
            resolve_imports copy_external_import swap_symbol_properties>
            X.symbol = / X.variable = / X.name = / X.datatype = /
            X.interface = / X.initial_value = / X.is_constant = ... on
            non-self, non-fresh receivers
  nested    <Transformation>.apply(...)

A receiver whose root variable is *fresh* in the function (every assignment
to it is a constructor call, a `.create(...)`, a `.copy()` or a literal) is
a private object and mutating it does not count.
"""
import ast

TREE_MUTATORS = {"replace_with", "detach", "addchild", "pop_all_children",
                 "lower_to_language_level", "append_preceding_comment",
                 "replace_named_arg", "append_named_arg",
                 "insert_named_arg"}
LIST_MUTATORS = {"append", "insert", "extend", "pop", "remove", "clear",
                 "reverse"}
SYMTAB_MUTATORS = {"add", "new_symbol", "find_or_create",
                   "find_or_create_tag", "remove", "rename_symbol", "merge",
                   "swap", "specify_argument_list", "resolve_imports",
                   "copy_external_import", "swap_symbol_properties",
                   "find_or_create_integer_symbol", "find_or_create_array",
                   "attach", "detach"}
ATTR_STORES = {"symbol", "variable", "name", "datatype", "interface",
               "initial_value", "is_constant", "visibility",
               "preceding_comment", "inline_comment", "children",
               "loop_type", "iteration_space", "field_space", "field_name",
               "routine", "return_symbol", "is_program", "module_inline",
               "wildcard_import", "nowait", "reprod", "collapse",
               "omp_schedule", "default_visibility"}


def root_name(expr):
    while isinstance(expr, (ast.Attribute, ast.Subscript, ast.Call)):
        expr = expr.func if isinstance(expr, ast.Call) else expr.value
    return expr.id if isinstance(expr, ast.Name) else None


def fresh_vars(func):
    """Names all of whose assignments create a private object."""
    assigns = {}
    params = {a.arg for a in func.args.args + func.args.kwonlyargs}
    if func.args.vararg:
        params.add(func.args.vararg.arg)
    if func.args.kwarg:
        params.add(func.args.kwarg.arg)
    for sub in ast.walk(func):
        targets = []
        if isinstance(sub, ast.Assign):
            targets = [(t, sub.value) for t in sub.targets]
        elif isinstance(sub, ast.AnnAssign) and sub.value is not None:
            targets = [(sub.target, sub.value)]
        elif isinstance(sub, (ast.For, ast.comprehension)):
            # iterating over (a navigation of) a private tree yields private
            # nodes: recorded as an assignment from the iterable itself
            targets = [(sub.target, sub.iter)]
        elif isinstance(sub, ast.withitem) and sub.optional_vars is not None:
            targets = [(sub.optional_vars, None)]
        elif isinstance(sub, ast.NamedExpr):
            targets = [(sub.target, sub.value)]
        for tgt, val in targets:
            for name in ast.walk(tgt):
                if isinstance(name, ast.Name) and \
                        isinstance(name.ctx, ast.Store):
                    direct = name is tgt
                    if isinstance(sub, (ast.For, ast.comprehension)) and \
                            direct:
                        # only navigation iterables keep freshness
                        val = val if isinstance(val, (ast.Call, ast.Name,
                                                      ast.Attribute,
                                                      ast.Subscript)) \
                            else None
                        assigns.setdefault(name.id, []).append(
                            ("iter", val))
                        continue
                    assigns.setdefault(name.id, []).append(
                        val if direct else None)
    fresh = set()
    size = -1
    while size != len(fresh):
        size = len(fresh)
        _fresh_round(assigns, params, fresh)
    return fresh


def _fresh_round(assigns, params, fresh):
    changed = True
    while changed:
        changed = False
        for name, vals in assigns.items():
            if name in fresh or name in params:
                continue
            def ok(val):
                if isinstance(val, tuple) and val[0] == "iter":
                    it = val[1]
                    return it is not None and (
                        _navigates_fresh(it, fresh) or
                        (isinstance(it, ast.Name) and it.id in fresh))
                return val is not None and _is_fresh_expr(val, fresh)
            if all(ok(v) for v in vals):
                fresh.add(name)
                changed = True
    # cursor variables: `cur = fresh_root` followed by `cur = cur.children[i]`
    # (self-referential navigation) stay inside the private tree
    changed = True
    while changed:
        changed = False
        for name, vals in assigns.items():
            if name in fresh or name in params:
                continue
            trial = fresh | {name}

            def ok2(val):
                if isinstance(val, tuple) and val[0] == "iter":
                    it = val[1]
                    return it is not None and (
                        _navigates_fresh(it, trial) or
                        (isinstance(it, ast.Name) and it.id in trial))
                return val is not None and _is_fresh_expr(val, trial)
            grounded = any(
                not (isinstance(v, tuple)) and v is not None and
                _is_fresh_expr(v, fresh) for v in vals)
            if grounded and all(ok2(v) for v in vals):
                fresh.add(name)
                changed = True
    return fresh


# navigation from a private tree stays inside that private tree
NAVIGATION = {"children", "walk", "loop_body", "if_body", "else_body",
              "dir_body", "lhs", "rhs", "start_expr", "stop_expr",
              "step_expr", "arguments", "condition", "operands",
              # a copied / newly created scoping node owns a deep copy of
              # its table, and the symbols in it are copies
              "symbol_table", "symbols", "datasymbols"}


def _navigates_fresh(expr, fresh):
    """expr is <fresh>.children[i] / <fresh>.walk(X) / ... (only
    tree-navigation steps from a fresh root)."""
    cur = expr
    steps = 0
    while True:
        if isinstance(cur, ast.Subscript):
            cur = cur.value
        elif isinstance(cur, ast.Call) and isinstance(cur.func,
                                                      ast.Attribute) and \
                cur.func.attr in NAVIGATION:
            cur = cur.func.value
            steps += 1
        elif isinstance(cur, ast.Attribute) and cur.attr in NAVIGATION:
            cur = cur.value
            steps += 1
        else:
            break
    return steps > 0 and isinstance(cur, ast.Name) and cur.id in fresh


def _is_fresh_expr(expr, fresh):
    if isinstance(expr, (ast.Constant, ast.List, ast.Dict, ast.Set,
                         ast.Tuple, ast.ListComp, ast.JoinedStr)):
        return True
    if isinstance(expr, ast.Name):
        return expr.id in fresh
    if _navigates_fresh(expr, fresh):
        return True
    if isinstance(expr, ast.Call):
        func = expr.func
        if isinstance(func, ast.Name):
            # constructor-looking call (CamelCase) or builtin container
            return func.id[:1].isupper() or func.id in (
                "list", "dict", "set", "tuple", "str", "int", "len")
        if isinstance(func, ast.Attribute):
            if func.attr in ("copy", "deep_copy", "shallow_copy"):
                return True
            if func.attr == "create" or func.attr.startswith("create"):
                base = func.value
                return isinstance(base, ast.Name) and base.id[:1].isupper()
            if isinstance(func.value, ast.Name) and \
                    func.attr[:1].isupper():
                return True   # module.Class(...)
    return False


def mutation_kind(stmt_exprs, fresh, skip_self_attrs=True):
    """Classify the expressions evaluated at one CFG node.
    -> list of (kind, text) with kind in tree / symtab / store / apply"""
    out = []
    for expr in stmt_exprs:
        # attribute / subscript stores
        if isinstance(expr, (ast.Assign, ast.AugAssign, ast.AnnAssign,
                             ast.Delete)):
            if isinstance(expr, ast.Assign):
                tgts = expr.targets
            elif isinstance(expr, ast.Delete):
                tgts = expr.targets
            else:
                tgts = [expr.target]
            for tgt in tgts:
                for one in (tgt.elts if isinstance(tgt, ast.Tuple)
                            else [tgt]):
                    _store(one, fresh, out)
        for sub in ast.walk(expr):
            if not isinstance(sub, ast.Call) or \
                    not isinstance(sub.func, ast.Attribute):
                continue
            meth = sub.func.attr
            recv = sub.func.value
            root = root_name(recv)
            if meth == "apply" and root != "super":
                # a nested transformation changes its *argument*; whether
                # the transformation object itself was just constructed
                # says nothing
                if sub.args and root_name(sub.args[0]) in fresh:
                    continue
                if sub.args:
                    out.append(("apply", ast.unparse(sub)))
                continue
            if root in fresh:
                continue
            rtxt = ast.unparse(recv)
            if meth in TREE_MUTATORS:
                if meth == "detach" and "symbol_table" in rtxt:
                    out.append(("symtab", ast.unparse(sub)))
                else:
                    out.append(("tree", ast.unparse(sub)))
            elif meth in LIST_MUTATORS and (
                    rtxt.endswith(".children") or rtxt.endswith("._children")
                    or rtxt.endswith(".args") or
                    rtxt.endswith(".symbols_dict")):
                out.append(("tree", ast.unparse(sub)))
            elif meth == "rename_symbol" and any(
                    k.arg == "dry_run" and isinstance(k.value, ast.Constant)
                    and k.value.value for k in sub.keywords):
                continue
            elif meth in SYMTAB_MUTATORS and (
                    "symbol_table" in rtxt or "symtab" in rtxt.lower() or
                    rtxt.endswith("table") or rtxt in ("sym_tab", "st")):
                out.append(("symtab", ast.unparse(sub)))
            elif meth == "apply" and root != "super":
                out.append(("apply", ast.unparse(sub)))
            elif meth in ("specialise", "copy_properties") and \
                    root not in fresh:
                out.append(("symtab", ast.unparse(sub)))
    return out


def _store(tgt, fresh, out):
    base = tgt
    if isinstance(tgt, ast.Subscript):
        base = tgt.value
        if isinstance(base, ast.Attribute) and base.attr in (
                "children", "_children"):
            if root_name(base) not in fresh:
                out.append(("tree", ast.unparse(tgt) + " = ..."))
            return
        return
    if isinstance(base, ast.Attribute):
        root = root_name(base)
        if root in fresh or root == "self" and \
                isinstance(base.value, ast.Name):
            return
        if base.attr in ATTR_STORES or base.attr.startswith("_") and \
                base.attr[1:] in ATTR_STORES:
            out.append(("store", ast.unparse(tgt) + " = ..."))
