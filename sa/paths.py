"""Decision-table extraction for small pure decision functions.

A function is evaluated along its CFG paths over a *lazy finite context*:
whenever a guard needs a fact that the context has not fixed yet (the kind of
the parent, an operator, a child position ...), the evaluation forks over the
finite domain of that fact.  The result is a complete decision table
[(constraints, outcome)] whose rows partition the context space the function
can distinguish.  Nothing of the repository is imported or executed: the
evaluator understands only the expression forms listed in `Evaluator.eval`
and stops with AnalysisError on anything else.
"""
import ast
from .index import AnalysisError
from .cfg import CFG


class Need(Exception):
    """The evaluation needs the value of context fact `key`."""
    def __init__(self, key, domain):
        super().__init__(key)
        self.key = key
        self.domain = domain


class Raised(Exception):
    """The analysed code raises `name`."""
    def __init__(self, name):
        super().__init__(name)
        self.name = name


class Evaluator:
    """Evaluates expressions of the analysed function.  Sub-classes provide
    `call(name, args, node)`, `attribute(value, attr)` and `isinstance_of`."""

    def __init__(self, ctx):
        self.ctx = ctx
        self.env = {}

    def fact(self, key, domain):
        if key not in self.ctx:
            raise Need(key, domain)
        return self.ctx[key]

    # -- to be overridden ------------------------------------------------
    def call(self, fname, args, node):
        raise AnalysisError(f"unsupported call '{fname}'")

    def attribute(self, value, attr, node):
        raise AnalysisError(f"unsupported attribute '.{attr}'")

    def subscript(self, value, index, node):
        raise AnalysisError("unsupported subscript")

    def isinstance_of(self, value, clsnames):
        raise AnalysisError("unsupported isinstance")

    def name(self, ident):
        raise AnalysisError(f"unknown name '{ident}'")

    # ---------------------------------------------------------------------
    def eval(self, node):
        if isinstance(node, ast.Constant):
            return node.value
        if isinstance(node, ast.Name):
            if node.id in self.env:
                return self.env[node.id]
            return self.name(node.id)
        if isinstance(node, ast.Attribute):
            return self.attribute(self.eval(node.value), node.attr, node)
        if isinstance(node, ast.Subscript):
            return self.subscript(self.eval(node.value),
                                  self.eval(node.slice), node)
        if isinstance(node, ast.Tuple):
            return tuple(self.eval(e) for e in node.elts)
        if isinstance(node, ast.List):
            return [self.eval(e) for e in node.elts]
        if isinstance(node, ast.Call):
            fname = ast.unparse(node.func)
            if fname == "isinstance":
                val = self.eval(node.args[0])
                spec = node.args[1]
                names = [ast.unparse(e) for e in spec.elts] \
                    if isinstance(spec, ast.Tuple) else [ast.unparse(spec)]
                return self.isinstance_of(val, names)
            if fname == "len":
                return len(self.eval(node.args[0]))
            if isinstance(node.func, ast.Attribute) and \
                    node.func.attr in ("lower", "upper") and not node.args:
                val = self.eval(node.func.value)
                if isinstance(val, str):
                    return getattr(val, node.func.attr)()
            args = [self.eval(a) for a in node.args]
            return self.call(fname, args, node)
        if isinstance(node, ast.BoolOp):
            if isinstance(node.op, ast.And):
                res = True
                for val in node.values:
                    res = self.eval(val)
                    if not res:
                        return res
                return res
            res = False
            for val in node.values:
                res = self.eval(val)
                if res:
                    return res
            return res
        if isinstance(node, ast.UnaryOp) and isinstance(node.op, ast.Not):
            return not self.eval(node.operand)
        if isinstance(node, ast.UnaryOp) and isinstance(node.op, ast.USub):
            return -self.eval(node.operand)
        if isinstance(node, ast.BinOp):
            left, right = self.eval(node.left), self.eval(node.right)
            if isinstance(node.op, ast.Add):
                return left + right
            if isinstance(node.op, ast.Sub):
                return left - right
            raise AnalysisError("unsupported binary operator")
        if isinstance(node, ast.Compare):
            left = self.eval(node.left)
            for oper, comp in zip(node.ops, node.comparators):
                right = self.eval(comp)
                if not self.compare(oper, left, right):
                    return False
                left = right
            return True
        if isinstance(node, ast.JoinedStr):
            out = []
            for part in node.values:
                if isinstance(part, ast.Constant):
                    out.append(str(part.value))
                elif isinstance(part, ast.FormattedValue):
                    out.append(self.render(self.eval(part.value)))
            return self.join(out)
        if isinstance(node, ast.IfExp):
            return self.eval(node.body if self.eval(node.test)
                             else node.orelse)
        raise AnalysisError(
            f"expression outside the interpretable subset: "
            f"'{ast.unparse(node)[:60]}'")

    def render(self, value):
        return str(value)

    def join(self, parts):
        return "".join(parts)

    def compare(self, oper, left, right):
        if isinstance(oper, ast.Eq):
            return left == right
        if isinstance(oper, ast.NotEq):
            return left != right
        if isinstance(oper, ast.Is):
            return left is right
        if isinstance(oper, ast.IsNot):
            return left is not right
        if isinstance(oper, ast.Lt):
            return left < right
        if isinstance(oper, ast.LtE):
            return left <= right
        if isinstance(oper, ast.Gt):
            return left > right
        if isinstance(oper, ast.GtE):
            return left >= right
        if isinstance(oper, ast.In):
            return left in right
        if isinstance(oper, ast.NotIn):
            return left not in right
        raise AnalysisError("unsupported comparison")


def run_function(func, evaluator, cfg=None):
    """Follow the one feasible CFG path for the evaluator's context.
    -> ('return', value) | ('raise', name)"""
    cfg = cfg or CFG(func)
    node = cfg.entry
    steps = 0
    handler_stack = []
    while True:
        steps += 1
        if steps > 2000:
            raise AnalysisError(f"{func.name}: evaluation does not end")
        if node is cfg.exit:
            return ("return", None)
        if node is cfg.raise_exit:
            return ("raise", "?")
        stmt = node.ast
        label = None
        try:
            if node.kind == "entry":
                pass
            elif node.kind == "test":
                if isinstance(stmt, ast.If):
                    label = "true" if evaluator.eval(stmt.test) else "false"
                else:
                    raise AnalysisError("loops are outside the decision "
                                        "subset")
            elif node.kind in ("for", "with"):
                raise AnalysisError("loops / with are outside the decision "
                                    "subset")
            elif node.kind == "except":
                pass
            elif node.kind == "stmt":
                if isinstance(stmt, ast.Assign) and len(stmt.targets) == 1 \
                        and isinstance(stmt.targets[0], ast.Name):
                    evaluator.env[stmt.targets[0].id] = \
                        evaluator.eval(stmt.value)
                elif isinstance(stmt, ast.Return):
                    return ("return", evaluator.eval(stmt.value)
                            if stmt.value is not None else None)
                elif isinstance(stmt, ast.Raise):
                    name = ast.unparse(stmt.exc.func) if isinstance(
                        stmt.exc, ast.Call) else ast.unparse(stmt.exc)
                    raise Raised(name)
                elif isinstance(stmt, ast.Expr) and isinstance(
                        stmt.value, ast.Constant):
                    pass
                elif isinstance(stmt, ast.Pass):
                    pass
                else:
                    raise AnalysisError(
                        f"statement outside the decision subset: "
                        f"'{ast.unparse(stmt)[:60]}'")
        except Raised as exc:
            # go to a handler that catches it, else the function raises
            target = None
            for nxt, lab in node.succ:
                if lab == "exc" and nxt.kind == "except":
                    htype = ast.unparse(nxt.ast.type) if nxt.ast.type \
                        else None
                    if htype is None or htype == exc.name or \
                            exc.name in htype:
                        target = nxt
                        break
            if target is None:
                return ("raise", exc.name)
            node = target
            continue
        nxts = [(n, lab) for n, lab in node.succ if lab != "exc"]
        if label is not None:
            nxts = [(n, lab) for n, lab in nxts if lab == label]
        if len(nxts) != 1:
            if not nxts:
                return ("return", None)
            raise AnalysisError(f"{func.name}: ambiguous successor")
        node = nxts[0][0]


def decision_table(func, make_evaluator, base_ctx, limit=5000):
    """-> list of (ctx dict, outcome).  `make_evaluator(ctx)` builds an
    Evaluator over the given (partial) context."""
    cfg = CFG(func)
    rows = []
    todo = [dict(base_ctx)]
    while todo:
        ctx = todo.pop()
        evaluator = make_evaluator(ctx)
        try:
            outcome = run_function(func, evaluator, cfg)
        except Need as need:
            for val in need.domain:
                nctx = dict(ctx)
                nctx[need.key] = val
                todo.append(nctx)
            continue
        rows.append((ctx, outcome))
        if len(rows) > limit:
            raise AnalysisError(f"{func.name}: decision table too large")
    return rows
