"""Statement-level control-flow graph for one Python function.

Nodes are simple statements, branch tests (if/while/for heads, `with`
heads, except clauses) plus ENTRY, EXIT (normal return / fall off the end)
and RAISE (an exception leaves the function).  Edges carry a label:
None, 'true', 'false', 'exc' (exceptional edge into a handler or RAISE).

Exceptional edges: a `raise` statement goes to every enclosing handler that
may match plus onward; *calls* inside a `try` body get an 'exc' edge to each
handler of that try (they may raise).  Outside a try, calls do not get an
edge to RAISE by default - rules that care about "may raise" ask the effect
summaries for the statement instead (see flow.py).
"""
import ast
from .index import AnalysisError


class CNode:
    __slots__ = ("id", "kind", "ast", "succ", "pred", "depth")

    def __init__(self, nid, kind, node=None):
        self.id = nid
        self.kind = kind      # entry exit raise stmt test for with except
        self.ast = node
        self.succ = []        # (CNode, label)
        self.pred = []

    @property
    def lineno(self):
        return getattr(self.ast, "lineno", 0)

    def __repr__(self):
        txt = ""
        if self.ast is not None:
            try:
                txt = ast.unparse(self.ast).splitlines()[0][:50]
            except Exception:  # pragma: no cover
                txt = "?"
        return f"<{self.id}:{self.kind} {txt}>"


class CFG:
    def __init__(self, func):
        self.func = func
        self.nodes = []
        self.entry = self._new("entry")
        self.exit = self._new("exit")
        self.raise_exit = self._new("raise")
        self._loops = []     # (head, after) for break/continue
        self._handlers = []  # stack of lists of except nodes (+ finally)
        end = self._block(func.body, [(self.entry, None)])
        self._connect(end, self.exit)

    # ------------------------------------------------------------------
    def _new(self, kind, node=None):
        cn = CNode(len(self.nodes), kind, node)
        self.nodes.append(cn)
        return cn

    def _connect(self, frontier, target):
        for src, label in frontier:
            if (target, label) not in src.succ:
                src.succ.append((target, label))
                target.pred.append((src, label))

    def _exc_targets(self):
        """Where an exception raised here goes: the handlers of the
        innermost try (all of them, conservatively) - and beyond them if no
        bare/Exception handler exists."""
        targets = []
        for handlers, catches_all in reversed(self._handlers):
            targets.extend(handlers)
            if catches_all:
                return targets
        targets.append(self.raise_exit)
        return targets

    def _block(self, stmts, frontier):
        for stmt in stmts:
            frontier = self._stmt(stmt, frontier)
        return frontier

    def _stmt(self, stmt, frontier):
        if isinstance(stmt, ast.If):
            test = self._new("test", stmt)
            self._connect(frontier, test)
            self._call_exc(test, stmt.test)
            out = self._block(stmt.body, [(test, "true")])
            if stmt.orelse:
                out += self._block(stmt.orelse, [(test, "false")])
            else:
                out.append((test, "false"))
            return out
        if isinstance(stmt, (ast.While, ast.For, ast.AsyncFor)):
            head = self._new("test" if isinstance(stmt, ast.While)
                             else "for", stmt)
            self._connect(frontier, head)
            self._call_exc(head, stmt.test if isinstance(stmt, ast.While)
                           else stmt.iter)
            breaks = []
            self._loops.append((head, breaks))
            body_end = self._block(stmt.body, [(head, "true")])
            self._loops.pop()
            self._connect(body_end, head)
            const_true = isinstance(stmt, ast.While) and \
                isinstance(stmt.test, ast.Constant) and stmt.test.value
            out = []
            if not const_true:
                if stmt.orelse:
                    out = self._block(stmt.orelse, [(head, "false")])
                else:
                    out = [(head, "false")]
            return out + breaks
        if isinstance(stmt, ast.Break):
            node = self._new("stmt", stmt)
            self._connect(frontier, node)
            if not self._loops:
                raise AnalysisError("break outside loop")
            self._loops[-1][1].append((node, None))
            return []
        if isinstance(stmt, ast.Continue):
            node = self._new("stmt", stmt)
            self._connect(frontier, node)
            self._connect([(node, None)], self._loops[-1][0])
            return []
        if isinstance(stmt, ast.Return):
            node = self._new("stmt", stmt)
            self._connect(frontier, node)
            if stmt.value is not None:
                self._call_exc(node, stmt.value)
            self._connect([(node, None)], self.exit)
            return []
        if isinstance(stmt, ast.Raise):
            node = self._new("stmt", stmt)
            self._connect(frontier, node)
            for tgt in self._exc_targets():
                self._connect([(node, "exc")], tgt)
            return []
        if isinstance(stmt, (ast.With, ast.AsyncWith)):
            head = self._new("with", stmt)
            self._connect(frontier, head)
            for item in stmt.items:
                self._call_exc(head, item.context_expr)
            return self._block(stmt.body, [(head, None)])
        if isinstance(stmt, ast.Try) or \
                stmt.__class__.__name__ == "TryStar":
            return self._try(stmt, frontier)
        if isinstance(stmt, ast.Match):
            head = self._new("test", stmt)
            self._connect(frontier, head)
            out = []
            for case in stmt.cases:
                out += self._block(case.body, [(head, "true")])
            out.append((head, "false"))
            return out
        if isinstance(stmt, (ast.FunctionDef, ast.AsyncFunctionDef,
                             ast.ClassDef)):
            node = self._new("stmt", stmt)
            self._connect(frontier, node)
            return [(node, None)]
        # simple statement
        node = self._new("stmt", stmt)
        self._connect(frontier, node)
        self._call_exc(node, stmt)
        if isinstance(stmt, ast.Assert):
            for tgt in self._exc_targets():
                self._connect([(node, "exc")], tgt)
        return [(node, None)]

    def _call_exc(self, node, expr):
        """Inside a try body, anything containing a call / subscript /
        attribute access may jump to the handlers."""
        if not self._handlers or expr is None:
            return
        risky = any(isinstance(n, (ast.Call, ast.Subscript, ast.Attribute))
                    for n in ast.walk(expr))
        if not risky:
            return
        for handlers, catches_all in reversed(self._handlers):
            for hnd in handlers:
                self._connect([(node, "exc")], hnd)
            if catches_all:
                break

    def _try(self, stmt, frontier):
        hnodes = []
        catches_all = False
        for hnd in stmt.handlers:
            hnodes.append(self._new("except", hnd))
            if hnd.type is None or (isinstance(hnd.type, ast.Name) and
                                    hnd.type.id in ("Exception",
                                                    "BaseException")):
                catches_all = True
        fin_entry = None
        if stmt.finalbody:
            # model finally as a handler-like join point that is also
            # reached on the normal path
            fin_entry = self._new("finally", stmt)
        push = list(hnodes)
        if fin_entry is not None and not hnodes:
            push = [fin_entry]
        self._handlers.append((push, catches_all))
        body_end = self._block(stmt.body, frontier)
        self._handlers.pop()
        if stmt.orelse:
            body_end = self._block(stmt.orelse, body_end)
        out = list(body_end)
        for hnode, hnd in zip(hnodes, stmt.handlers):
            out += self._block(hnd.body, [(hnode, None)])
        if fin_entry is not None:
            self._connect(out, fin_entry)
            fin_end = self._block(stmt.finalbody, [(fin_entry, None)])
            # an exception that reached finally propagates afterwards
            if not hnodes:
                for src, label in fin_end:
                    for tgt in self._exc_targets():
                        self._connect([(src, "exc")], tgt)
            return fin_end
        return out

    # ------------------------------------------------------------------
    def reachable(self, start=None, avoid=None, labels_skip=()):
        """Set of nodes reachable from `start` (default entry) without
        passing *through* a node for which avoid(node) is true (the avoided
        node itself is not entered)."""
        start = start or self.entry
        seen = set()
        todo = [start]
        while todo:
            cur = todo.pop()
            if cur.id in seen:
                continue
            seen.add(cur.id)
            for nxt, label in cur.succ:
                if label in labels_skip:
                    continue
                if avoid is not None and avoid(nxt):
                    continue
                todo.append(nxt)
        return seen

    def dominators(self):
        """dom[n.id] = set of node ids dominating n (incl. itself)."""
        ids = [n.id for n in self.nodes]
        reach = self.reachable()
        full = set(reach)
        dom = {i: set(full) for i in ids if i in reach}
        dom[self.entry.id] = {self.entry.id}
        changed = True
        order = [n for n in self.nodes if n.id in reach]
        while changed:
            changed = False
            for node in order:
                if node is self.entry:
                    continue
                preds = [p.id for p, _ in node.pred if p.id in reach]
                if not preds:
                    continue
                new = set.intersection(*(dom[p] for p in preds))
                new = new | {node.id}
                if new != dom[node.id]:
                    dom[node.id] = new
                    changed = True
        return dom

    def paths(self, limit=20000, start=None, stop=None):
        """Enumerate entry->(exit|raise) paths as lists of (node, label-taken)
        visiting each loop head at most twice (body taken 0 or 1 times)."""
        start = start or self.entry
        out = []
        stack = [(start, [], {})]
        while stack:
            node, path, visits = stack.pop()
            if node is self.exit or node is self.raise_exit or \
                    (stop is not None and stop(node)):
                out.append(path + [(node, None)])
                if len(out) > limit:
                    raise AnalysisError(
                        f"{self.func.name}: more than {limit} paths")
                continue
            cnt = visits.get(node.id, 0)
            if cnt >= 2:
                continue
            nvis = dict(visits)
            nvis[node.id] = cnt + 1
            for nxt, label in reversed(node.succ):
                stack.append((nxt, path + [(node, label)], nvis))
        return out

    def stmt_nodes(self):
        return [n for n in self.nodes if n.ast is not None]

    def find(self, pred):
        return [n for n in self.nodes if n.ast is not None and pred(n)]


def header_exprs(cnode):
    """The expressions *evaluated at* a CFG node (for compound statements
    only the header, not the body)."""
    node = cnode.ast
    if node is None:
        return []
    if cnode.kind == "test":
        if isinstance(node, (ast.If, ast.While)):
            return [node.test]
        if isinstance(node, ast.Match):
            return [node.subject]
    if cnode.kind == "for":
        return [node.iter, node.target]
    if cnode.kind == "with":
        out = []
        for item in node.items:
            out.append(item.context_expr)
            if item.optional_vars is not None:
                out.append(item.optional_vars)
        return out
    if cnode.kind == "except":
        return [node.type] if node.type is not None else []
    if cnode.kind == "finally":
        return []
    if isinstance(node, (ast.FunctionDef, ast.AsyncFunctionDef,
                         ast.ClassDef)):
        return []
    return [node]


def calls_at(cnode):
    """ast.Call nodes evaluated at this CFG node, in source order."""
    out = []
    for expr in header_exprs(cnode):
        for sub in ast.walk(expr):
            if isinstance(sub, ast.Call):
                out.append(sub)
    out.sort(key=lambda c: (c.lineno, c.col_offset))
    return out
