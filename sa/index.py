"""Repository index: parses every module of /repo/src/psyclone (tests excluded)
with ``ast`` and offers class / MRO / method / constant resolution.

Nothing from the analysed repository is ever imported or executed.
"""
import ast
import hashlib
import os

REPO = os.environ.get("VERIF_REPO", "/repo")
SRC = os.path.join(REPO, "src")
PKG = "psyclone"


_PARSE_CACHE = {}
_IMPORT_CACHE = {}


class AnalysisError(Exception):
    """The analysis cannot give a verdict (anchor vanished, construct outside
    the interpretable subset, instance count below the frozen floor)."""


class ModuleInfo:
    def __init__(self, name, path, tree, text, is_pkg):
        self.name = name
        self.path = path
        self.tree = tree
        self.text = text
        self.is_pkg = is_pkg
        self._lines = None
        self._ckey = None
        # local name -> dotted target ("psyclone.x.y.Name" or module name)
        self.imports = {}
        self.classes = {}    # name -> ClassInfo
        self.functions = {}  # name -> ast.FunctionDef
        self.assigns = {}    # module-level NAME -> ast value node

    @property
    def lines(self):
        if self._lines is None:
            self._lines = self.text.splitlines()
        return self._lines

    @property
    def relpath(self):
        return os.path.relpath(self.path, REPO)


class ClassInfo:
    def __init__(self, module, node, outer=None):
        self.module = module
        self.node = node
        self.name = node.name
        self.qname = (outer.qname if outer else module.name) + "." + node.name
        self.methods = {}     # name -> FunctionDef (last definition wins)
        self.properties = {}  # name -> FunctionDef (getter)
        self.setters = {}     # name -> FunctionDef
        self.attrs = {}       # class-level NAME -> value node
        self.bases = []       # resolved ClassInfo or None (external)
        self.base_exprs = list(node.bases)
        self._mro = None
        for stmt in node.body:
            if isinstance(stmt, (ast.FunctionDef, ast.AsyncFunctionDef)):
                decos = [_deco_name(d) for d in stmt.decorator_list]
                if "property" in decos:
                    self.properties[stmt.name] = stmt
                    self.methods.setdefault(stmt.name, stmt)
                elif any(d.endswith(".setter") for d in decos):
                    self.setters[stmt.name] = stmt
                else:
                    self.methods[stmt.name] = stmt
            elif isinstance(stmt, ast.Assign):
                for tgt in stmt.targets:
                    if isinstance(tgt, ast.Name):
                        self.attrs[tgt.id] = stmt.value
            elif isinstance(stmt, ast.AnnAssign) and stmt.value is not None:
                if isinstance(stmt.target, ast.Name):
                    self.attrs[stmt.target.id] = stmt.value

    def __repr__(self):
        return f"<Class {self.qname}>"


def _deco_name(node):
    try:
        return ast.unparse(node)
    except Exception:  # pragma: no cover
        return ""


class RepoIndex:
    """Parsed view of the repository."""

    def __init__(self, src=SRC, pkg=PKG, overlay=None):
        """overlay: {repo-relative path: replacement source text} - used by
        the checker self-test to analyse a variant of the tree without
        writing it anywhere."""
        self.src = src
        self.pkg = pkg
        self.overlay = overlay or {}
        self.modules = {}     # dotted name -> ModuleInfo
        self.by_path = {}
        self.classes = {}     # qname -> ClassInfo
        self.by_simple = {}   # simple class name -> [ClassInfo]
        self.subclasses = {}  # qname -> set(qname) direct
        self.digest = None
        self._load()
        self._resolve_bases()

    # ------------------------------------------------------------------
    def _load(self):
        root = os.path.join(self.src, self.pkg)
        if not os.path.isdir(root):
            raise AnalysisError(f"source root {root} not found")
        hasher = hashlib.sha256()
        for dirpath, dirnames, filenames in os.walk(root):
            dirnames[:] = sorted(d for d in dirnames
                                 if d not in ("tests", "__pycache__"))
            for fname in sorted(filenames):
                if not fname.endswith(".py"):
                    continue
                path = os.path.join(dirpath, fname)
                relrepo = os.path.relpath(path, REPO)
                if relrepo in self.overlay:
                    text = self.overlay[relrepo]
                else:
                    with open(path, encoding="utf-8") as fin:
                        text = fin.read()
                hasher.update(path.encode())
                hasher.update(text.encode())
                rel = os.path.relpath(path, self.src)[:-3]
                parts = rel.split(os.sep)
                is_pkg = parts[-1] == "__init__"
                if is_pkg:
                    parts = parts[:-1]
                name = ".".join(parts)
                ckey = (path, hashlib.sha1(text.encode()).hexdigest())
                tree = _PARSE_CACHE.get(ckey)
                if tree is None:
                    try:
                        tree = ast.parse(text, filename=path)
                    except SyntaxError as err:
                        raise AnalysisError(
                            f"{path}: does not parse: {err}")
                    _PARSE_CACHE[ckey] = tree
                mod = ModuleInfo(name, path, tree, text, is_pkg)
                mod._ckey = ckey
                self.modules[name] = mod
                self.by_path[os.path.relpath(path, REPO)] = mod
                self._scan_module(mod)
        self.digest = hasher.hexdigest()

    def _scan_module(self, mod):
        cached = _IMPORT_CACHE.get(mod._ckey)
        if cached is not None:
            mod.imports = dict(cached)
        for stmt in (ast.walk(mod.tree) if cached is None else ()):
            # imports anywhere in the module (function-level imports are
            # common in PSyclone to avoid cycles)
            if isinstance(stmt, ast.Import):
                for alias in stmt.names:
                    local = alias.asname or alias.name.split(".")[0]
                    target = alias.name if alias.asname else \
                        alias.name.split(".")[0]
                    mod.imports.setdefault(local, target)
            elif isinstance(stmt, ast.ImportFrom):
                base = stmt.module or ""
                if stmt.level:
                    pkg_parts = mod.name.split(".")
                    if not mod.is_pkg:
                        pkg_parts = pkg_parts[:-1]
                    if stmt.level > 1:
                        pkg_parts = pkg_parts[:-(stmt.level - 1)]
                    base = ".".join(pkg_parts + ([base] if base else []))
                for alias in stmt.names:
                    if alias.name == "*":
                        continue
                    local = alias.asname or alias.name
                    mod.imports.setdefault(local, base + "." + alias.name)
        _IMPORT_CACHE[mod._ckey] = dict(mod.imports)
        for stmt in mod.tree.body:
            self._scan_toplevel(mod, stmt)

    def _scan_toplevel(self, mod, stmt, outer=None):
        if isinstance(stmt, ast.ClassDef):
            cls = ClassInfo(mod, stmt, outer)
            if outer is None:
                mod.classes[stmt.name] = cls
            self.classes[cls.qname] = cls
            self.by_simple.setdefault(cls.name, []).append(cls)
            for sub in stmt.body:
                if isinstance(sub, ast.ClassDef):
                    self._scan_toplevel(mod, sub, cls)
        elif isinstance(stmt, (ast.FunctionDef, ast.AsyncFunctionDef)):
            mod.functions[stmt.name] = stmt
        elif isinstance(stmt, ast.Assign):
            for tgt in stmt.targets:
                if isinstance(tgt, ast.Name):
                    mod.assigns[tgt.id] = stmt.value
        elif isinstance(stmt, (ast.If, ast.Try)):
            for sub in ast.iter_child_nodes(stmt):
                if isinstance(sub, ast.stmt):
                    self._scan_toplevel(mod, sub, outer)

    # ------------------------------------------------------------------
    def resolve_dotted(self, dotted, _depth=0):
        """Resolve 'psyclone.a.b.Name' to a ClassInfo / FunctionDef /
        ModuleInfo following re-exports. Returns None if external."""
        if _depth > 12:
            return None
        if dotted in self.modules:
            return self.modules[dotted]
        if dotted in self.classes:
            return self.classes[dotted]
        if "." not in dotted:
            return None
        head, _, last = dotted.rpartition(".")
        owner = self.resolve_dotted(head, _depth + 1)
        if isinstance(owner, ModuleInfo):
            if last in owner.classes:
                return owner.classes[last]
            if last in owner.functions:
                return (owner, owner.functions[last])
            if last in owner.imports:
                return self.resolve_dotted(owner.imports[last], _depth + 1)
            sub = owner.name + "." + last
            if sub in self.modules:
                return self.modules[sub]
            if last in owner.assigns:
                return (owner, owner.assigns[last])
        elif isinstance(owner, ClassInfo):
            qn = owner.qname + "." + last
            if qn in self.classes:
                return self.classes[qn]
        return None

    def resolve_name(self, mod, expr):
        """Resolve an expression (Name / Attribute chain) used in module
        `mod` to a repo entity, or None."""
        if isinstance(expr, ast.Name):
            if expr.id in mod.classes:
                return mod.classes[expr.id]
            if expr.id in mod.functions:
                return (mod, mod.functions[expr.id])
            if expr.id in mod.imports:
                return self.resolve_dotted(mod.imports[expr.id])
            return None
        if isinstance(expr, ast.Attribute):
            owner = self.resolve_name(mod, expr.value)
            if isinstance(owner, ModuleInfo):
                return self.resolve_dotted(owner.name + "." + expr.attr)
            if isinstance(owner, ClassInfo):
                return self.classes.get(owner.qname + "." + expr.attr)
        return None

    def _resolve_bases(self):
        for cls in self.classes.values():
            for bexpr in cls.base_exprs:
                res = self.resolve_name(cls.module, bexpr)
                cls.bases.append(res if isinstance(res, ClassInfo) else None)
                if isinstance(res, ClassInfo):
                    self.subclasses.setdefault(res.qname, set()).add(
                        cls.qname)

    # ------------------------------------------------------------------
    def mro(self, cls):
        if cls._mro is not None:
            return cls._mro
        seqs = []
        for base in cls.bases:
            if base is not None:
                seqs.append(list(self.mro(base)))
        seqs.append([b for b in cls.bases if b is not None])
        result = [cls]
        seqs = [s for s in seqs if s]
        while seqs:
            cand = None
            for seq in seqs:
                head = seq[0]
                if not any(head in s[1:] for s in seqs):
                    cand = head
                    break
            if cand is None:
                raise AnalysisError(f"inconsistent MRO for {cls.qname}")
            result.append(cand)
            seqs = [[c for c in s if c is not cand] for s in seqs]
            seqs = [s for s in seqs if s]
        cls._mro = result
        return result

    def is_subclass(self, cls, base):
        """base may be ClassInfo or qname or simple name."""
        for c in self.mro(cls):
            if c is base or c.qname == base or c.name == base:
                return True
        return False

    def all_subclasses(self, base, include_self=True):
        if isinstance(base, str):
            base = self.get_class(base)
        out = []
        for cls in self.classes.values():
            if cls is base and not include_self:
                continue
            if self.is_subclass(cls, base):
                out.append(cls)
        return sorted(out, key=lambda c: c.qname)

    def get_class(self, name):
        """By qualified name, or unique simple name."""
        if name in self.classes:
            return self.classes[name]
        cands = self.by_simple.get(name, [])
        if len(cands) == 1:
            return cands[0]
        if not cands:
            raise AnalysisError(f"anchor class '{name}' not found")
        raise AnalysisError(
            f"class name '{name}' is ambiguous: "
            f"{[c.qname for c in cands]}")

    def find_method(self, cls, name, after=None):
        """MRO lookup. Returns (defining ClassInfo, FunctionDef) or None.
        `after`: start the search after this class in the MRO (super())."""
        mro = self.mro(cls)
        if after is not None:
            idx = mro.index(after)
            mro = mro[idx + 1:]
        for c in mro:
            if name in c.methods:
                return c, c.methods[name]
        return None

    def find_setter(self, cls, name):
        for c in self.mro(cls):
            if name in c.setters:
                return c, c.setters[name]
        return None

    def find_attr(self, cls, name):
        """Class-level attribute value through the MRO."""
        for c in self.mro(cls):
            if name in c.attrs:
                return c, c.attrs[name]
        return None

    def get_method(self, clsname, meth):
        cls = self.get_class(clsname)
        res = self.find_method(cls, meth)
        if res is None:
            raise AnalysisError(
                f"anchor method '{clsname}.{meth}' not found")
        return res

    def own_method(self, clsname, meth):
        cls = self.get_class(clsname)
        if meth not in cls.methods:
            raise AnalysisError(
                f"anchor method '{clsname}.{meth}' not defined in "
                f"{cls.qname}")
        return cls, cls.methods[meth]

    def module(self, relpath_or_name):
        if relpath_or_name in self.by_path:
            return self.by_path[relpath_or_name]
        if relpath_or_name in self.modules:
            return self.modules[relpath_or_name]
        raise AnalysisError(f"anchor module '{relpath_or_name}' not found")

    def functions_iter(self):
        """Yield (module, class-or-None, FunctionDef) for every function."""
        for mod in self.modules.values():
            for fn in mod.functions.values():
                yield mod, None, fn
        for cls in self.classes.values():
            seen = set()
            for table in (cls.methods, cls.setters, cls.properties):
                for fn in table.values():
                    if id(fn) not in seen:
                        seen.add(id(fn))
                        yield cls.module, cls, fn


# ----------------------------------------------------------------------
def loc(mod, node):
    return f"{mod.relpath}:{getattr(node, 'lineno', 0)}"


def norm(node):
    """Normalised statement text (line-number independent)."""
    if isinstance(node, str):
        return " ".join(node.split())
    try:
        txt = ast.unparse(node)
    except Exception:  # pragma: no cover
        txt = ast.dump(node)
    first = txt.strip().splitlines()[0] if txt.strip() else ""
    return " ".join(first.split())


def docstring_types(fn):
    """Sphinx ':type name:' annotations of a function -> {name: text}."""
    doc = ast.get_docstring(fn) or ""
    out = {}
    lines = doc.splitlines()
    i = 0
    while i < len(lines):
        line = lines[i].strip()
        if line.startswith(":type "):
            head, _, rest = line[6:].partition(":")
            text = rest.strip()
            j = i + 1
            while j < len(lines) and lines[j].strip() and \
                    not lines[j].strip().startswith(":"):
                text += " " + lines[j].strip()
                j += 1
            out[head.strip()] = text
            i = j
            continue
        i += 1
    return out


def const_value(idx, mod, node, _depth=0):
    """Evaluate a literal-ish AST node to a Python value (tuples, lists,
    dicts, strings, numbers, names of module-level constants). Class / name
    references are returned as their dotted source text."""
    if _depth > 6:
        raise AnalysisError("constant too deep")
    if isinstance(node, ast.Constant):
        return node.value
    if isinstance(node, (ast.Tuple, ast.List, ast.Set)):
        vals = [const_value(idx, mod, e, _depth + 1) for e in node.elts]
        return tuple(vals) if isinstance(node, ast.Tuple) else vals
    if isinstance(node, ast.Dict):
        return {const_value(idx, mod, k, _depth + 1):
                const_value(idx, mod, v, _depth + 1)
                for k, v in zip(node.keys, node.values)}
    if isinstance(node, ast.Name) and node.id in mod.assigns:
        return const_value(idx, mod, mod.assigns[node.id], _depth + 1)
    if isinstance(node, ast.BinOp) and isinstance(node.op, ast.Add):
        left = const_value(idx, mod, node.left, _depth + 1)
        right = const_value(idx, mod, node.right, _depth + 1)
        if isinstance(left, (tuple, list)) and isinstance(right,
                                                          (tuple, list)):
            return tuple(left) + tuple(right)
        return left + right
    if isinstance(node, ast.Attribute):
        owner = idx.resolve_name(mod, node.value)
        if isinstance(owner, ClassInfo):
            res = idx.find_attr(owner, node.attr)
            if res is not None and isinstance(
                    res[1], (ast.Tuple, ast.List, ast.BinOp, ast.Dict)):
                return const_value(idx, res[0].module, res[1], _depth + 1)
    if isinstance(node, (ast.Name, ast.Attribute)):
        return ast.unparse(node)
    raise AnalysisError(f"not a constant: {ast.unparse(node)[:60]}")
