"""Refusal guards of validation functions and their comparison with the
reviewed snapshot (/verif/tables/guards.json).

For every reachable `raise <...Error>` of a function the *guard* is the
conjunction of the tests of the enclosing `if` statements (with polarity),
after single-assignment local aliases have been expanded.  The snapshot
records, for today's reviewed tree, the guard of every refusal.  A later tree
violates the rule when some refusal became *weaker*: there is a valuation of
the atoms under which the reviewed guard refuses and the current one does
not.  Atoms that only one side knows are free booleans, except comparisons
of the same expression with integer constants, which are compared as
intervals (`len(x) > 1` implies `len(x) > 0`).  Strengthened guards and
re-ordered / De Morgan-rewritten conditions are not reported.
"""
import ast
import itertools
import json
import os
from .index import AnalysisError, loc
from .obligations import const_test

HERE = os.path.dirname(os.path.dirname(os.path.abspath(__file__)))
SNAPSHOT = os.path.join(HERE, "tables", "guards.json")


def _aliases(func):
    """single-assignment locals bound to a side-effect free expression"""
    count = {}
    val = {}
    for st in ast.walk(func):
        if isinstance(st, ast.Assign) and len(st.targets) == 1 and \
                isinstance(st.targets[0], ast.Name):
            name = st.targets[0].id
            count[name] = count.get(name, 0) + 1
            val[name] = st.value
        elif isinstance(st, (ast.AugAssign, ast.For, ast.With)):
            for n in ast.walk(st.target if hasattr(st, "target") else st):
                if isinstance(n, ast.Name) and isinstance(n.ctx, ast.Store):
                    count[n.id] = count.get(n.id, 0) + 2
    out = {}
    for name, cnt in count.items():
        if cnt == 1 and isinstance(val[name], (ast.Attribute, ast.Call,
                                               ast.Compare, ast.BoolOp,
                                               ast.Subscript, ast.UnaryOp)):
            txt = ast.unparse(val[name])
            if len(txt) < 160 and "\n" not in txt:
                out[name] = val[name]
    return out


class _Expand(ast.NodeTransformer):
    def __init__(self, aliases):
        self.aliases = aliases
        self.depth = 0

    def visit_Call(self, node):
        # f((X,)) and f(X) are the same for the type-taking helpers
        # (isinstance, ancestor, walk ...): canonical form without the tuple
        self.generic_visit(node)
        node.args = [a.elts[0] if isinstance(a, ast.Tuple) and
                     len(a.elts) == 1 else a for a in node.args]
        return node

    def visit_Name(self, node):
        if isinstance(node.ctx, ast.Load) and node.id in self.aliases and \
                self.depth < 3:
            self.depth += 1
            new = self.visit(ast.parse(ast.unparse(
                self.aliases[node.id]), mode="eval").body)
            self.depth -= 1
            return new
        return node


def formula(test, aliases):
    """-> nested ('and'|'or'|'not'|'atom', ...) over atom texts"""
    test = _Expand(aliases).visit(ast.parse(ast.unparse(test),
                                            mode="eval").body)

    def conv(node):
        if isinstance(node, ast.BoolOp):
            op = "and" if isinstance(node.op, ast.And) else "or"
            return (op,) + tuple(conv(v) for v in node.values)
        if isinstance(node, ast.UnaryOp) and isinstance(node.op, ast.Not):
            return ("not", conv(node.operand))
        if isinstance(node, ast.Compare) and len(node.ops) == 1:
            op = node.ops[0]
            left = " ".join(ast.unparse(node.left).split())
            right = " ".join(ast.unparse(node.comparators[0]).split())
            neg = {ast.NotEq: "==", ast.NotIn: "in", ast.IsNot: "is"}
            if type(op) in neg:
                return ("not", ("atom", f"{left} {neg[type(op)]} {right}"))
        return ("atom", " ".join(ast.unparse(node).split()))
    return conv(test)


def refusals(func, resolver=None, depth=0, want="raise"):
    """-> list of {"msg", "guard"} for the reachable raises of an error.
    `resolver(name)` gives the FunctionDef of a method of the same class:
    the refusals of directly called helpers are included (one level), so
    moving a check into a helper method does not look like removing it."""
    aliases = _aliases(func)
    out = []

    def helper_calls(st):
        if resolver is None or depth > 0:
            return []
        found = []
        for call in ast.walk(st):
            if isinstance(call, ast.Call) and isinstance(
                    call.func, ast.Attribute) and isinstance(
                        call.func.value, ast.Name) and \
                    call.func.value.id in ("self", "cls") and \
                    call.func.attr not in ("validate", "apply"):
                sub = resolver(call.func.attr)
                if sub is not None and sub is not func:
                    found.append(sub)
        return found

    def msg_of(node):
        for sub in ast.walk(node):
            if isinstance(sub, ast.Constant) and isinstance(sub.value, str) \
                    and len(sub.value.strip()) > 8:
                return " ".join(sub.value.split())[:60]
        return ""

    def exits(block):
        """does every way through `block` leave the enclosing block?"""
        if not block:
            return False
        last = block[-1]
        if isinstance(last, (ast.Return, ast.Continue, ast.Break,
                             ast.Raise)):
            return True
        if isinstance(last, ast.If):
            return exits(last.body) and exits(last.orelse)
        return False

    def walk(stmts, guard):
        guard = list(guard)
        dead = False
        for st in stmts:
            if dead:
                break       # statements after an unconditional exit
            if isinstance(st, (ast.Return, ast.Continue, ast.Break)):
                if isinstance(st, ast.Return) and want != "raise" and \
                        isinstance(st.value, ast.Constant) and \
                        st.value.value is want[1]:
                    out.append({"msg": f"return {want[1]}",
                                "guard": list(guard), "line": st.lineno})
                dead = True
                continue
            if isinstance(st, ast.If):
                ct = const_test(st.test)
                f = formula(st.test, aliases)
                if ct is not False:
                    walk(st.body, guard + [f])
                if ct is not True:
                    walk(st.orelse, guard + [("not", f)])
                # what follows is only reached on the paths that fall
                # through: an early `return` (accept) or `continue` added
                # in front of a check weakens every later refusal
                if ct is None:
                    if exits(st.body) and not exits(st.orelse):
                        guard.append(("not", f))
                    elif exits(st.orelse) and not exits(st.body):
                        guard.append(f)
            elif isinstance(st, ast.For):
                # a check inside a loop is made for the elements the loop
                # visits: the (alias-expanded) iterable is part of the guard
                it = _Expand(aliases).visit(ast.parse(
                    ast.unparse(st.iter), mode="eval").body)
                head = ("atom", f"for {ast.unparse(st.target)} in "
                        + " ".join(ast.unparse(it).split()))
                walk(st.body, guard + [head])
                walk(st.orelse, guard)
            elif isinstance(st, ast.While):
                walk(st.body, guard)
                walk(st.orelse, guard)
            elif isinstance(st, ast.With):
                walk(st.body, guard)
            elif isinstance(st, ast.Try):
                walk(st.body, guard)
                for h in st.handlers:
                    walk(h.body, guard + [("atom", "except " + (
                        ast.unparse(h.type) if h.type else "*"))])
                walk(st.orelse, guard)
                walk(st.finalbody, guard)
            elif isinstance(st, ast.Raise) and st.exc is not None and \
                    "Error" in ast.unparse(st.exc):
                if want == "raise":
                    out.append({"msg": msg_of(st), "guard": list(guard),
                                "line": st.lineno})
                dead = True
            if not isinstance(st, (ast.If, ast.For, ast.While, ast.With,
                                   ast.Try, ast.FunctionDef)):
                for sub in (helper_calls(st) if want == "raise" else []):
                    for ref in refusals(sub, resolver, depth + 1):
                        out.append({"msg": ref["msg"],
                                    "guard": list(guard) + ref["guard"],
                                    "line": st.lineno})
    walk(func.body, [])
    return out


def atoms_of(f, acc=None):
    acc = set() if acc is None else acc
    if f[0] == "atom":
        acc.add(f[1])
    else:
        for sub in f[1:]:
            atoms_of(sub, acc)
    return acc


def evaluate(f, val):
    if f[0] == "atom":
        return val[f[1]]
    if f[0] == "not":
        return not evaluate(f[1], val)
    if f[0] == "and":
        return all(evaluate(s, val) for s in f[1:])
    return any(evaluate(s, val) for s in f[1:])


def _interval(atom):
    """'<expr> <op> <int>' -> (expr, set of small ints satisfying it)"""
    for op in (" >= ", " <= ", " > ", " < ", " == "):
        if op in atom:
            left, right = atom.rsplit(op, 1)
            try:
                num = int(right)
            except ValueError:
                return None
            rng = range(-3, 12)
            test = {" >= ": lambda x: x >= num, " <= ": lambda x: x <= num,
                    " > ": lambda x: x > num, " < ": lambda x: x < num,
                    " == ": lambda x: x == num}[op]
            return left, frozenset(x for x in rng if test(x))
    return None


def _conj(guard):
    return ("and",) + tuple(guard) if guard else ("and",)


def weaker_witness(old_guard, new_guards):
    """valuation under which the reviewed refusal `old_guard` refuses and
    *no* refusal of the current function does (the input is now accepted),
    or None.  Only the current refusals that share atoms with the reviewed
    one (transitively) take part; the others can be avoided independently."""
    old = _conj(old_guard)
    news = [_conj(g) for g in new_guards]
    atoms = set(atoms_of(old))

    def key_of(atom):
        iv = _interval(atom)
        return iv[0] if iv else atom
    keys = {key_of(a) for a in atoms}
    related = [n for n in news if not atoms_of(n)]
    changed = True
    while changed:
        changed = False
        for n in news:
            if n in related:
                continue
            nk = {key_of(a) for a in atoms_of(n)}
            if nk & keys:
                related.append(n)
                keys |= nk
                atoms |= atoms_of(n)
                changed = True
    atoms = sorted(atoms)
    if len(atoms) > 60:
        return None     # not decided
    groups = {}
    for a in atoms:
        iv = _interval(a)
        if iv:
            groups.setdefault(iv[0], []).append((a, iv[1]))
    tied = {a: e for e, lst in groups.items() if len(lst) > 1
            for a, _ in lst}
    sat_of = {a: sat for lst in groups.values() for a, sat in lst}
    # variables: free atoms (bool) and tied expressions (small ints);
    # those of the reviewed guard first
    order = []
    for a in sorted(atoms_of(old)) + atoms:
        var = ("n", tied[a]) if a in tied else ("b", a)
        if var not in order:
            order.append(var)

    def ev3(f, val):
        """three-valued evaluation: True / False / None (unknown)"""
        if f[0] == "atom":
            a = f[1]
            if a in tied:
                num = val.get(("n", tied[a]))
                return None if num is None else num in sat_of[a]
            return val.get(("b", a))
        if f[0] == "not":
            sub = ev3(f[1], val)
            return None if sub is None else not sub
        vals = [ev3(x, val) for x in f[1:]]
        if f[0] == "and":
            if any(v is False for v in vals):
                return False
            return None if any(v is None for v in vals) else True
        if any(v is True for v in vals):
            return True
        return None if any(v is None for v in vals) else False

    budget = [400000]

    def var_of(atom):
        return ("n", tied[atom]) if atom in tied else ("b", atom)

    def pick(val):
        """-> ('ok', None) when every constraint is decided and satisfied,
        ('bad', None) when one is violated, else ('var', v) with an
        unassigned variable of the first undecided constraint"""
        o = ev3(old, val)
        if o is False:
            return "bad", None
        undecided = old if o is None else None
        for n in related:
            r = ev3(n, val)
            if r is True:
                return "bad", None
            if r is None and undecided is None:
                undecided = n
        if undecided is None:
            return "ok", None
        for atom in sorted(atoms_of(undecided)):
            var = var_of(atom)
            if var not in val:
                return "var", var
        return "bad", None

    def search(_k, val):
        budget[0] -= 1
        if budget[0] < 0:
            return None
        state, var = pick(val)
        if state == "bad":
            return None
        if state == "ok":
            return dict(val)
        domain = (False, True) if var[0] == "b" else range(-3, 12)
        for choice in domain:
            val[var] = choice
            got = search(0, val)
            if got is not None:
                return got
        del val[var]
        return None
    wit = search(0, {})
    if wit is None:
        return None
    return {(v[1] if v[0] == "b" else f"{v[1]} = {c}"): c
            for v, c in wit.items() if v[0] == "b" and v[1] in
            atoms_of(old) or v[0] == "n"}


def snapshot_of(idx, specs):
    snap = {}
    for clsname, meth in specs:
        cls = idx.get_class(clsname)
        res = idx.find_method(cls, meth)
        if res is None:
            raise AnalysisError(f"{clsname}.{meth} not found")
        owner = res[0]

        def resolver(name, owner=owner):
            got = idx.find_method(owner, name)
            return got[1] if got else None
        snap[f"{clsname}.{meth}"] = [
            {"msg": r["msg"], "guard": r["guard"]}
            for r in refusals(res[1], resolver)]
    return snap


def _tuplify(f):
    return tuple(_tuplify(x) if isinstance(x, list) else x for x in f)


def check_guards(idx, run, rule, specs):
    """Compare the refusals of the given (Class, method) pairs with the
    reviewed snapshot."""
    if callable(specs):
        specs = specs(idx)
    if not os.path.exists(SNAPSHOT):
        raise AnalysisError("tables/guards.json is missing")
    with open(SNAPSHOT, encoding="utf-8") as fin:
        snap = json.load(fin)
    total = 0
    for clsname, meth in specs:
        key = f"{clsname}.{meth}"
        if key not in snap:
            raise AnalysisError(f"{key} has no reviewed guard snapshot")
        cls = idx.get_class(clsname)
        res = idx.find_method(cls, meth)
        if res is None:
            raise AnalysisError(f"{key} not found")
        owner, func = res
        def resolver(name, owner=owner):
            got = idx.find_method(owner, name)
            return got[1] if got else None
        cur = refusals(func, resolver)
        new_guards = [c["guard"] for c in cur]
        for old in snap[key]:
            total += 1
            old_guard = [_tuplify(g) for g in old["guard"]]
            wit = weaker_witness(old_guard, new_guards)
            line = func.lineno
            for c in cur:
                if c["msg"] == old["msg"] and old["msg"]:
                    line = c["line"]
                    break
            run.check(
                rule, wit is None, key,
                f"what '{old['msg'][:50]}' refused is still refused",
                f"{key}: under { {a: v for a, v in (wit or {}).items()} } "
                f"the reviewed version refused ('{old['msg'][:60]}') and "
                f"the current one raises nothing: a validity check became "
                f"weaker (or an early acceptance was added in front of it)",
                f"{owner.module.relpath}:{line}",
                sample={"rule": rule, "function": key,
                        "refusal": old["msg"][:60], "ok": wit is None})
    run.count("reviewed refusals compared", total)


PRED_SNAPSHOT = os.path.join(HERE, "tables", "predicates.json")


def predicate_snapshot(idx, specs):
    snap = {}
    for clsname, meth, dangerous in specs:
        func = _find_func(idx, clsname, meth)
        snap[f"{clsname}.{meth}"] = {
            "dangerous": dangerous,
            "guards": [r["guard"] for r in refusals(
                func, None, 0, ("return", dangerous))]}
    return snap


def _find_func(idx, clsname, meth):
    if clsname.startswith("module:"):
        mod = idx.module(clsname[7:])
        func = mod.functions.get(meth)
    else:
        cls = idx.get_class(clsname)
        res = idx.find_method(cls, meth)
        func = res[1] if res else None
        if func is None:
            for kls in idx.mro(cls):
                if meth in kls.properties:
                    func = kls.properties[meth]
                    break
    if func is None:
        raise AnalysisError(f"{clsname}.{meth} not found")
    return func


def check_predicates(idx, run, rule, specs):
    """specs: [(Class or 'module:<relpath>', function, dangerous answer)].
    The set of inputs for which the predicate gives its dangerous answer
    (e.g. "independent", "never equal", "no increment") must not grow
    relative to the reviewed snapshot."""
    if not os.path.exists(PRED_SNAPSHOT):
        raise AnalysisError("tables/predicates.json is missing")
    with open(PRED_SNAPSHOT, encoding="utf-8") as fin:
        snap = json.load(fin)
    for clsname, meth, dangerous in specs:
        key = f"{clsname}.{meth}"
        if key not in snap:
            raise AnalysisError(f"{key} has no reviewed predicate snapshot")
        func = _find_func(idx, clsname, meth)
        old_guards = [[_tuplify(g) for g in guard]
                      for guard in snap[key]["guards"]]
        cur = refusals(func, None, 0, ("return", dangerous))
        where = func.lineno
        wit = None
        for c in cur:
            # is there an input for which this return is taken now and no
            # reviewed return of the dangerous answer was?
            got = weaker_witness(c["guard"], old_guards)
            if got is not None:
                wit, where = got, c["line"]
                break
        if clsname.startswith("module:"):
            mod = idx.module(clsname[7:])
        else:
            res = idx.find_method(idx.get_class(clsname), meth)
            mod = res[0].module if res else idx.get_class(clsname).module
        run.check(
            rule, wit is None, key,
            f"answers {dangerous} for no more inputs than reviewed",
            f"{key} now answers {dangerous} under "
            f"{ {a: v for a, v in (wit or {}).items()} }, where the "
            f"reviewed version did not: the analysis became more "
            f"permissive", f"{mod.relpath}:{where}",
            sample={"rule": rule, "predicate": key,
                    "dangerous": dangerous, "ok": wit is None})
