"""Refusal guards of validation functions and their comparison with the
reviewed snapshot (/verif/tables/guards.json).

For every reachable `raise <...Error>` of a function the *guard* is the
conjunction of the tests of the enclosing `if` statements (with polarity),
after single-assignment local aliases have been expanded.  The snapshot
records, for today's reviewed tree, the guard of every refusal.  A later tree
violates the rule when some refusal became *weaker*: there is a valuation of
the atoms under which the reviewed guard refuses and the current one does
not.  Atoms that only one side knows are free booleans, except comparisons
of the same expression with integer constants, which are compared as
intervals (`len(x) > 1` implies `len(x) > 0`).  Strengthened guards and
re-ordered / De Morgan-rewritten conditions are not reported.
"""
import ast
import itertools
import json
import os
from .index import AnalysisError, loc
from .obligations import const_test

HERE = os.path.dirname(os.path.dirname(os.path.abspath(__file__)))
SNAPSHOT = os.path.join(HERE, "tables", "guards.json")


def _aliases(func):
    """single-assignment locals bound to a side-effect free expression"""
    count = {}
    val = {}
    for st in ast.walk(func):
        if isinstance(st, ast.Assign) and len(st.targets) == 1 and \
                isinstance(st.targets[0], ast.Name):
            name = st.targets[0].id
            count[name] = count.get(name, 0) + 1
            val[name] = st.value
        elif isinstance(st, (ast.AugAssign, ast.For, ast.With)):
            for n in ast.walk(st.target if hasattr(st, "target") else st):
                if isinstance(n, ast.Name) and isinstance(n.ctx, ast.Store):
                    count[n.id] = count.get(n.id, 0) + 2
    out = {}
    for name, cnt in count.items():
        if cnt == 1 and isinstance(val[name], (ast.Attribute, ast.Call,
                                               ast.Compare, ast.BoolOp,
                                               ast.Subscript, ast.UnaryOp)):
            txt = ast.unparse(val[name])
            if len(txt) < 160 and "\n" not in txt:
                out[name] = val[name]
    return out


class _Expand(ast.NodeTransformer):
    def __init__(self, aliases):
        self.aliases = aliases
        self.depth = 0

    def visit_Name(self, node):
        if isinstance(node.ctx, ast.Load) and node.id in self.aliases and \
                self.depth < 3:
            self.depth += 1
            new = self.visit(ast.parse(ast.unparse(
                self.aliases[node.id]), mode="eval").body)
            self.depth -= 1
            return new
        return node


def formula(test, aliases):
    """-> nested ('and'|'or'|'not'|'atom', ...) over atom texts"""
    test = _Expand(aliases).visit(ast.parse(ast.unparse(test),
                                            mode="eval").body)

    def conv(node):
        if isinstance(node, ast.BoolOp):
            op = "and" if isinstance(node.op, ast.And) else "or"
            return (op,) + tuple(conv(v) for v in node.values)
        if isinstance(node, ast.UnaryOp) and isinstance(node.op, ast.Not):
            return ("not", conv(node.operand))
        if isinstance(node, ast.Compare) and len(node.ops) == 1:
            op = node.ops[0]
            left = " ".join(ast.unparse(node.left).split())
            right = " ".join(ast.unparse(node.comparators[0]).split())
            neg = {ast.NotEq: "==", ast.NotIn: "in", ast.IsNot: "is"}
            if type(op) in neg:
                return ("not", ("atom", f"{left} {neg[type(op)]} {right}"))
        return ("atom", " ".join(ast.unparse(node).split()))
    return conv(test)


def refusals(func):
    """-> list of {"msg", "guard"} for the reachable raises of an error"""
    aliases = _aliases(func)
    out = []

    def msg_of(node):
        for sub in ast.walk(node):
            if isinstance(sub, ast.Constant) and isinstance(sub.value, str) \
                    and len(sub.value.strip()) > 8:
                return " ".join(sub.value.split())[:60]
        return ""

    def walk(stmts, guard):
        for st in stmts:
            if isinstance(st, ast.If):
                ct = const_test(st.test)
                f = formula(st.test, aliases)
                if ct is not False:
                    walk(st.body, guard + [f])
                if ct is not True:
                    walk(st.orelse, guard + [("not", f)])
            elif isinstance(st, (ast.For, ast.While)):
                walk(st.body, guard)
                walk(st.orelse, guard)
            elif isinstance(st, ast.With):
                walk(st.body, guard)
            elif isinstance(st, ast.Try):
                walk(st.body, guard)
                for h in st.handlers:
                    walk(h.body, guard + [("atom", "except " + (
                        ast.unparse(h.type) if h.type else "*"))])
                walk(st.orelse, guard)
                walk(st.finalbody, guard)
            elif isinstance(st, ast.Raise) and st.exc is not None and \
                    "Error" in ast.unparse(st.exc):
                out.append({"msg": msg_of(st), "guard": list(guard),
                            "line": st.lineno})
    walk(func.body, [])
    return out


def atoms_of(f, acc=None):
    acc = set() if acc is None else acc
    if f[0] == "atom":
        acc.add(f[1])
    else:
        for sub in f[1:]:
            atoms_of(sub, acc)
    return acc


def evaluate(f, val):
    if f[0] == "atom":
        return val[f[1]]
    if f[0] == "not":
        return not evaluate(f[1], val)
    if f[0] == "and":
        return all(evaluate(s, val) for s in f[1:])
    return any(evaluate(s, val) for s in f[1:])


def _interval(atom):
    """'<expr> <op> <int>' -> (expr, set of small ints satisfying it)"""
    for op in (" >= ", " <= ", " > ", " < ", " == "):
        if op in atom:
            left, right = atom.rsplit(op, 1)
            try:
                num = int(right)
            except ValueError:
                return None
            rng = range(-3, 12)
            test = {" >= ": lambda x: x >= num, " <= ": lambda x: x <= num,
                    " > ": lambda x: x > num, " < ": lambda x: x < num,
                    " == ": lambda x: x == num}[op]
            return left, frozenset(x for x in rng if test(x))
    return None


def weaker_witness(old_guard, new_guard):
    """valuation under which the reviewed guard refuses and the current one
    does not, or None"""
    old = ("and",) + tuple(old_guard) if old_guard else ("and",)
    new = ("and",) + tuple(new_guard) if new_guard else ("and",)
    atoms = sorted(atoms_of(old) | atoms_of(new))
    if len(atoms) > 14:
        return None     # too large to enumerate: not decided
    # numeric atoms over the same expression are tied together
    groups = {}
    for a in atoms:
        iv = _interval(a)
        if iv:
            groups.setdefault(iv[0], []).append((a, iv[1]))
    tied = {a for lst in groups.values() if len(lst) > 1 for a, _ in lst}
    free = [a for a in atoms if a not in tied]
    tied_exprs = [e for e, lst in groups.items() if len(lst) > 1]
    for bits in itertools.product([False, True], repeat=len(free)):
        val = dict(zip(free, bits))
        for nums in itertools.product(range(-3, 12),
                                      repeat=len(tied_exprs)):
            for expr, num in zip(tied_exprs, nums):
                for a, sat in groups[expr]:
                    val[a] = num in sat
            if evaluate(old, val) and not evaluate(new, val):
                return {k: v for k, v in val.items()}
    return None


def snapshot_of(idx, specs):
    snap = {}
    for clsname, meth in specs:
        cls = idx.get_class(clsname)
        res = idx.find_method(cls, meth)
        if res is None:
            raise AnalysisError(f"{clsname}.{meth} not found")
        snap[f"{clsname}.{meth}"] = [
            {"msg": r["msg"], "guard": r["guard"]} for r in refusals(res[1])]
    return snap


def _tuplify(f):
    return tuple(_tuplify(x) if isinstance(x, list) else x for x in f)


def check_guards(idx, run, rule, specs):
    """Compare the refusals of the given (Class, method) pairs with the
    reviewed snapshot."""
    if callable(specs):
        specs = specs(idx)
    if not os.path.exists(SNAPSHOT):
        raise AnalysisError("tables/guards.json is missing")
    with open(SNAPSHOT, encoding="utf-8") as fin:
        snap = json.load(fin)
    total = 0
    for clsname, meth in specs:
        key = f"{clsname}.{meth}"
        if key not in snap:
            raise AnalysisError(f"{key} has no reviewed guard snapshot")
        cls = idx.get_class(clsname)
        res = idx.find_method(cls, meth)
        if res is None:
            raise AnalysisError(f"{key} not found")
        owner, func = res
        cur = refusals(func)
        used = set()
        for pos, old in enumerate(snap[key]):
            total += 1
            old_guard = [_tuplify(g) for g in old["guard"]]
            # match by message, then by position
            cands = [k for k, c in enumerate(cur) if k not in used and
                     c["msg"] == old["msg"] and old["msg"]]
            if not cands:
                cands = [k for k, c in enumerate(cur) if k not in used and
                         k == pos]
            if not cands:
                continue    # removed refusals are the floor rule's subject
            k = cands[0]
            used.add(k)
            wit = weaker_witness(old_guard, cur[k]["guard"])
            run.check(
                rule, wit is None, key,
                f"refusal '{old['msg'][:50]}' is not weaker than reviewed",
                f"the condition under which {key} refuses with "
                f"'{old['msg'][:60]}' changed: under "
                f"{ {a: v for a, v in (wit or {}).items()} } the reviewed "
                f"version refused and the current one accepts",
                loc(owner.module, func) if not cur else
                f"{owner.module.relpath}:{cur[k]['line']}",
                sample={"rule": rule, "function": key,
                        "refusal": old["msg"][:60], "ok": wit is None})
    run.count("reviewed refusals compared", total)
