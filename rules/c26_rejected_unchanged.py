"""C26 - a rejected transformation leaves the code unchanged.

For every Transformation subclass:
R2 no-raise-after-commit  on the CFG of `apply`, no statement that can let a
                          TransformationError escape is reachable after the
                          first statement that mutates the caller's tree or
                          symbol tables (the *commit point*).  `self.validate`
                          after a mutation is the special case "validate
                          first".
R3 nested-prevalidated    a nested `X.apply()` after the commit point is only
                          allowed if `X.validate` is reached before the commit
                          point (from the outer validate or apply) or the
                          error is caught.
R4 pure-validate          `validate` (with the helpers it calls on `self`)
                          performs no mutation of non-fresh values.
"""
import ast
from sa.index import AnalysisError, loc, norm
from sa.cfg import CFG, header_exprs, calls_at
from sa.effects import Effects, FuncRef
from sa.mutation import fresh_vars, mutation_kind, root_name

LEVEL = "other"
MANIFEST = {
    "level": "other",
    "text": "For all Transformation subclasses (every apply and validate "
            "method in the tree): CFG reachability shows that no statement "
            "able to let a TransformationError escape (explicit raise, or a "
            "call whose interprocedural may-raise summary contains a "
            "TransformationError subclass and which no enclosing handler "
            "catches) follows the first mutation of the caller's tree or "
            "symbol tables; nested apply() calls after the commit point "
            "must be pre-validated; validate() is mutation-free. This is a "
            "statement about every path of every apply, i.e. about every "
            "node, option combination and refusal point, which tests only "
            "sample.",
    "note": "Mutation vocabulary and value freshness are syntactic "
            "(sa/mutation.py); calls that cannot be resolved to repository "
            "code (PSyIR node methods of unknown receiver type, external "
            "libraries) are assumed not to raise TransformationError and "
            "are counted in the evidence; errors other than "
            "TransformationError are out of scope.",
    "technique": "per-method CFG reachability (commit point vs may-raise) "
                 "with interprocedural may-raise and mutates summaries over "
                 "a resolved call graph",
}

TERR = "TransformationError"

# Helpers whose body contains mutator calls but which do not change what is
# written for the caller's code - each confirmed by reading.
REVIEWED_NON_MUTATING = {
    "get_kernel_schedule":
        "lazy getter: parses the kernel source once and caches the "
        "resulting schedule in _kern_schedule; the schedule it builds is "
        "its own fresh tree",
    "check_for_clashes":
        "only dry-run renames; the one real change is specialising a pair "
        "of unresolved symbols to IntrinsicSymbol, which the writer prints "
        "identically",
    "reference_accesses":
        "read-only access collection",
}


class Ctx:
    def __init__(self, idx):
        self.idx = idx
        self.eff = Effects(idx)
        self._mut_cache = {}
        self._mut_progress = set()

    # ---- interprocedural "mutates" summary ---------------------------
    def func_mutates(self, fref, depth=0):
        key = fref.key
        if key in self._mut_cache:
            return self._mut_cache[key]
        if key in self._mut_progress or depth > 6:
            return []
        self._mut_progress.add(key)
        fresh = fresh_vars(fref.node)
        found = []
        for stmt in ast.walk(fref.node):
            if isinstance(stmt, ast.stmt) and not isinstance(
                    stmt, (ast.FunctionDef, ast.ClassDef, ast.If, ast.For,
                           ast.While, ast.Try, ast.With)):
                for kind, txt in mutation_kind([stmt], fresh):
                    found.append((kind, txt, stmt.lineno))
            elif isinstance(stmt, (ast.If, ast.While)):
                for kind, txt in mutation_kind([stmt.test], fresh):
                    found.append((kind, txt, stmt.lineno))
            elif isinstance(stmt, ast.For):
                for kind, txt in mutation_kind([stmt.iter], fresh):
                    found.append((kind, txt, stmt.lineno))
        if not found:
            for call in [c for c in ast.walk(fref.node)
                         if isinstance(c, ast.Call)]:
                if self._skip_callee(call):
                    continue
                if root_name(call.func) in fresh:
                    continue
                targets, _ = self.eff.resolve(fref, call)
                for tgt in targets:
                    if tgt.node.name in ("__init__", "validate"):
                        continue
                    sub = self.func_mutates(tgt, depth + 1)
                    if sub:
                        found.append(("via", f"{ast.unparse(call.func)} -> "
                                      f"{sub[0][1]}", call.lineno))
                        break
                if found:
                    break
        self._mut_progress.discard(key)
        self._mut_cache[key] = found
        return found

    @staticmethod
    def _skip_callee(call):
        if isinstance(call.func, ast.Attribute) and call.func.attr in (
                "validate", "copy", "walk", "ancestor", "coloured_name",
                "debug_string", "view", "get", "lookup", "lookup_with_tag",
                "format", "join", "lower", "upper"):
            return True
        if isinstance(call.func, ast.Attribute) and \
                call.func.attr in REVIEWED_NON_MUTATING:
            return True
        return False


def try_stacks(func):
    """Map id(stmt) -> list of handler frames (caught class-name lists)
    enclosing the statement inside `func`."""
    out = {}

    def visit(stmts, stack):
        for stmt in stmts:
            out[id(stmt)] = stack
            if isinstance(stmt, ast.Try):
                caught = []
                for hnd in stmt.handlers:
                    if hnd.type is None:
                        caught.append(None)
                    elif isinstance(hnd.type, ast.Tuple):
                        caught += [ast.unparse(e).split(".")[-1]
                                   for e in hnd.type.elts]
                    else:
                        caught.append(ast.unparse(hnd.type).split(".")[-1])
                visit(stmt.body, stack + [caught])
                visit(stmt.orelse, stack)
                for hnd in stmt.handlers:
                    out[id(hnd)] = stack
                    visit(hnd.body, stack)
                visit(stmt.finalbody, stack)
            else:
                for field in ("body", "orelse"):
                    sub = getattr(stmt, field, None)
                    if isinstance(sub, list) and sub and \
                            isinstance(sub[0], ast.stmt):
                        visit(sub, stack)
    visit(func.body, [])
    return out


_PARENTS = {}


def local_fresh(func, cnode, fresh):
    """`fresh` plus the targets of enclosing for-loops that iterate over (a
    navigation of) a private tree: inside such a loop the loop variable is
    private even if the same name is used for another loop elsewhere."""
    from sa.mutation import _navigates_fresh
    key = id(func)
    if key not in _PARENTS:
        par = {}
        for node in ast.walk(func):
            for child in ast.iter_child_nodes(node):
                par[id(child)] = node
        _PARENTS[key] = par
    par = _PARENTS[key]
    extra = set()
    cur = cnode.ast
    while cur is not None and id(cur) in par:
        up = par[id(cur)]
        if isinstance(up, ast.For) and isinstance(up.target, ast.Name) and \
                cur is not up.iter and any(cur is b for b in up.body):
            it = up.iter
            if _navigates_fresh(it, fresh | extra) or (
                    isinstance(it, ast.Name) and it.id in fresh | extra):
                extra.add(up.target.id)
        cur = up
    return fresh | extra if extra else fresh


def node_mutations(ctx, fref, cnode, fresh):
    """Mutations performed when this CFG node executes."""
    exprs = header_exprs(cnode)
    if not exprs:
        return []
    if cnode.ast is not None:
        fresh = local_fresh(fref.node, cnode, fresh)
    muts = [(k, t) for k, t in mutation_kind(exprs, fresh)]
    # calls into helpers that mutate
    for call in calls_at(cnode):
        if ctx._skip_callee(call):
            continue
        if isinstance(call.func, ast.Attribute) and \
                call.func.attr == "apply":
            continue   # already recorded as nested apply
        if root_name(call.func) in fresh and not (
                isinstance(call.func, ast.Attribute) and
                root_name(call.func) == "self"):
            continue
        targets, _ = ctx.eff.resolve(fref, call)
        for tgt in targets:
            if tgt.node.name in ("__init__", "validate"):
                continue
            # only helpers that receive caller-owned values
            sub = ctx.func_mutates(tgt)
            if sub:
                muts.append(("helper", f"{ast.unparse(call.func)}(...) -> "
                             f"{sub[0][1]}"))
                break
    return muts


def node_raises(ctx, fref, cnode, stacks):
    """Ways a TransformationError can escape from this node.
    -> list of text"""
    out = []
    node = cnode.ast
    stack = stacks.get(id(node), [])
    eff = ctx.eff
    if isinstance(node, ast.Raise) and cnode.kind == "stmt":
        name = eff.raised_names(node)
        if name not in ("<reraise>", "?") and eff.exc_is_a(name, TERR) and \
                not eff.handlers_catch(stack, name):
            out.append(f"raise {name}")
        return out
    for call in calls_at(cnode):
        targets, _ = eff.resolve(fref, call)
        if not targets and isinstance(call.func, ast.Attribute) and \
                call.func.attr == "apply" and \
                root_name(call.func) != "super" and \
                not eff.handlers_catch(stack, TERR):
            # a transformation object of statically unknown class: its
            # apply() validates first and may refuse
            out.append(f"{ast.unparse(call.func)}() is a transformation's "
                       f"apply and may raise TransformationError")
            continue
        for tgt in targets:
            hit = [e for e in eff.may_raise(tgt)
                   if eff.exc_is_a(e, TERR) and
                   not eff.handlers_catch(stack, e)]
            if hit:
                out.append(f"{ast.unparse(call.func)}() may raise "
                           f"{sorted(hit)[0]}")
                break
    return out


def nested_apply_class(ctx, fref, call):
    """Class name of the transformation whose apply() is called."""
    recv = call.func.value
    if isinstance(recv, ast.Call):
        return ast.unparse(recv.func).split(".")[-1]
    if isinstance(recv, ast.Name):
        ltypes = ctx.eff.local_types(fref)
        if recv.id in ltypes:
            return ltypes[recv.id].name
        return recv.id
    if isinstance(recv, ast.Attribute):
        return ast.unparse(recv)
    return None


def canon(expr, func, depth=0):
    """Text of an expression with single-assignment locals replaced by
    their definition (so `inner_loop` and `node.loop_body.children[0]`
    compare equal)."""
    if expr is None:
        return "None"
    if depth > 4:
        return ast.unparse(expr)

    class Sub(ast.NodeTransformer):
        def visit_Name(self, node):
            defs = [s for s in ast.walk(func) if isinstance(s, ast.Assign)
                    and len(s.targets) == 1 and
                    isinstance(s.targets[0], ast.Name) and
                    s.targets[0].id == node.id]
            params = {a.arg for a in func.args.args}
            if len(defs) == 1 and node.id not in params and not isinstance(
                    defs[0].value, (ast.Call,)) :
                return ast.parse(canon(defs[0].value, func, depth + 1),
                                 mode="eval").body
            return node
    import copy
    return ast.unparse(Sub().visit(copy.deepcopy(expr)))


def call_signature(call, func):
    """(canonical target, canonical options) of X.apply / X.validate"""
    target = call.args[0] if call.args else None
    opts = call.args[1] if len(call.args) > 1 else None
    for kword in call.keywords:
        if kword.arg == "options":
            opts = kword.value
        if kword.arg == "node":
            target = kword.value
    return canon(target, func), canon(opts, func)


def simple_target(txt):
    """param-rooted navigation only (no calls)"""
    return "(" not in txt


def validate_signatures(ctx, fref, clsname, depth=0):
    """Signatures of the <clsname>.validate calls reachable from `fref`
    (through helpers called on self)."""
    out = []
    if depth > 3 or fref is None:
        return out
    for call in [c for c in ast.walk(fref.node) if isinstance(c, ast.Call)]:
        if isinstance(call.func, ast.Attribute) and \
                call.func.attr == "validate" and \
                nested_apply_class(ctx, fref, call) == clsname:
            out.append(call_signature(call, fref.node))
        if isinstance(call.func, ast.Attribute) and \
                isinstance(call.func.value, ast.Name) and \
                call.func.value.id == "self" and \
                call.func.attr != "validate":
            targets, _ = ctx.eff.resolve(fref, call)
            for tgt in targets[:1]:
                out += validate_signatures(ctx, tgt, clsname, depth + 1)
    return out


def prevalidated(ctx, vref, fref, nested_call, kname):
    """Is the nested `X.apply(T, O)` matched by an `X.validate(T, O)` in
    the outer validate?  Options must agree; targets must agree when both
    are plain navigations from the parameters."""
    want_t, want_o = call_signature(nested_call, fref.node)
    sigs = validate_signatures(ctx, vref, kname)
    for got_t, got_o in sigs:
        if got_o != want_o and not (want_o in ("None", "options") and
                                    got_o in ("None", "options")):
            continue
        if simple_target(want_t) and simple_target(got_t) and \
                want_t != got_t:
            continue
        return True
    return False


def validates_class(ctx, fref, clsname, depth=0):
    """Does `fref` (with self-callees) call <clsname>.validate?"""
    if depth > 3 or fref is None:
        return False
    for call in [c for c in ast.walk(fref.node) if isinstance(c, ast.Call)]:
        if isinstance(call.func, ast.Attribute) and \
                call.func.attr == "validate":
            got = nested_apply_class(ctx, fref, call)
            if got == clsname:
                return True
        if isinstance(call.func, ast.Attribute) and \
                isinstance(call.func.value, ast.Name) and \
                call.func.value.id == "self" and \
                call.func.attr != "validate":
            targets, _ = ctx.eff.resolve(fref, call)
            for tgt in targets[:1]:
                if validates_class(ctx, tgt, clsname, depth + 1):
                    return True
    return False


def analyse_apply(ctx, run, cls, func, discharges):
    idx = ctx.idx
    mod = cls.module
    fref = FuncRef(mod, cls, func)
    cfg = CFG(func)
    fresh = fresh_vars(func)
    stacks = try_stacks(func)
    cons = f"{cls.name}.apply"
    muts = {}
    raises = {}
    for cnode in cfg.stmt_nodes():
        mm = node_mutations(ctx, fref, cnode, fresh)
        if mm:
            muts[cnode.id] = mm
        rr = node_raises(ctx, fref, cnode, stacks)
        if rr:
            raises[cnode.id] = rr
    run.count("apply methods analysed")
    run.count("commit-point candidates", len(muts))
    # a mutating call evaluated as an *argument* of a call that may refuse:
    # `self._directive([node.detach()], collapse)` detaches first
    intra = {}
    for cnode in cfg.stmt_nodes():
        if cnode.id not in muts or cnode.id not in raises:
            continue
        for outer in calls_at(cnode):
            targets, _ = ctx.eff.resolve(fref, outer)
            stack = stacks.get(id(cnode.ast), [])
            refuses = any(
                ctx.eff.exc_is_a(e, TERR) and
                not ctx.eff.handlers_catch(stack, e)
                for t in targets for e in ctx.eff.may_raise(t))
            if not refuses:
                continue
            inner = [c for a in list(outer.args) +
                     [k.value for k in outer.keywords]
                     for c in ast.walk(a) if isinstance(c, ast.Call)]
            inner_muts = [c for c in inner
                          if mutation_kind([ast.Expr(value=c)], fresh)]
            if inner_muts:
                intra[cnode.id] = (outer, inner_muts[0])
    nviol = 0
    reported = set()
    pending = {}
    vres = idx.find_method(cls, "validate")
    vref = FuncRef(vres[0].module, vres[0], vres[1]) if vres else None
    for cid, mlist in muts.items():
        cnode = cfg.nodes[cid]
        after = set()
        for nxt, lab in cnode.succ:
            if lab == "exc":
                continue  # the mutating call itself failed
            after |= cfg.reachable(start=nxt)
        for rid in sorted(after):
            if rid not in raises:
                continue
            rnode = cfg.nodes[rid]
            if rid == cid:
                # same statement in a loop: the nested apply / helper both
                # mutates and may raise; covered when iterations > 1
                pass
            why = raises[rid][0]
            # nested apply after commit: R3 discharge
            nested = [c for c in calls_at(rnode)
                      if isinstance(c.func, ast.Attribute) and
                      c.func.attr == "apply" and
                      root_name(c.func) != "super"]
            rule = "C26.R2"
            if nested:
                rule = "C26.R3"
                kname = nested_apply_class(ctx, fref, nested[0])
                if nested[0].args and \
                        root_name(nested[0].args[0]) in fresh:
                    run.ob("C26.R3", True,
                           {"rule": "C26.R3", "apply": cons,
                            "nested": kname, "discharged": "the nested "
                            "transformation is applied to a node this "
                            "apply() has just constructed to satisfy it"})
                    continue
                if kname and (prevalidated(ctx, vref, fref, nested[0],
                                           kname) or
                              validates_class_before(ctx, fref, cfg, cnode,
                                                     kname)):
                    run.ob("C26.R3", True,
                           {"rule": "C26.R3", "apply": cons,
                            "nested": kname, "discharged": "validate of "
                            "the nested transformation is reached before "
                            "the commit point"})
                    continue
            if revalidation(fref, cfg, cnode, rnode, mlist):
                run.ob("C26.R2", True,
                       {"rule": "C26.R2", "apply": cons,
                        "instance": f"{norm(cnode.ast)[:50]} -> "
                                    f"{norm(rnode.ast)[:50]}",
                        "discharged": "re-validation: the same "
                        "self.validate(node, ...) dominates the commit "
                        "point and only fresh symbols were declared in "
                        "between"})
                continue
            pending.setdefault(rid, []).append((cnode, mlist, rule, why))
    for cid, (outer, inner) in intra.items():
        cnode = cfg.nodes[cid]
        pending.setdefault(cid, []).append(
            (cnode, [("tree", ast.unparse(inner))], "C26.R2",
             f"{ast.unparse(outer.func)}() may raise TransformationError "
             f"after its argument '{ast.unparse(inner)}' was evaluated"))
    for rid, items in pending.items():
        rnode = cfg.nodes[rid]
        refusing = norm(rnode.ast)
        dkey = f"{cons}|{refusing}"
        rule = items[0][2]
        if dkey in discharges:
            run.ob(rule, True, {"rule": rule, "apply": cons,
                                "instance": refusing,
                                "discharged": discharges[dkey]})
            continue
        def in_loop(cn):
            par = _PARENTS.get(id(func), {})
            cur = cn.ast
            while cur is not None and id(cur) in par:
                up = par[id(cur)]
                if isinstance(up, ast.For) and cur is not up.iter:
                    return (f" [for {ast.unparse(up.target)} in "
                            f"{ast.unparse(up.iter)}]")
                cur = up
            return ""
        texts = [norm(c.ast) + in_loop(c) for c, _m, _r, _w in items]
        commits = sorted({t if texts.count(t) == 1 else
                          f"{t} (x{texts.count(t)})" for t in texts})
        detail = f"{refusing} <= after: " + " ;; ".join(commits)
        nviol += 1
        first = min(items, key=lambda it: it[0].lineno)
        cnode, mlist, _r, why = first
        run.check(
            rule, False, cons, detail,
            f"after '{mlist[0][1][:70]}' changed the caller's code "
            f"({mlist[0][0]}; {len(commits)} mutating statement(s) reach "
            f"this point), '{refusing[:70]}' can still refuse: {why}. The "
            f"rejected transformation leaves the PSyIR modified.",
            loc(mod, rnode.ast),
            path=f"{cons}: commit {loc(mod, cnode.ast)} -> refusal "
                 f"{loc(mod, rnode.ast)}")
    if nviol == 0:
        run.ob("C26.R2", True, {"rule": "C26.R2", "apply": cons,
                                "mutating_stmts": len(muts),
                                "may_refuse_stmts": len(raises),
                                "refusal_after_commit": 0})
    return len(muts), len(raises)


def revalidation(fref, cfg, cnode, rnode, mlist):
    """The refusing statement is `super().apply(node, ...)` or
    `self.validate(node, ...)`, an identical `self.validate(node, ...)`
    dominates the commit statement, and the commit statement only declares
    new symbols (which cannot change a validation verdict)."""
    def first_arg_of(node, pred):
        for call in calls_at(node):
            if pred(call) and call.args:
                return ast.unparse(call.args[0])
        return None

    def is_reval(call):
        txt = ast.unparse(call.func)
        return txt in ("super().apply", "self.validate", "super().validate")

    target = first_arg_of(rnode, is_reval)
    if target is None:
        return False
    if not all(kind == "symtab" and (".new_symbol(" in txt or
                                     ".find_or_create" in txt)
               for kind, txt in mlist):
        return False
    dom = cfg.dominators().get(cnode.id, set())
    for nid in dom:
        node = cfg.nodes[nid]
        if node.ast is None or nid == cnode.id:
            continue
        got = first_arg_of(node, lambda c: ast.unparse(c.func) ==
                           "self.validate")
        if got == target:
            return True
    return False


def validates_class_before(ctx, fref, cfg, cnode, kname):
    """X.validate(...) called in apply at a node dominating the commit."""
    dom = cfg.dominators().get(cnode.id, set())
    for nid in dom:
        node = cfg.nodes[nid]
        if node.ast is None:
            continue
        for call in calls_at(node):
            if isinstance(call.func, ast.Attribute) and \
                    call.func.attr == "validate" and \
                    nested_apply_class(ctx, fref, call) == kname:
                return True
    return False


def analyse_validate(ctx, run, cls, func):
    mod = cls.module
    fref = FuncRef(mod, cls, func)
    fresh = fresh_vars(func)
    cons = f"{cls.name}.validate"
    cfg = CFG(func)
    bad = []
    for cnode in cfg.stmt_nodes():
        for kind, txt in node_mutations(ctx, fref, cnode, fresh):
            if kind == "apply":
                # applying a transformation to a private copy is common in
                # validate(): receiver or argument fresh
                call = [c for c in calls_at(cnode)
                        if isinstance(c.func, ast.Attribute) and
                        c.func.attr == "apply"]
                if call and call[0].args and \
                        root_name(call[0].args[0]) in fresh:
                    continue
            bad.append((cnode, kind, txt))
    run.count("validate methods analysed")
    if not bad:
        run.ob("C26.R4", True, {"rule": "C26.R4", "validate": cons,
                                "mutations": 0})
    for cnode, kind, txt in list(bad):
        dkey = f"{cons}|{norm(cnode.ast)}"
        if dkey in VALIDATE_DISCHARGES:
            run.ob("C26.R4", True, {"rule": "C26.R4", "validate": cons,
                                    "instance": norm(cnode.ast),
                                    "discharged": VALIDATE_DISCHARGES[dkey]})
            bad.remove((cnode, kind, txt))
    for cnode, kind, txt in bad:
        run.check(
            "C26.R4", False, cons, norm(cnode.ast),
            f"validate() changes the caller's code ({kind}: {txt[:80]}); "
            f"a refusal after it leaves the PSyIR modified",
            loc(mod, cnode.ast))


# Reviewed instances that are not violations, keyed by
# "<Class>.apply|<commit stmt> -> <refusing stmt>", each with the reason.
DISCHARGES = {
    "CreateNemoPSyTrans.apply|invoke_trans.apply(routine)":
        "CreateNemoInvokeScheduleTrans.validate refuses only a node that is "
        "not a Routine; the loop iterates over psyir.walk(Routine), so no "
        "later iteration can refuse after an earlier one changed the tree",
    "GOMoveIterationBoundariesInsideKernelTrans.apply|"
    "kschedule = node.get_kernel_schedule()":
        "the only TransformationError in get_kernel_schedule's closure is "
        "the RaisePSyIR2GOceanKernTrans constructor rejecting an invalid "
        "metadata name; the name passed is call.ktype.name taken from the "
        "parsed kernel metadata, always a valid Fortran name (other parse "
        "failures surface as GenerationError, outside this property)",
    "OMPTaskwaitTrans.apply|"
    "forward_dep = OMPTaskwaitTrans.get_forward_dependence(taskloop, node)":
        "get_forward_dependence refuses only when its root argument is not "
        "an OMPParallelDirective; apply passes `node`, for which validate() "
        "(dominating) raised already unless isinstance(node, "
        "OMPParallelDirective)",
}

# validate() methods with a reviewed mutation
VALIDATE_DISCHARGES = {
    "CreateNemoPSyTrans.apply|invoke_trans.apply(routine)":
        "CreateNemoInvokeScheduleTrans.validate refuses only a node that is "
        "not a Routine; the loop iterates over psyir.walk(Routine), so no "
        "later iteration can refuse after an earlier one changed the tree",
    "InlineTrans.validate|routine_table.resolve_imports(symbol_target=sym)":
        "lazy resolution of an import in the *callee's* table; declared out "
        "of scope in DESIGN.md (C26 'not decided')",
}


def check(idx, run):
    ctx = Ctx(idx)
    run.explanation = (
        "For each Transformation subclass the CFG of apply() is built; "
        "statements are classified as mutating (syntactic vocabulary of "
        "PSyIR / symbol-table mutators applied to non-fresh receivers, "
        "helper calls with a mutating summary, nested apply) and as "
        "able to refuse (raise of a TransformationError subclass, or a "
        "call whose interprocedural may-raise summary contains one and no "
        "enclosing handler catches it). A refusal reachable after a "
        "mutation is reported with the path. validate() methods must "
        "contain no mutation of non-fresh values.")
    transes = idx.all_subclasses("psyclone.psyGen.Transformation")
    napply = nval = 0
    total_unres = 0
    for cls in transes:
        if "apply" in cls.methods:
            napply += 1
            analyse_apply(ctx, run, cls, cls.methods["apply"], DISCHARGES)
        if "validate" in cls.methods:
            nval += 1
            analyse_validate(ctx, run, cls, cls.methods["validate"])
    run.floor("Transformation subclasses", len(transes), 80)
    run.floor("apply methods", napply, 60)
    run.floor("validate methods", nval, 55)
    for vals in ctx.eff.unresolved.values():
        total_unres += len(vals)
    run.extra["unresolved_calls_assumed_not_to_refuse"] = total_unres
    run.assumptions = [
        "calls not resolvable to repository code are assumed not to raise "
        "TransformationError",
        "a receiver whose every assignment is a constructor / create() / "
        "copy() / literal is private to the function",
        "errors other than TransformationError are out of scope"]
