"""C19 - PSyAD adjoints are the exact transpose of the tangent-linear code
(structural clauses of the transposition only).

For a tangent-linear assignment  A = s0*k0*A + sum_i s_i*k_i*X_i  (s = +/-)
the transpose is  X_i^ = X_i^ + s_i*k_i*A^  for every i, then
A^ = s0*k0*A^  (or A^ = 0 when A does not occur on the right).

R1 sign-flow   AssignmentTrans.apply: the sign of each term is computed by
               walking up through every enclosing subtraction, it reaches the
               statement generated for the term - also for the terms that
               increment A itself (no sign is discarded) -, the active
               variable of the term is replaced by A^, and A^ is zeroed
               exactly when there is no increment term.
R2 reversal    AdjointVisitor: active statements of a schedule are processed
               in reverse order, an active loop runs backwards (start and
               stop exchanged, step negated), both branches of an if are
               transposed and its condition must be passive; loop bounds must
               be passive.
R3 linearity   AssignmentTrans.validate keeps its refusals: every term has
               exactly one active variable, which is a factor of the term
               and not in a denominator.
R4 passive     passive statements are moved in front of the reversed active
               ones; that needs every passive value used by an active
               statement to be the same at the new position (it is not
               checked: known finding C19-b).
The numerical identity <Ax,y> = <x,A*y> itself is not decided.
"""
import ast
from sa.index import AnalysisError, loc
from sa.cfg import CFG
from sa.obligations import check_table, reachable_refusals

LEVEL = "other"
MANIFEST = {
    "level": "other",
    "text": "Def-use and shape rules over the two places that implement the "
            "transposition: the sign of a right-hand-side term must flow "
            "from where it is computed into every adjoint statement built "
            "from that term (a tuple component that is discarded, or a "
            "shortcut that does not test it, loses a minus sign for every "
            "input of that shape), statement order and loop direction must "
            "be reversed, and the linearity refusals must stay reachable. "
            "These hold or fail for all kernels, where the harness tests "
            "sample a few.",
    "note": "Necessary structural conditions of the transpose only. The "
            "inner-product identity for generated code, array-range "
            "arithmetic, and the LFRic-specific harness are not decided. "
            "R4 records that passive code is hoisted without a dependence "
            "check (known finding C19-b, confirmed input).",
    "technique": "def-use of the term sign + statement-order dominance + "
                 "obligation table + consulted-facts inspection + refusal-weakening check against the reviewed guard snapshot",
}
AT = "psyclone.psyad.transformations.assignment_trans.AssignmentTrans"
AV = "psyclone.psyad.adjoint_visitor.AdjointVisitor"


def names_in(node):
    return {n.id for n in ast.walk(node) if isinstance(n, ast.Name)}


def check_sign_flow(idx, run):
    cls = idx.get_class(AT)
    func = cls.methods.get("apply")
    if func is None:
        raise AnalysisError("AssignmentTrans.apply not found")
    mod = cls.module
    cons = "AssignmentTrans.apply"
    # the sign variable: toggled inside the walk towards the Assignment
    walks = [s for s in ast.walk(func) if isinstance(s, ast.While) and
             "Assignment" in ast.unparse(s.test)]
    if len(walks) != 1:
        raise AnalysisError(f"{cons}: the walk from a term up to the "
                            f"assignment was not found")
    walk = walks[0]
    toggles = [s for s in ast.walk(walk) if isinstance(s, ast.If) and
               "Operator.SUB" in ast.unparse(s.test) and
               ".children[1] is" in ast.unparse(s.test)]
    ok = len(toggles) == 1
    sign = None
    if ok:
        assigned = {ast.unparse(a.targets[0]) for a in ast.walk(toggles[0])
                    if isinstance(a, ast.Assign)}
        ok = len(assigned) == 1
        sign = assigned.pop() if ok else None
        vals = sorted(ast.unparse(a.value).split(".")[-1]
                      for a in ast.walk(toggles[0])
                      if isinstance(a, ast.Assign))
        ok = ok and vals == ["ADD", "SUB"]
    run.check("C19.R1", ok, cons,
              "the sign of a term flips at every enclosing subtraction "
              "whose right operand contains it",
              "the walk from a term to the assignment no longer toggles the "
              "term's sign exactly when the term lies in the right operand "
              "of a subtraction: b - (a - c) needs +c", loc(mod, walk))
    if sign is None:
        raise AnalysisError(f"{cons}: sign variable not identified")
    # the walk must continue to the top (no break / early exit)
    run.check("C19.R1", not any(isinstance(s, (ast.Break, ast.Return))
                                for s in ast.walk(walk)), cons,
              "the walk reaches the assignment",
              "the walk towards the assignment can stop early: outer "
              "subtractions would be ignored", loc(mod, walk))
    # uses of the sign
    txt = " ".join(ast.unparse(func).split())
    creates = [c for c in ast.walk(func) if isinstance(c, ast.Call) and
               ast.unparse(c.func) == "BinaryOperation.create" and c.args
               and ast.unparse(c.args[0]) == sign]
    run.check("C19.R1", len(creates) >= 1 and any(
        "active_var" in ast.unparse(c.args[1]) for c in creates), cons,
        "X^ = X^ (sign) term for a term that does not increment A",
        "the contribution of a term to its active variable is no longer "
        "built as X^ <sign> term", loc(mod, func))
    # deferred increments: the container that receives (term, sign)
    appends = [c for c in ast.walk(func) if isinstance(c, ast.Call) and
               isinstance(c.func, ast.Attribute) and c.func.attr == "append"
               and c.args and isinstance(c.args[0], ast.Tuple) and
               sign in names_in(c.args[0])]
    if len(appends) != 1:
        raise AnalysisError(f"{cons}: the list of increment terms was not "
                            f"found")
    cont = ast.unparse(appends[0].func.value)
    pos = [k for k, e in enumerate(appends[0].args[0].elts)
           if sign in names_in(e)][0]
    # every consumption of an element binds the sign to a name that is used
    bad = []
    nuse = 0
    for st in ast.walk(func):
        tgt = None
        body = None
        if isinstance(st, ast.Assign) and isinstance(st.targets[0], ast.Tuple)\
                and cont in ast.unparse(st.value):
            tgt, body = st.targets[0], None
        elif isinstance(st, ast.For) and isinstance(st.target, ast.Tuple) \
                and cont in ast.unparse(st.iter):
            tgt, body = st.target, st
        if tgt is None:
            continue
        nuse += 1
        name = ast.unparse(tgt.elts[pos])
        if name == "_" or name.startswith("_"):
            bad.append(ast.unparse(st).split("\n")[0])
            continue
        scope = body if body is not None else func
        uses = [n for n in ast.walk(scope) if isinstance(n, ast.Name) and
                n.id == name and isinstance(n.ctx, ast.Load) and
                getattr(n, "lineno", 0) >= st.lineno]
        if not uses:
            bad.append(ast.unparse(st).split("\n")[0])
    run.check("C19.R1", nuse >= 1 and not bad, cons,
              "the sign of every increment term is used",
              f"the sign stored with an increment term is discarded in "
              f"{bad}: `a = b - a` is transposed to `b = b + a` without "
              f"`a = -a`, and `a = b - k*a` to `a = k*a`", loc(mod, func))
    # shortcuts (branches that emit nothing for the increment terms) must
    # look at the sign
    for st in ast.walk(func):
        if isinstance(st, ast.If) and cont in ast.unparse(st.test) and \
                all(isinstance(b, ast.Pass) for b in st.body):
            ttxt = " ".join(ast.unparse(st.test).split())
            run.check("C19.R1", f"{cont}[0][{pos}]" in ttxt and "ADD" in
                      ttxt, cons,
                      "nothing is emitted only for A = ... + A",
                      f"the shortcut `{ttxt}` emits no statement for A^ "
                      f"without testing the sign of the term: `a = b - a` "
                      f"needs `a = -a`", loc(mod, st))
    # zeroing only without increments
    zero = [a for a in ast.walk(func) if isinstance(a, ast.Call) and
            ast.unparse(a.func) == "Literal" and a.args and
            isinstance(a.args[0], ast.Constant) and
            str(a.args[0].value) in ("0.0", "0")]
    okz = False
    for st in ast.walk(func):
        if isinstance(st, ast.If) and cont in ast.unparse(st.test):
            last = st
            while last.orelse and len(last.orelse) == 1 and isinstance(
                    last.orelse[0], ast.If):
                last = last.orelse[0]
            if last.orelse and zero and all(
                    any(z is n for n in ast.walk(ast.Module(
                        body=last.orelse, type_ignores=[]))) for z in zero):
                okz = True
    run.check("C19.R1", okz, cons,
              "A^ is zeroed exactly when no term increments A",
              "the zeroing of the left-hand-side adjoint is no longer the "
              "alternative to the increment terms", loc(mod, func))
    run.check("C19.R1", "ref.replace_with(node.lhs.copy())" in txt and
              "new_rhs_term = node.lhs.copy()" in txt, cons,
              "the active variable of a term is replaced by A^",
              "the active variable inside a term is no longer replaced by "
              "the left-hand side", loc(mod, func))
    run.check("C19.R1", "node.detach()" in txt, cons,
              "the tangent-linear statement is removed",
              "the original assignment is kept", loc(mod, func))


def check_reversal(idx, run):
    cls = idx.get_class(AV)
    mod = cls.module
    sched = cls.methods.get("schedule_node")
    loop = cls.methods.get("loop_node")
    ifb = cls.methods.get("ifblock_node")
    if not (sched and loop and ifb):
        raise AnalysisError("AdjointVisitor visitors not found")
    cfg = CFG(sched)
    rev = [n for n in cfg.stmt_nodes() if "active_nodes.reverse()" in
           ast.unparse(n.ast) or "reversed(active_nodes)" in
           ast.unparse(n.ast)]
    visits = [n for n in cfg.stmt_nodes() if "self._visit(child)" in
              ast.unparse(n.ast)]
    dom = cfg.dominators()
    run.check("C19.R2", bool(rev) and bool(visits) and all(
        rev[0].id in dom.get(v.id, set()) for v in visits),
        "AdjointVisitor.schedule_node",
        "active statements are transposed in reverse order",
        "the active statements of a schedule are no longer reversed before "
        "they are transposed", loc(mod, sched))
    ltxt = " ".join(ast.unparse(loop).split())
    run.check("C19.R2", "new_node.stop_expr = start_expr" in ltxt and
              ("new_node.start_expr = new_node.stop_expr.copy()" in ltxt)
              and "new_node.step_expr = negate_expr(" in ltxt,
              "AdjointVisitor.loop_node", "an active loop runs backwards",
              "start / stop are no longer exchanged or the step is no "
              "longer negated", loc(mod, loop))
    run.check("C19.R2", "BinaryOperation.Operator.SUB, "
              "new_node.stop_expr.copy(), offset" in ltxt and "MOD" in
              ast.unparse(loop).upper(), "AdjointVisitor.loop_node",
              "non-unit steps start from the last iteration actually "
              "executed", "the reversed loop with a non-unit step no longer "
              "starts at stop - MOD(stop - start, step)", loc(mod, loop))
    # the start offset may only be skipped for a step of exactly +1 / -1
    offs = [st for st in ast.walk(loop) if isinstance(st, ast.If) and any(
        isinstance(a, ast.Assign) and ast.unparse(a.targets[0]) == "offset"
        for a in ast.walk(st))]
    oku = False
    why = "the unit-step test was not found"
    if offs:
        ttxt = " ".join(ast.unparse(offs[0].test).split())
        why = f"the unit-step test is '{ttxt}'"
        exact = ("in ['1', '-1']" in ttxt or "in ('1', '-1')" in ttxt or
                 "in [1, -1]" in ttxt or "in (1, -1)" in ttxt or
                 "abs(int(" in ttxt and "== 1" in ttxt)
        regex = ".match(" in ttxt or ".search(" in ttxt
        oku = exact and not regex or ".fullmatch(" in ttxt
    run.check("C19.R2", oku, "AdjointVisitor.loop_node",
              "the start offset is skipped only for a step of exactly 1 or "
              "-1",
              f"{why}: a literal step such as 12 that is taken for a unit "
              f"step gives `do i = hi, lo, -12` without the "
              f"hi - MOD(hi - lo, 12) start, so the adjoint visits other "
              f"iterations than the tangent-linear loop", loc(mod, loop))
    # the MOD offset is assembled as text: the subtracted lower bound must
    # be protected when it is an expression
    fstr = [j for j in ast.walk(loop) if isinstance(j, ast.JoinedStr) and
            "mod(" in ast.unparse(j).lower()]
    okp = False
    if fstr:
        ftxt = ast.unparse(fstr[0])
        if "-({lo_str})" in ftxt.replace(" ", ""):
            okp = True
        else:
            okp = any(isinstance(st, ast.If) and "start_expr" in
                      ast.unparse(st.test) and any(
                          isinstance(a, ast.Assign) and
                          ast.unparse(a.targets[0]) == "lo_str" and
                          "(" in ast.unparse(a.value) for a in st.body)
                      for st in ast.walk(loop))
    run.check("C19.R2", okp, "AdjointVisitor.loop_node",
              "a compound lower bound is parenthesised in hi - lo",
              "the lower bound is pasted into 'mod(hi-lo,step)' as text "
              "without parentheses: `do i = m1+1, n, 3` gives "
              "MOD(n - m1 + 1, 3) instead of MOD(n - (m1 + 1), 3)",
              loc(mod, loop))
    # every definition of the start offset is (hi - lo) mod step: the text
    # form handed to the Fortran parser, or the same arithmetic done in Python
    def text_of(expr):
        # the value of a name assigned once in the method, else the expression
        if isinstance(expr, ast.Name):
            defs = [a.value for a in ast.walk(loop) if isinstance(a, ast.Assign)
                    and ast.unparse(a.targets[0]) == expr.id]
            if len(defs) == 1:
                return defs[0]
        return expr

    def mod_form(value):
        """True / False / None(unrecognised) for one definition of offset."""
        if isinstance(value, ast.Constant) and value.value is None:
            return True
        found = None
        todo = [value]
        seen = 0
        while todo and seen < 200:
            cur = todo.pop()
            seen += 1
            for sub in ast.walk(cur):
                if isinstance(sub, ast.Name) and sub is not cur:
                    nxt = text_of(sub)
                    if nxt is not sub:
                        todo.append(nxt)
                if isinstance(sub, ast.JoinedStr) and \
                        "mod(" in ast.unparse(sub).lower():
                    parts = ["{}" if isinstance(v, ast.FormattedValue)
                             else str(v.value) for v in sub.values]
                    shape = "".join(parts).replace(" ", "").lower()
                    found = shape in ("mod({}-{},{})", "mod({}-({}),{})")
                if isinstance(sub, ast.BinOp) and isinstance(sub.op, ast.Mod):
                    left = sub.left
                    for _ in range(6):
                        if isinstance(left, ast.Call) and len(left.args) == 1:
                            left = left.args[0]
                        elif isinstance(left, ast.Name):
                            nxt = text_of(left)
                            if nxt is left:
                                break
                            left = nxt
                        else:
                            break
                    inner = [b for b in ast.walk(left)
                             if isinstance(b, ast.BinOp)]
                    found = isinstance(left, ast.BinOp) and \
                        isinstance(left.op, ast.Sub) and len(inner) == 1
        return found
    odefs = [a for a in ast.walk(loop) if isinstance(a, ast.Assign) and
             ast.unparse(a.targets[0]) == "offset"]
    run.floor("definitions of the reversed loop's start offset",
              len(odefs), 2)
    for odef in odefs:
        verdict = mod_form(odef.value)
        run.check("C19.R2", verdict is True, "AdjointVisitor.loop_node",
                  f"start offset definition "
                  f"#{odefs.index(odef) + 1} is (hi - lo) mod step",
                  f"`{ast.unparse(odef)[:70]}` "
                  f"{'is not' if verdict is False else 'could not be shown to be'}"
                  f" (hi - lo) MOD step: for `do i = 1, 9, 2` the reversed "
                  f"loop must start at 9 - MOD(9 - 1, 2) = 9; an offset "
                  f"computed from the extent hi - lo + 1 starts it at 8 and "
                  f"the adjoint visits 8, 6, 4, 2", loc(mod, odef))
    # a loop that does not execute has an adjoint that does not execute
    zfacts = ("IfBlock.create", "MAX", "trip_count", "zero_trip", "MIN(")
    run.check(
        "C19.R2", any(f in ast.unparse(loop) for f in zfacts),
        "AdjointVisitor.loop_node",
        "a zero-trip loop with a non-unit step stays zero-trip",
        "the reversed loop starts at hi - MOD(hi - lo, step) whatever the "
        "sign of hi - lo: `do i = 3, 2, 2` (no iteration) becomes "
        "`do i = 2 - MOD(2 - 3, 2), 3, -2`, i.e. 3, 3, -2, which executes "
        "once", loc(mod, loop))
    run.check("C19.R2", "self._visit(node.children[3])" in ltxt,
              "AdjointVisitor.loop_node", "the loop body is transposed",
              "the body of an active loop is not transposed", loc(mod, loop))
    run.check("C19.R2", reachable_refusals(loop) >= 4,
              "AdjointVisitor.loop_node", "active bounds / loop variable "
              "refused", f"loop_node has {reachable_refusals(loop)} "
              f"reachable refusals (4 reviewed)", loc(mod, loop))
    itxt = " ".join(ast.unparse(ifb).split())
    run.check("C19.R2", "node_is_active(node.condition" in itxt and
              "self._visit(node.if_body)" in itxt and
              "self._visit(node.else_body)" in itxt,
              "AdjointVisitor.ifblock_node",
              "passive condition, both branches transposed",
              "an if block is no longer transposed branch by branch under "
              "a passive condition", loc(mod, ifb))
    # R4: hoisting of passive code
    stxt = " ".join(ast.unparse(sched).split())
    cut = stxt.find("active_nodes.reverse()")
    part = stxt[:cut] if cut > 0 else stxt
    facts = ("VariablesAccessInfo", "reference_accesses", "is_written",
             "DependencyTools", "get_in_out_parameters")
    run.check(
        "C19.R4", any(f in part for f in facts),
        "AdjointVisitor.schedule_node",
        "passive statements are only moved across active ones when that "
        "keeps the passive values the active statements use",
        "all passive statements of a schedule are placed before the "
        "(reversed) active ones without looking at what they write: for "
        "`k = 1.0; a = k*b; k = 2.0; c = k*a` the adjoint is "
        "`k = 1.0; k = 2.0; a = a + c*k; c = 0.0; b = b + a*k; a = 0.0`, "
        "which uses k = 2.0 where the tangent-linear code used 1.0",
        loc(mod, sched))



GUARDED = [
    ('AssignmentTrans', 'validate'),
    ('AdjointVisitor', 'loop_node'),
    ('AdjointVisitor', 'ifblock_node'),
]


PREDICATES = [
    ('module:src/psyclone/psyad/utils.py', 'node_is_active', False),
]

def check_harness_shapes(idx, run):
    """The test harness declares each kernel argument with the bounds the
    kernel declares: a dimension given as lower:upper is re-created from
    both bounds on every path."""
    mod = idx.module("src/psyclone/psyad/tl2ad.py")
    funcs = [f for f in ast.walk(mod.tree) if isinstance(f, ast.FunctionDef)
             and any(isinstance(c, ast.Attribute) and c.attr == "ArrayBounds"
                     for c in ast.walk(f)) and "new_shape" in ast.unparse(f)]
    if not funcs:
        raise AnalysisError("tl2ad: the code that re-creates the shape of "
                            "the harness arrays was not found")
    count = 0
    for func in funcs:
        for branch in ast.walk(func):
            if not (isinstance(branch, ast.If) and
                    "ArrayBounds" in ast.unparse(branch.test) and
                    "isinstance" in ast.unparse(branch.test)):
                continue
            for call in [c for st in branch.body for c in ast.walk(st)]:
                if not (isinstance(call, ast.Call) and
                        isinstance(call.func, ast.Attribute) and
                        call.func.attr == "append" and
                        ast.unparse(call.func.value) == "new_shape"):
                    continue
                count += 1
                arg = call.args[0] if call.args else None
                pair = isinstance(arg, ast.Call) and \
                    ast.unparse(arg.func).endswith("ArrayBounds") and \
                    len(arg.args) == 2 and \
                    ast.unparse(arg.args[0]) != ast.unparse(arg.args[1])
                run.check("C19.R7", pair, f"tl2ad.{func.name}",
                          "a dimension declared lower:upper keeps both "
                          "bounds in the harness",
                          f"`{ast.unparse(call)[:60]}` declares a harness "
                          f"array from one bound only: a kernel argument "
                          f"a(0:n) is declared a(n) in the harness, one "
                          f"element short, and the generated test fails "
                          f"although the adjoint is right",
                          loc(mod, call))
    run.floor("explicit-bounds dimensions re-created for the harness",
              count, 1)


def check(idx, run):
    run.explanation = __doc__
    check_harness_shapes(idx, run)
    from sa.guards import check_predicates
    check_predicates(idx, run, "C19.R6", PREDICATES)
    from sa.guards import check_guards
    check_guards(idx, run, "C19.R5", GUARDED)
    check_sign_flow(idx, run)
    check_reversal(idx, run)
    check_table(idx, run, "C19.R3", {
        ("AssignmentTrans", "validate"): {
            "raises": 6,
            "contains": [
                ("len(active_vars) > 1", "a term with two active variables "
                 "must be refused"),
                ("if not active_vars", "a term without active variable "
                 "must be refused"),
                ("parent.operator == BinaryOperation.Operator.DIV",
                 "an active variable in a denominator must be refused"),
                ("parent.children[1] is candidate",
                 "the denominator test looks at the right operand"),
                ("self._array_ranges_match(assign, rhs_term)",
                 "array ranges of a bare active term must match the "
                 "left-hand side"),
            ],
        },
        ("AssignmentTrans", "apply"): {
            "consults": [("self.validate(node, options)", "validating the "
                          "tangent-linear form first")],
        }})
    run.assumptions = ["the inner-product identity is not evaluated"]
