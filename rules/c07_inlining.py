"""C07 - inlining a call preserves the caller's behaviour (obligation table
only: InlineTrans.validate keeps its guards on every accepting path and
apply() merges the callee's symbols through SymbolTable.merge before moving
statements).  By-reference binding and evaluation order of arguments are
not decided."""
import ast
from sa.index import AnalysisError, loc
from sa.cfg import CFG, calls_at
from sa.obligations import check_table

LEVEL = "other"
MANIFEST = {
    "level": "other",
    "text": "Obligation table for InlineTrans: the eighteen guards of "
            "validate() (target kind, no Return / CodeBlock / named "
            "arguments, no unknown / static interfaces, clash check against "
            "the call site's table, resolvable non-locals, argument count, "
            "array formals: known type, same rank, no indirect ranges, "
            "unit stride) must be reached on every accepting path, and "
            "apply() must merge the callee table through "
            "SymbolTable.merge (renaming via next_available_name, see C16) "
            "before it moves statements.",
    "note": "R2 shows that the transformation never looks at what the "
            "callee writes, so by-reference binding of a(i) when the callee "
            "changes i and expression arguments whose operands the callee "
            "changes are inlined wrongly (known finding C07-a, two "
            "confirmed inputs). Other run-time behaviour is NOT decided.",
    "technique": "must-pass-through over a reviewed obligation table + "
                 "statement-order rule in apply() + refusal-weakening check against the reviewed guard snapshot",
}
TABLE = {
    ("InlineTrans", "validate"): {
        "raises": 17,
        # an empty routine (or one that returns at once) can always be inlined
        "early_ok": ["not routine.children or "
                     "isinstance(routine.children[0], Return)"],
        "consults": [
            ("super().validate(", "the generic transformation checks"),
            ("self._find_routine(", "locating the called routine"),
            ("routine.walk(Return)", "looking for Return statements"),
            ("routine.walk(CodeBlock)", "refusing code blocks"),
            ("node.argument_names", "refusing named arguments"),
            ("table.check_for_clashes(", "checking that the callee's "
             "symbols can be merged into the call site"),
            ("len(routine_table.argument_list) != len(node.arguments)",
             "comparing the number of arguments"),
        ],
        "per_iteration": [
            ("isinstance(sym.interface, UnknownInterface)",
             "refusing symbols of unknown interface", []),
            (("formal_rank != actual_rank",),
             "comparing the rank of array arguments",
             ["not isinstance(formal_arg.datatype, ArrayType)"]),
        ],
        "contains": [
            ("isinstance(sym.interface, StaticInterface)", "SAVE'd "
             "variables must be refused"),
            ("rge.step != _ONE", "non-unit strides must be refused"),
            ("sym.is_unresolved", "unresolved non-local symbols must be "
             "refused"),
            ("symbols_to_skip=self._symbols_to_skip(routine_table)",
             "the clash check must skip exactly the symbols that apply() "
             "skips when merging"),
        ],
    },
}



GUARDED = [
    ('InlineTrans', 'validate'),
]

def check(idx, run):
    run.explanation = __doc__
    from sa.guards import check_guards
    check_guards(idx, run, "C07.R6", GUARDED)
    check_table(idx, run, "C07.R1", TABLE)
    cls = idx.get_class("InlineTrans")
    app = cls.methods["apply"]
    mod = cls.module
    cfg = CFG(app)
    merges = [n for n in cfg.stmt_nodes() if any(
        ast.unparse(c.func) == "table.merge" for c in calls_at(n))]
    moves = [n for n in cfg.stmt_nodes() if any(
        isinstance(c.func, ast.Attribute) and c.func.attr in (
            "replace_with", "insert", "addchild")
        for c in calls_at(n))]
    dom = cfg.dominators()
    ok = bool(merges) and bool(moves) and all(
        merges[0].id in dom.get(m.id, set()) for m in moves)
    run.check("C07.R1", ok, "InlineTrans.apply",
              "callee symbols merged before statements are moved",
              "apply() no longer merges the callee's symbol table "
              "(SymbolTable.merge) before it inserts the inlined "
              "statements: inlined locals could capture caller variables",
              loc(mod, app))
    mtxt = [ast.unparse(c) for n in merges for c in calls_at(n)
            if ast.unparse(c.func) == "table.merge"]
    run.check("C07.R1", any("symbols_to_skip=self._symbols_to_skip(" in t
                            for t in mtxt), "InlineTrans.apply",
              "merge skips the same symbols as the clash check",
              f"the merge call is {mtxt}", loc(mod, app))
    val = cfg.stmt_nodes()
    vnodes = [n for n in val if any(ast.unparse(c.func) == "self.validate"
                                    for c in calls_at(n))]
    run.check("C07.R1", bool(vnodes) and merges and
              vnodes[0].id in dom.get(merges[0].id, set()),
              "InlineTrans.apply", "validate first",
              "apply() does not validate before merging symbols",
              loc(mod, app))
    # R2: an actual argument is bound when the call is made: the element
    # designated by a(i) and the value of an expression argument are fixed
    # at that point.  Substituting the actual argument text for the dummy is
    # only equivalent when the callee does not modify anything the actual
    # argument's subscripts / operands read.
    val = cls.methods["validate"]
    vtxt = " ".join(ast.unparse(val).split())
    facts = ("VariablesAccessInfo", "reference_accesses", "is_written",
             "DependencyTools", "AccessType", "is_read_only")
    whole = " ".join(ast.unparse(cls.node).split())
    run.check(
        "C07.R2", any(f in whole for f in facts), "InlineTrans.validate",
        "subscripts and operands of the actual arguments are not modified "
        "by the callee",
        "InlineTrans never examines what the called routine writes: "
        "`call sub(a(i), i)` with `sub(x, k): k = k + 1; x = 5.0` is inlined "
        "as `i = i + 1; a(i) = 5.0` (element a(2) instead of a(1)), and "
        "`call sub(a(1) + 1.0, a, n)` with `sub: y(1) = 0.0; y(2) = x` as "
        "`a(1) = 0.0; a(2) = a(1) + 1.0` (the expression is re-evaluated "
        "after a(1) changed)", loc(mod, val))
    # R3: every index expression of the callee goes through the formal ->
    # actual substitution before it becomes part of the caller
    cidx = cls.methods.get("_create_inlined_idx")
    if cidx is None:
        raise AnalysisError("InlineTrans._create_inlined_idx not found")
    param = "local_idx"
    parents = {}
    for node in ast.walk(cidx):
        for child in ast.iter_child_nodes(node):
            parents[child] = node
    nuse = 0
    for node in ast.walk(cidx):
        is_part = isinstance(node, ast.Attribute) and isinstance(
            node.value, ast.Name) and node.value.id == param and \
            node.attr in ("start", "stop", "step")
        is_whole = isinstance(node, ast.Name) and node.id == param and \
            isinstance(node.ctx, ast.Load) and not isinstance(
                parents.get(node), ast.Attribute) and not (
                isinstance(parents.get(node), ast.Call) and
                ast.unparse(parents[node].func) == "isinstance")
        if not (is_part or is_whole):
            continue
        nuse += 1
        cur, ok = node, False
        while cur in parents:
            cur = parents[cur]
            if isinstance(cur, ast.Call) and ast.unparse(cur.func) in (
                    "self._replace_formal_arg", "self._create_inlined_idx"):
                ok = True
                break
        run.check(
            "C07.R3", ok, "InlineTrans._create_inlined_idx",
            f"{ast.unparse(node)} is substituted before it is used",
            f"the callee's index expression '{ast.unparse(node)}' is copied "
            f"into the caller without replacing the formal arguments it "
            f"mentions: `x(::stride)` keeps `stride`, which in the caller is "
            f"a different (or no) variable", loc(mod, node))
    run.floor("uses of the callee's index expression", nuse, 4)
    # R4: the only routines with persistent locals that may be inlined are
    # those whose SAVE'd entities are constants
    for st in ast.walk(val):
        if isinstance(st, ast.If) and "StaticInterface" in \
                ast.unparse(st.test) and any(isinstance(b, ast.Raise)
                                             for b in st.body):
            test = st.test
            atoms = [" ".join(ast.unparse(v).split()) for v in (
                test.values if isinstance(test, ast.BoolOp) and
                isinstance(test.op, ast.And) else [test])]
            extra = [a for a in atoms if "StaticInterface" not in a and
                     a != "not sym.is_constant"]
            run.check(
                "C07.R4", not extra, "InlineTrans.validate",
                "persistent (SAVE) locals are refused unless constant",
                f"a routine with a static local is only refused when also "
                f"{extra}: `integer :: ncalls = 0` (implicitly SAVE'd) "
                f"would be inlined and every call site gets its own counter",
                loc(mod, st))
    # R5: a local of the callee must not take the name of something the
    # call site sees from an outer scope (module variable): merge only
    # resolves clashes within the call site's own table
    guards = []
    for f in ast.walk(app):
        if isinstance(f, ast.For) and "routine_table.symbols" in \
                ast.unparse(f.iter):
            ftxt = " ".join(ast.unparse(f).split())
            if "rename_symbol(" in ftxt and "table.lookup(" in ftxt:
                guards.append(f)
    reach = set(cfg.reachable())
    live = [n for n in cfg.stmt_nodes() if "rename_symbol(" in
            ast.unparse(n.ast) and n.kind == "stmt" and n.id in reach]
    guards = [g for g in guards if any(
        g.lineno <= n.lineno <= g.end_lineno for n in live)]
    merge_line = min((n.lineno for n in merges), default=0)
    run.check(
        "C07.R5", bool(guards) and all(g.lineno < merge_line
                                       for g in guards),
        "InlineTrans.apply",
        "callee locals that would hide an outer-scope variable of the call "
        "site are renamed before the merge",
        "the callee's symbols are merged into the call site's table without "
        "looking at the enclosing scopes: a local `total` of the inlined "
        "routine hides the module variable `total` that the caller's own "
        "statements use (`total = total + a` then updates the new local)",
        loc(mod, app))
    run.assumptions = ["beyond R2 the run-time behaviour of the inlined "
                       "code is not decided"]
