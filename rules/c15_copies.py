"""C15 - copies of PSyIR subtrees are independent (ownership clause).

R1 container-fields  every attribute that a language-level Node subclass
                     initialises with a mutable container is re-created by a
                     copy()/_refine_copy() on its MRO, or is never mutated
                     after construction, or is in the reviewed table.
R2 symbol-fields     the inventory of symbol-bearing fields (discovered from
                     the Sphinx types of stored parameters) is rebound to the
                     copy's table by ScopingNode._refine_copy /
                     Routine._refine_copy / SymbolTable.deep_copy; a new
                     symbol-bearing field without a rebinding is reported.
R3 children-deep     Node._refine_copy replaces the children list by copies
                     and clears the parent link; Node.copy calls it.
"""
import ast
from sa.index import AnalysisError, loc, norm, docstring_types

LEVEL = "other"
MANIFEST = {
    "level": "other",
    "text": "Ownership analysis of copy(): which fields of nodes, symbol "
            "tables and symbols can still alias the original after a copy. "
            "Fields are discovered from constructors and documented "
            "parameter types over the whole class hierarchy, and each must "
            "have a rebinding store on the copy path (or be immutable, or "
            "be reviewed). This is exhaustive over classes and fields, "
            "which the tests (a few trees, a few edits) are not.",
    "note": "Decides aliasing of containers and symbols only. Equality of "
            "copy and original (__eq__), and PSy-layer kernel objects "
            "(Kern, Arguments) are out of scope.",
    "technique": "field discovery + who-mutates scan + MRO-resolved "
                 "rebinding obligations",
}
MUTATORS = ("append", "extend", "insert", "pop", "remove", "clear", "add",
            "update", "discard", "setdefault", "popitem", "sort",
            "reverse")

# attributes initialised with a container but reviewed as harmless
_TASK = ("append-only cache filled while lowering, looked up with "
         "list.index / `in` on loop symbols (first match wins); sharing it "
         "between a directive and its copies only adds duplicates of "
         "entries with the same key. Checked dynamically once: repeated "
         "writes and writes of copies give identical text")
REVIEWED_CONTAINERS = {
    ("PSyLoop", "_valid_loop_types"):
        "set once by the API-specific constructor, read-only afterwards "
        "(assigned, never mutated in place)",
    ("DynamicOMPTaskDirective", "_parent_loop_vars"): _TASK,
    ("DynamicOMPTaskDirective", "_parent_loops"): _TASK,
    ("DynamicOMPTaskDirective", "_proxy_loop_vars"): _TASK,
    ("DynamicOMPTaskDirective", "_child_loop_vars"): _TASK,
}
# classes outside 'programs in the supported subset' (PSy-layer objects)
PSY_LAYER = ("Kern", "CodedKern", "LFRicKern", "GOKern", "BuiltIn",
             "LFRicBuiltIn", "InlinedKern", "PSyLoop", "HaloExchange",
             "GlobalSum", "InvokeSchedule")


def is_mutable_container(node):
    if isinstance(node, (ast.List, ast.Dict, ast.Set, ast.ListComp,
                         ast.DictComp, ast.SetComp)):
        return True
    if isinstance(node, ast.Call) and ast.unparse(node.func) in (
            "list", "dict", "set", "OrderedDict", "defaultdict",
            "collections.OrderedDict"):
        return True
    return False


def mutated_in_place(idx, attr, skip_init_of=None):
    """sites that mutate `<x>.attr` in place anywhere in the repository"""
    hits = []
    for fmod, fcls, fn in idx.functions_iter():
        if fn.name == "__init__":
            continue
        for sub in ast.walk(fn):
            if isinstance(sub, ast.Call) and isinstance(sub.func,
                                                        ast.Attribute) and \
                    sub.func.attr in MUTATORS and \
                    isinstance(sub.func.value, ast.Attribute) and \
                    sub.func.value.attr == attr:
                hits.append((fmod, fcls, fn, sub))
            elif isinstance(sub, (ast.Assign, ast.AugAssign, ast.Delete)):
                tgts = sub.targets if not isinstance(sub, ast.AugAssign) \
                    else [sub.target]
                for tgt in tgts:
                    if isinstance(tgt, ast.Subscript) and \
                            isinstance(tgt.value, ast.Attribute) and \
                            tgt.value.attr == attr:
                        hits.append((fmod, fcls, fn, sub))
    return hits


def recreated_on_copy(idx, cls, attr):
    """Is `attr` assigned by a copy / _refine_copy on the MRO of cls?"""
    for kls in idx.mro(cls):
        for meth in ("_refine_copy", "copy", "__copy__", "__deepcopy__"):
            func = kls.methods.get(meth)
            if func is None:
                continue
            for sub in ast.walk(func):
                if isinstance(sub, ast.Assign):
                    for tgt in sub.targets:
                        if isinstance(tgt, ast.Attribute) and \
                                tgt.attr == attr:
                            # on every path through the method
                            from sa.obligations import skips_consult
                            frag = f".{attr} = "
                            if skips_consult(func, frag) is None:
                                return kls.name + "." + meth
                            return None
    return None


def check_containers(idx, run):
    node = idx.get_class("psyclone.psyir.nodes.node.Node")
    count = 0
    for cls in idx.all_subclasses(node):
        init = cls.methods.get("__init__")
        if init is None:
            continue
        if any(idx.is_subclass(cls, name) for name in PSY_LAYER):
            continue
        for sub in ast.walk(init):
            if not isinstance(sub, ast.Assign):
                continue
            for tgt in sub.targets:
                if not (isinstance(tgt, ast.Attribute) and
                        ast.unparse(tgt.value) == "self" and
                        is_mutable_container(sub.value)):
                    continue
                attr = tgt.attr
                if attr == "children":
                    continue
                count += 1
                how = recreated_on_copy(idx, cls, attr)
                muts = mutated_in_place(idx, attr)
                reviewed = REVIEWED_CONTAINERS.get((cls.name, attr))
                ok = bool(how) or not muts or bool(reviewed)
                first = muts[0] if muts else None
                run.check(
                    "C15.R1", ok, f"{cls.name}.{attr}",
                    "container shared between copy and original",
                    f"{cls.name}.__init__ creates the mutable container "
                    f"'{attr}' but no copy()/_refine_copy() on its MRO "
                    f"re-creates it, so copy.copy() shares one object "
                    f"between the original and the copy; it is mutated in "
                    f"place at "
                    f"{loc(first[0], first[3]) if first else '?'} "
                    f"({norm(first[3]) if first else ''})",
                    loc(cls.module, sub),
                    sample={"rule": "C15.R1", "class": cls.name,
                            "attr": attr, "recreated_by": how,
                            "mutation_sites": len(muts),
                            "reviewed": reviewed})
    run.floor("container attributes of node classes", count, 3)


# ----------------------------------------------------------------------
# symbol-bearing fields and where they are rebound to the copy's table
NODE_SYMBOL_FIELDS = {
    # (class, attribute): (function that must rebind it, store target text)
    ("Reference", "_symbol"): ("ScopingNode._refine_copy", "node.symbol"),
    ("Loop", "_variable"): ("ScopingNode._refine_copy", "node.variable"),
    ("Routine", "_return_symbol"): ("Routine._refine_copy",
                                    "self.return_symbol"),
}


def discover_node_symbol_fields(idx):
    node = idx.get_class("psyclone.psyir.nodes.node.Node")
    found = {}
    for cls in idx.all_subclasses(node):
        if not cls.module.relpath.startswith("src/psyclone/psyir/nodes"):
            continue
        for fn in list(cls.methods.values()) + list(cls.setters.values()):
            types = docstring_types(fn)
            for sub in ast.walk(fn):
                if isinstance(sub, ast.Assign) and isinstance(
                        sub.targets[0], ast.Attribute) and \
                        ast.unparse(sub.targets[0].value) == "self" and \
                        isinstance(sub.value, ast.Name):
                    typ = types.get(sub.value.id, "")
                    if "symbols." in typ and "Symbol" in typ and \
                            "SymbolTable" not in typ:
                        found[(cls.name, sub.targets[0].attr)] = (cls, sub)
    return found


def check_symbol_fields(idx, run):
    found = discover_node_symbol_fields(idx)
    run.floor("symbol-bearing node fields discovered", len(found), 3)
    for key, (cls, stmt) in sorted(found.items()):
        spec = NODE_SYMBOL_FIELDS.get(key)
        if spec is None:
            run.check(
                "C15.R2", False, f"{key[0]}.{key[1]}",
                "new symbol-bearing field",
                f"{key[0]}.{key[1]} holds a Symbol (from the documented "
                f"type of the stored parameter) but is not in the reviewed "
                f"inventory of fields that copy() re-binds to the copy's "
                f"symbol table: a copied scope would keep pointing at the "
                f"original's symbol", loc(cls.module, stmt))
            continue
        owner, meth = spec[0].split(".")
        res = idx.get_class(owner).methods.get(meth)
        ok = False
        if res is not None:
            for sub in ast.walk(res):
                if isinstance(sub, ast.Assign) and \
                        ast.unparse(sub.targets[0]) == spec[1] and \
                        "symbol_table.lookup(" in ast.unparse(sub.value):
                    ok = True
        run.check("C15.R2", ok, f"{key[0]}.{key[1]}",
                  f"rebound in {spec[0]}",
                  f"{spec[0]} no longer re-binds {spec[1]} to the symbol "
                  f"of the same name in the copied table: references "
                  f"inside a copied scope keep pointing at the original's "
                  f"symbols",
                  loc(idx.get_class(owner).module, res) if res else
                  loc(cls.module, stmt))
    # ScopingNode._refine_copy: deep copy of the table, associated to self,
    # walk covers Reference and Loop, rebinding guarded by membership in the
    # *original* table
    scls = idx.get_class("psyclone.psyir.nodes.scoping_node.ScopingNode")
    func = scls.methods.get("_refine_copy")
    if func is None:
        raise AnalysisError("ScopingNode._refine_copy not found")
    txt = ast.unparse(func)
    run.check("C15.R2", "other.symbol_table.deep_copy()" in txt and
              "self._symbol_table._node = self" in txt,
              "ScopingNode._refine_copy", "table deep-copied and attached",
              "the copied scope does not get its own deep copy of the "
              "symbol table attached to itself", loc(scls.module, func))
    walks = [c for c in ast.walk(func) if isinstance(c, ast.Call) and
             ast.unparse(c.func) == "self.walk"]
    ok = bool(walks) and {"Reference", "Loop"} <= {
        ast.unparse(e) for e in getattr(walks[0].args[0], "elts", [])}
    run.check("C15.R2", ok, "ScopingNode._refine_copy",
              "walk covers Reference and Loop",
              "the rebinding walk no longer visits both Reference and Loop "
              "nodes", loc(scls.module, func))
    run.check("C15.R2", "super(ScopingNode, self)._refine_copy(other)" in txt
              or "super()._refine_copy(other)" in txt,
              "ScopingNode._refine_copy", "children copied first",
              "the generic child copying is no longer invoked",
              loc(scls.module, func))
    # deep_copy
    tcls = idx.get_class("psyclone.psyir.symbols.symbol_table.SymbolTable")
    dfunc = tcls.methods.get("deep_copy")
    if dfunc is None:
        raise AnalysisError("SymbolTable.deep_copy not found")
    dtxt = ast.unparse(dfunc)
    needs = {
        "every symbol copied": "new_st.add(symbol.copy())",
        "argument list rebuilt from the new symbols":
            "new_st.specify_argument_list(new_arguments)",
        "tags point at the new symbols":
            "new_st._tags[tag] = new_st.lookup(symbol.name)",
        "imports point at the new container symbols":
            "symbol.interface = ImportInterface(new_container",
        "generic interfaces point at the new routine symbols":
            "symbol.routines = new_routines",
    }
    for what, frag in needs.items():
        run.check("C15.R2", frag in dtxt, "SymbolTable.deep_copy", what,
                  f"deep_copy no longer contains '{frag}': {what}",
                  loc(tcls.module, dfunc))
    run.check("C15.R2", "new_arguments.append(new_st.lookup(name))" in dtxt,
              "SymbolTable.deep_copy", "arguments looked up in the copy",
              "the copied argument list is not built from symbols of the "
              "new table", loc(tcls.module, dfunc))
    # symbols referenced from *inside* symbols (datatypes, precision, shape
    # bounds, initial values): is anything rebinding them?
    rebinds_types = any(frag in dtxt for frag in (
        ".datatype", "precision", "initial_value", "replace_symbols",
        "shape"))
    scopes = ast.unparse(func)
    rebinds_types = rebinds_types or any(frag in scopes for frag in (
        ".datatype", "precision", "initial_value", "replace_symbols"))
    run.check(
        "C15.R2", rebinds_types, "SymbolTable.deep_copy",
        "symbols inside datatypes / initial values rebound",
        "deep_copy copies every symbol with Symbol.copy(), which keeps the "
        "*same* datatype object and initial-value expression: a precision "
        "symbol (real(kind=wp)), array-bound references (dimension(n)), a "
        "derived-type symbol or an initial value still refer to the "
        "original table's symbols. Renaming `n` or `wp` in the original "
        "changes what the copy writes", loc(tcls.module, dfunc))


# how SymbolTable.deep_copy transfers each field that __init__ creates
TABLE_FIELDS = {
    "_symbols": "new_st.add(symbol.copy())",
    "_argument_list": "new_st.specify_argument_list(",
    "_tags": "new_st._tags[tag] =",
    "_default_visibility": ("new_st._default_visibility =",
                            "new_st.default_visibility ="),
    "default_visibility": ("new_st._default_visibility =",
                           "new_st.default_visibility ="),
    # attached to the copied scope by ScopingNode._refine_copy (checked
    # above), a table on its own has no node
    "_node": None,
}
RAW_DICTS = ("symbols_dict", "_symbols", "_tags", "tags_dict")


def raw_name_keys(func):
    """Uses of the name-keyed dictionaries of a symbol table (or a local
    alias) with a key that has not been normalised: the keys are lower-case
    but Symbol.name keeps the case it was created with."""
    aliases = set()
    for stmt in ast.walk(func):
        if isinstance(stmt, ast.Assign) and isinstance(stmt.targets[0],
                                                       ast.Name) and \
                isinstance(stmt.value, ast.Attribute) and \
                stmt.value.attr in RAW_DICTS:
            aliases.add(stmt.targets[0].id)

    def is_dict(node):
        return (isinstance(node, ast.Attribute) and node.attr in RAW_DICTS) \
            or (isinstance(node, ast.Name) and node.id in aliases)

    def normalised(key):
        txt = ast.unparse(key)
        if isinstance(key, ast.Constant):
            return not isinstance(key.value, str) or \
                key.value == key.value.lower()
        return "_normalize(" in txt or ".lower()" in txt or \
            txt.startswith("norm") or txt in ("key", "tag")
    bad = []
    for node in ast.walk(func):
        key = None
        if isinstance(node, ast.Subscript) and is_dict(node.value):
            key = node.slice
        elif isinstance(node, ast.Call) and isinstance(node.func,
                                                       ast.Attribute) and \
                node.func.attr in ("get", "pop") and is_dict(node.func.value) \
                and node.args:
            key = node.args[0]
        elif isinstance(node, ast.Compare) and len(node.ops) == 1 and \
                isinstance(node.ops[0], (ast.In, ast.NotIn)) and \
                is_dict(node.comparators[0]):
            key = node.left
        if key is not None and ".name" in ast.unparse(key) and \
                not normalised(key):
            bad.append(node)
    return bad


def check_table_copy(idx, run):
    """deep_copy transfers every field of the table on every path"""
    from sa.obligations import skips_consult
    tcls = idx.get_class("psyclone.psyir.symbols.symbol_table.SymbolTable")
    init = tcls.methods["__init__"]
    dfunc = tcls.methods["deep_copy"]
    fields = sorted({t.attr for s in ast.walk(init)
                     if isinstance(s, ast.Assign) for t in s.targets
                     if isinstance(t, ast.Attribute) and
                     isinstance(t.value, ast.Name) and t.value.id == "self"})
    run.floor("SymbolTable fields", len(fields), 5)
    for field in fields:
        if field not in TABLE_FIELDS:
            run.check("C15.R2", False, f"SymbolTable.{field}",
                      "field transferred by deep_copy",
                      f"SymbolTable.__init__ creates '{field}' but the "
                      f"reviewed deep_copy does not know it: the copy would "
                      f"silently get the default", loc(tcls.module, init))
            continue
        frag = TABLE_FIELDS[field]
        if frag is None:
            continue
        res = skips_consult(dfunc, frag)
        run.check("C15.R2", res is None, f"SymbolTable.{field}",
                  "field transferred by deep_copy on every path",
                  f"SymbolTable.deep_copy can return without '{frag}' "
                  f"({res}): the copy of the table loses its {field}",
                  loc(tcls.module, dfunc),
                  sample={"rule": "C15.R2", "field": field, "via": frag,
                          "ok": res is None})
    for frag, what in (("symbol.interface = ImportInterface(new_container",
                        "imports re-pointed at the new container symbols"),
                       ("symbol.routines = new_routines",
                        "generic interfaces re-pointed")):
        res = skips_consult(dfunc, frag)
        run.check("C15.R2", res is None, "SymbolTable.deep_copy",
                  f"{what} on every path",
                  f"deep_copy can return without '{frag}' ({res})",
                  loc(tcls.module, dfunc))
    # name-keyed dictionaries used with raw (case-preserving) names on the
    # copy path
    scls = idx.get_class("psyclone.psyir.nodes.scoping_node.ScopingNode")
    funcs = [(scls, scls.methods["_refine_copy"]), (tcls, dfunc)]
    if "shallow_copy" in tcls.methods:
        funcs.append((tcls, tcls.methods["shallow_copy"]))
    for cls, func in funcs:
        bad = raw_name_keys(func)
        run.check("C15.R2", not bad, f"{cls.name}.{func.name}",
                  "symbols found by identity or through the normalising "
                  "lookup",
                  f"{cls.name}.{func.name} indexes the name-keyed "
                  f"dictionary of a symbol table with a raw Symbol.name "
                  f"({ast.unparse(bad[0]) if bad else ''}): the keys are "
                  f"lower-cased, so a symbol spelt with capitals is never "
                  f"found and stays bound to the original's symbol",
                  loc(cls.module, bad[0] if bad else func))
    # every rebinding in ScopingNode._refine_copy is guarded by a test
    # against the original's table
    func = scls.methods["_refine_copy"]
    for stmt in ast.walk(func):
        if isinstance(stmt, ast.If):
            rebinds = [a for a in stmt.body if isinstance(a, ast.Assign) and
                       isinstance(a.targets[0], ast.Attribute) and
                       a.targets[0].attr in ("symbol", "variable",
                                             "_symbol", "_variable") and
                       ".lookup(" in ast.unparse(a.value)]
            if not rebinds:
                continue
            for reb in rebinds:
                call = reb.value
                recv = ast.unparse(call.func.value) if isinstance(
                    call, ast.Call) and isinstance(
                        call.func, ast.Attribute) else "?"
                okr = recv in ("self.symbol_table", "self._symbol_table") \
                    and not [k for k in call.keywords]
                run.check(
                    "C15.R2", okr, "ScopingNode._refine_copy",
                    f"{ast.unparse(reb.targets[0])} is taken from the "
                    f"copied scope's own table",
                    f"the replacement symbol is looked up with "
                    f"'{ast.unparse(call)[:80]}' instead of in the table of "
                    f"the copied scope itself: a nested scope that declares "
                    f"the same name captures the reference (tmp = tmp + "
                    f"tmp_1 is copied as tmp_1 = tmp_1 + tmp_1)",
                    loc(scls.module, reb))
            ttxt = ast.unparse(stmt.test)
            names = {n.id for n in ast.walk(stmt.test)
                     if isinstance(n, ast.Name)}
            # local aliases (orig = other.symbol_table.symbols) count
            expanded = ttxt
            for sub in ast.walk(func):
                if isinstance(sub, ast.Assign) and isinstance(
                        sub.targets[0], ast.Name) and \
                        sub.targets[0].id in names:
                    expanded += " " + ast.unparse(sub.value)
            ok = "other.symbol_table" in expanded or \
                "other._symbol_table" in expanded
            run.check("C15.R2", ok, "ScopingNode._refine_copy",
                      f"rebinding of {ast.unparse(rebinds[0].targets[0])} "
                      f"decided against the original's table",
                      f"the rebinding is guarded by '{ttxt}', which does "
                      f"not consult other.symbol_table directly",
                      loc(scls.module, stmt))


def check_children_deep(idx, run):
    ncls = idx.get_class("psyclone.psyir.nodes.node.Node")
    mod = ncls.module
    ref = ncls.methods.get("_refine_copy")
    cpy = ncls.methods.get("copy")
    if not (ref and cpy):
        raise AnalysisError("Node.copy / _refine_copy not found")
    rtxt = ast.unparse(ref)
    run.check("C15.R3", "self._parent = None" in rtxt, "Node._refine_copy",
              "copy is detached", "the copy keeps the parent link of the "
              "original", loc(mod, ref))
    run.check("C15.R3", "self._children = ChildrenList(" in rtxt and
              "child.copy() for child in other.children" in rtxt,
              "Node._refine_copy", "children are copied recursively into a "
              "fresh list",
              "the copy shares the children list or the child nodes with "
              "the original", loc(mod, ref))
    run.check("C15.R3", "other.annotations[:]" in rtxt or
              "list(other.annotations)" in rtxt, "Node._refine_copy",
              "annotations list copied",
              "the annotations list is shared with the original",
              loc(mod, ref))
    ctxt = ast.unparse(cpy)
    run.check("C15.R3", "copy.copy(self)" in ctxt and
              "._refine_copy(self)" in ctxt, "Node.copy",
              "shallow copy then refine",
              "Node.copy no longer performs copy.copy followed by "
              "_refine_copy", loc(mod, cpy))
    # every _refine_copy override chains to super
    node = ncls
    for cls in idx.all_subclasses(node, include_self=False):
        func = cls.methods.get("_refine_copy")
        if func is None:
            continue
        txt = ast.unparse(func)
        ok = "._refine_copy(other)" in txt and "super(" in txt
        run.check("C15.R3", ok, f"{cls.name}._refine_copy",
                  "chains to the base implementation",
                  f"{cls.name}._refine_copy does not call the base "
                  f"_refine_copy: children / parent link are not refined",
                  loc(cls.module, func))


def check(idx, run):
    run.explanation = __doc__
    check_containers(idx, run)
    check_symbol_fields(idx, run)
    check_table_copy(idx, run)
    check_children_deep(idx, run)
    run.assumptions = ["copy.copy semantics (shallow attribute copy)",
                       "PSy-layer kernel objects are out of scope"]
