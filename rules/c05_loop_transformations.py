"""C05 - accepted loop transformations preserve serial semantics
(obligation table only: validation still consults the analyses it is
documented to consult, on every accepting path, and the only bypass is the
documented `force` option).  Whether those analyses are *sufficient* is not
decided."""
import ast
from sa.index import AnalysisError, loc
from sa.obligations import check_table

LEVEL = "other"
MANIFEST = {
    "level": "other",
    "text": "Obligation table for the eight loop transformations: each "
            "validate() must reach its dependence / shape helpers on every "
            "accepting path (path-sensitive CFG search, loops per element "
            "with a frozen list of reviewed skip conditions), keep its "
            "refusals, chain to the base-class validation, and only the "
            "documented `force` option may bypass the dependence checks. "
            "This decides that the guards are still executed for every "
            "target, not that they are sufficient.",
    "note": "Sufficiency of the guards (no dependence-distance test in "
            "fusion, no direction-vector test in interchange) and the "
            "behaviour of the transformed Fortran are NOT decided.",
    "technique": "must-pass-through (path-sensitive CFG reachability) over "
                 "a reviewed obligation table",
}
SUPER = ("super().validate(", "super(LoopTiling2DTrans, self).validate(")
TABLE = {
    ("LoopTrans", "validate"): {
        "raises": 5,
        "consults": [("node.walk(", "checking the loop body for excluded "
                      "node types", ("node-type-check:false",))],
    },
    ("LoopFuseTrans", "validate"): {
        "raises": 6,
        "consults": [
            ("super().validate(node1", "validating the first loop"),
            ("super().validate(node2", "validating the second loop"),
            (".sameParent(", "checking that both loops have the same "
             "parent"),
            (("SymbolicMaths.equal(", ".iteration_space != "),
             "comparing the iteration spaces of the two loops"),
            ("abs(node1.position - node2.position)", "checking adjacency"),
            ("self._validate_written_", "checking the variables written "
             "in the loops", ("force",)),
        ],
        "per_iteration": [
            ("self._validate_written_",
             "checking a variable written in one of the loops",
             ["var_name == loop_var1.name",
              "var_info1.is_read_only() and var_info2.is_read_only()"],
             ("force",)),
        ],
    },
    ("LFRicLoopFuseTrans", "validate"): {
        "raises": 9,
        "consults": [
            ("super().validate(node1, node2", "the generic fusion checks"),
            ("check_intergrid(node1)", "refusing inter-grid kernels (first "
             "loop)"),
            ("check_intergrid(node2)", "refusing inter-grid kernels (second "
             "loop)"),
            ("node1.upper_bound_name != node2.upper_bound_name",
             "comparing the upper bounds"),
            ("node1.upper_bound_halo_depth != node2.upper_bound_halo_depth",
             "comparing the halo depths"),
            # every kernel of a (possibly already fused) loop counts
            ("node1.args_filter(", "collecting the reductions of all "
             "kernels in the first loop"),
            ("node2.args_filter(", "collecting the reductions / arguments "
             "of all kernels in the second loop"),
        ],
        "contains": [
            ("get_valid_reduction_modes()", "all reduction modes count"),
        ],
    },
    ("GOceanLoopFuseTrans", "validate"): {
        "raises": 2,
        "consults": [
            (("super(GOceanLoopFuseTrans, self).validate(node1, node2",
              "super().validate(node1, node2"), "the generic fusion checks"),
            ("node1.field_space != node2.field_space", "comparing the "
             "grid-point types"),
        ],
    },
    ("LoopFuseTrans", "_validate_written_scalar"): {"raises": 1},
    ("LoopFuseTrans", "_validate_written_array"): {"raises": 2},
    ("LoopSwapTrans", "validate"): {
        "raises": 8,
        "consults": [("super().validate(", "the generic loop validation"),
                     ("node.walk(", "looking for impure calls / nested "
                      "loops"),
                     ("outer_sched.symbol_table.is_empty()", "checking for "
                      "symbols declared in the outer loop body"),
                     ("inner_sched.symbol_table.is_empty()", "checking for "
                      "symbols declared in the inner loop body")],
    },
    ("ChunkLoopTrans", "validate"): {
        "raises": 10,
        "consults": [("super().validate(", "the generic loop validation"),
                     ("node.loop_body.walk(", "scanning the loop body"),
                     (".is_written()", "checking that the loop bounds are "
                      "not written inside the loop")],
    },
    ("LoopTiling2DTrans", "validate"): {
        "raises": 3,
        "consults": [(SUPER, "the generic loop validation"),
                     ("LoopSwapTrans().validate(", "validating the "
                      "interchange"),
                     ("ChunkLoopTrans().validate(", "validating the "
                      "chunking of both loops")],
    },
    ("HoistTrans", "validate"): {
        "raises": 3,
        "consults": [("self._validate_dependencies(", "the dependence "
                      "checks of the hoisted statement")],
    },
    ("HoistTrans", "_validate_dependencies"): {
        "raises": 4,
        "contains": [(".is_accessed_before(", "the 'accessed earlier in "
                      "the loop' check"),
                     ("writes_in_loop > writes_in_statement", "the "
                      "'written elsewhere in the loop' check"),
                     ("accesses_in_loop.is_written()", "the 'reads a "
                      "variable written in the loop' check")],
    },
    ("HoistLoopBoundExprTrans", "validate"): {
        "raises": 2,
        "consults": [("super().validate(", "the generic loop validation")],
    },
    ("ReplaceInductionVariablesTrans", "validate"): {"raises": 1},
    ("FoldConditionalReturnExpressionsTrans", "validate"): {"raises": 1},
}


def check(idx, run):
    run.explanation = __doc__
    check_table(idx, run, "C05.R1", TABLE)
    # ChunkLoopTrans validates both chunked loops in tiling: two calls
    cls = idx.get_class("LoopTiling2DTrans")
    func = cls.methods["validate"]
    n = sum(1 for c in ast.walk(func) if isinstance(c, ast.Call) and
            ast.unparse(c.func) == "ChunkLoopTrans().validate")
    run.check("C05.R1", n >= 2, "LoopTiling2DTrans.validate",
              "both loops validated for chunking",
              f"ChunkLoopTrans().validate is called {n} time(s); the outer "
              f"and the inner loop must both be validated",
              loc(cls.module, func))
    # induction-variable replacement consults _is_induction_variable for
    # every replaced assignment
    rcls = idx.get_class("ReplaceInductionVariablesTrans")
    app = rcls.methods["apply"]
    txt = " ".join(ast.unparse(app).split())
    run.check("C05.R1", "if not self._is_induction_variable(" in txt,
              "ReplaceInductionVariablesTrans.apply",
              "only induction variables are replaced",
              "assignments are replaced without consulting "
              "_is_induction_variable", loc(rcls.module, app))
    run.assumptions = ["sufficiency of the guards is not decided"]
