"""C05 - accepted loop transformations preserve serial semantics
(obligation table only: validation still consults the analyses it is
documented to consult, on every accepting path, and the only bypass is the
documented `force` option).  Whether those analyses are *sufficient* is not
decided."""
import ast
from sa.index import AnalysisError, loc
from sa.obligations import check_table, check_predicate

LEVEL = "other"
MANIFEST = {
    "level": "other",
    "text": "Obligation table for the eight loop transformations: each "
            "validate() must reach its dependence / shape helpers on every "
            "accepting path (path-sensitive CFG search, loops per element "
            "with a frozen list of reviewed skip conditions), keep its "
            "refusals, chain to the base-class validation, and only the "
            "documented `force` option may bypass the dependence checks. "
            "This decides that the guards are still executed for every "
            "target, not that they are sufficient.",
    "note": "R2 shows from what the guards consult that fusion has no "
            "dependence-distance test and interchange no dependence test "
            "at all (known findings C05-a, C05-b with confirmed inputs). "
            "Beyond that, sufficiency of the guards and the behaviour of "
            "the transformed Fortran are NOT decided.",
    "technique": "must-pass-through (path-sensitive CFG reachability) over "
                 "a reviewed obligation table + refusal-weakening check against the reviewed guard snapshot",
}
SUPER = ("super().validate(", "super(LoopTiling2DTrans, self).validate(")
TABLE = {
    ("LoopTrans", "validate"): {
        "raises": 5,
        "consults": [("node.walk(", "checking the loop body for excluded "
                      "node types", ("node-type-check:false",))],
    },
    ("LoopFuseTrans", "validate"): {
        "raises": 6,
        "consults": [
            ("super().validate(node1", "validating the first loop"),
            ("super().validate(node2", "validating the second loop"),
            (".sameParent(", "checking that both loops have the same "
             "parent"),
            (("SymbolicMaths.equal(", ".iteration_space != "),
             "comparing the iteration spaces of the two loops"),
            ("abs(node1.position - node2.position)", "checking adjacency"),
            ("self._validate_written_", "checking the variables written "
             "in the loops", ("force",)),
        ],
        "per_iteration": [
            ("self._validate_written_",
             "checking a variable written in one of the loops",
             ["var_name == loop_var1.name",
              "var_info1.is_read_only() and var_info2.is_read_only()"],
             ("force",)),
        ],
    },
    ("LFRicLoopFuseTrans", "validate"): {
        "raises": 9,
        "consults": [
            ("super().validate(node1, node2", "the generic fusion checks"),
            ("check_intergrid(node1)", "refusing inter-grid kernels (first "
             "loop)"),
            ("check_intergrid(node2)", "refusing inter-grid kernels (second "
             "loop)"),
            ("node1.upper_bound_name != node2.upper_bound_name",
             "comparing the upper bounds"),
            ("node1.upper_bound_halo_depth != node2.upper_bound_halo_depth",
             "comparing the halo depths"),
            # every kernel of a (possibly already fused) loop counts
            ("node1.args_filter(", "collecting the reductions of all "
             "kernels in the first loop"),
            ("node2.args_filter(", "collecting the reductions / arguments "
             "of all kernels in the second loop"),
        ],
        "contains": [
            ("get_valid_reduction_modes()", "all reduction modes count"),
        ],
    },
    ("GOceanLoopFuseTrans", "validate"): {
        "raises": 2,
        "consults": [
            (("super(GOceanLoopFuseTrans, self).validate(node1, node2",
              "super().validate(node1, node2"), "the generic fusion checks"),
            ("node1.field_space != node2.field_space", "comparing the "
             "grid-point types"),
        ],
    },
    ("LoopFuseTrans", "_validate_written_scalar"): {"raises": 1},
    ("LoopFuseTrans", "_validate_written_array"): {"raises": 2},
    ("LoopSwapTrans", "validate"): {
        "raises": 8,
        "consults": [("super().validate(", "the generic loop validation"),
                     ("node.walk(", "looking for impure calls / nested "
                      "loops"),
                     ("outer_sched.symbol_table.is_empty()", "checking for "
                      "symbols declared in the outer loop body"),
                     ("inner_sched.symbol_table.is_empty()", "checking for "
                      "symbols declared in the inner loop body")],
    },
    ("ChunkLoopTrans", "validate"): {
        "raises": 11,
        "consults": [("super().validate(", "the generic loop validation"),
                     ("node.loop_body.walk(", "scanning the loop body"),
                     (".is_written()", "checking that the loop bounds are "
                      "not written inside the loop")],
    },
    ("LoopTiling2DTrans", "validate"): {
        "raises": 3,
        "consults": [(SUPER, "the generic loop validation"),
                     ("LoopSwapTrans().validate(", "validating the "
                      "interchange"),
                     ("ChunkLoopTrans().validate(", "validating the "
                      "chunking of both loops")],
    },
    ("HoistTrans", "validate"): {
        "raises": 3,
        "consults": [("self._validate_dependencies(", "the dependence "
                      "checks of the hoisted statement")],
    },
    ("HoistTrans", "_validate_dependencies"): {
        "raises": 4,
        "contains": [(".is_accessed_before(", "the 'accessed earlier in "
                      "the loop' check"),
                     ("writes_in_loop > writes_in_statement", "the "
                      "'written elsewhere in the loop' check"),
                     ("accesses_in_loop.is_written()", "the 'reads a "
                      "variable written in the loop' check")],
    },
    ("HoistLoopBoundExprTrans", "validate"): {
        "raises": 2,
        "consults": [("super().validate(", "the generic loop validation")],
    },
    ("ReplaceInductionVariablesTrans", "validate"): {"raises": 1},
    ("FoldConditionalReturnExpressionsTrans", "validate"): {"raises": 1},
}


# vocabulary of a dependence test on index expressions / directions
DISTANCE_FACTS = ("get_dependency_distance", "_get_dependency_distance",
                  "SymbolicMaths", "sym_maths", ".equal(", "never_equal",
                  "independent_iterations", "can_loop_be_parallelised",
                  "_array_access_pairs_overlap", "_is_loop_carried",
                  "solve_equal_for", "_independent_")
ACCESS_FACTS = ("VariablesAccessInfo", "reference_accesses",
                "DependencyTools", "get_input_parameters",
                "independent_iterations")


def closure_text(idx, cls, func, depth=2):
    """text of func plus the methods of the same class it calls"""
    txt = " ".join(ast.unparse(func).split())
    if depth == 0:
        return txt
    for call in ast.walk(func):
        if isinstance(call, ast.Call) and isinstance(call.func,
                                                     ast.Attribute) and \
                isinstance(call.func.value, ast.Name) and \
                call.func.value.id in ("self", "cls"):
            res = idx.find_method(cls, call.func.attr)
            if res and res[1] is not func:
                txt += " " + closure_text(idx, res[0], res[1], depth - 1)
    return txt


def check_zero_trip(idx, run):
    hcls = idx.get_class("HoistTrans")
    txt = " ".join(ast.unparse(hcls.node).split())
    facts = ("IfBlock", "trip_count", "start_expr", "stop_expr", "zero_trip")
    run.check(
        "C05.R2", any(f in txt for f in facts), "HoistTrans.validate",
        "a statement is only hoisted out of a loop that executes at least "
        "once",
        "HoistTrans never looks at the loop bounds: `a = 5.0` is moved in "
        "front of `do i = 1, n`, so with n = 0 a is assigned although the "
        "original loop body never ran", loc(hcls.module, hcls.node))


def check_sufficiency(idx, run):
    """C05.R2: what the guards look at.  Fusing two loops is only safe when
    the element an iteration reads is not written by a *later* iteration of
    the other loop, which depends on the index expressions (a(i) vs a(i+1)),
    not just on the position of the loop variable; interchanging two loops
    needs the dependence directions of the nest."""
    fcls = idx.get_class("LoopFuseTrans")
    func = fcls.methods["_validate_written_array"]
    txt = closure_text(idx, fcls, func)
    run.check(
        "C05.R2", any(f in txt for f in DISTANCE_FACTS),
        "LoopFuseTrans._validate_written_array",
        "written arrays: the index expressions of the loop variable are "
        "compared",
        "for an array written in one of the loops only the *position* of "
        "the loop variable in the subscripts is compared (via _partition); "
        "the subscript expressions never are: `do i: a(i)=b(i)` and "
        "`do i: c(i)=a(i+1)` are fused, after which c(i) receives the old "
        "a(i+1) instead of b(i+1)", loc(fcls.module, func))
    scls = idx.get_class("LoopSwapTrans")
    sfunc = scls.methods["validate"]
    stxt = closure_text(idx, scls, sfunc)
    run.check(
        "C05.R2", any(f in stxt for f in ACCESS_FACTS + DISTANCE_FACTS),
        "LoopSwapTrans.validate",
        "interchange: the data accesses of the nest are examined",
        "LoopSwapTrans.validate never looks at the variable accesses of "
        "the loop nest: `do j=2,m; do i=1,n-1; a(i,j)=a(i+1,j-1)` "
        "(dependence direction (<,>)) is interchanged, after which "
        "a(i+1,j-1) is read before it is updated",
        loc(scls.module, sfunc))



GUARDED = [
    ('LoopTrans', 'validate'),
    ('LoopFuseTrans', 'validate'),
    ('LoopFuseTrans', '_validate_written_scalar'),
    ('LoopFuseTrans', '_validate_written_array'),
    ('LoopSwapTrans', 'validate'),
    ('ChunkLoopTrans', 'validate'),
    ('LoopTiling2DTrans', 'validate'),
    ('HoistTrans', 'validate'),
    ('HoistTrans', '_validate_dependencies'),
    ('HoistLoopBoundExprTrans', 'validate'),
    ('LFRicLoopFuseTrans', 'validate'),
    ('GOceanLoopFuseTrans', 'validate'),
    ('FoldConditionalReturnExpressionsTrans', 'validate'),
    ('ReplaceInductionVariablesTrans', 'validate'),
]

# the answers the validations rely on: a call reported pure is moved,
# swapped or duplicated freely
PREDICATES = [
    ("psyclone.psyir.nodes.call.Call", "is_pure", True),
]


def check(idx, run):
    run.explanation = __doc__
    from sa.guards import check_guards, check_predicates
    check_guards(idx, run, "C05.R3", GUARDED)
    check_predicates(idx, run, "C05.R4", PREDICATES)
    check_table(idx, run, "C05.R1", TABLE)
    # ChunkLoopTrans validates both chunked loops in tiling: two calls
    cls = idx.get_class("LoopTiling2DTrans")
    func = cls.methods["validate"]
    n = sum(1 for c in ast.walk(func) if isinstance(c, ast.Call) and
            ast.unparse(c.func) == "ChunkLoopTrans().validate")
    run.check("C05.R1", n >= 2, "LoopTiling2DTrans.validate",
              "both loops validated for chunking",
              f"ChunkLoopTrans().validate is called {n} time(s); the outer "
              f"and the inner loop must both be validated",
              loc(cls.module, func))
    # induction-variable replacement consults _is_induction_variable for
    # every replaced assignment
    rcls = idx.get_class("ReplaceInductionVariablesTrans")
    app = rcls.methods["apply"]
    txt = " ".join(ast.unparse(app).split())
    run.check("C05.R1", "if not self._is_induction_variable(" in txt,
              "ReplaceInductionVariablesTrans.apply",
              "only induction variables are replaced",
              "assignments are replaced without consulting "
              "_is_induction_variable", loc(rcls.module, app))
    check_predicate(idx, run, "C05.R1", "ReplaceInductionVariablesTrans",
                    "_is_induction_variable", [
        ("assignment.rhs.walk(CodeBlock)", "the right-hand side holds a "
         "code block"),
        ("assignment.rhs.walk(Call)", "the right-hand side calls a routine "
         "that is not pure"),
        ("is_read_only()", "a variable of the right-hand side is written in "
         "the loop body"),
        ("var_accesses[0].node is not assignment.lhs", "the variable is "
         "accessed before this assignment"),
        ("subscripts", "the assigned variable is an array element"),
        (("access_type != AccessType.READ",
          "access_type is not AccessType.READ",
          "access_type not in [AccessType.READ]"),
         "a later access to the variable is anything but a read (a second "
         "assignment, or a call that may update it)"),
    ])
    # hoisting: every modifying access counts as a further write
    hcls = idx.get_class("HoistTrans")
    hfunc = hcls.methods["_validate_dependencies"]
    sums = [c for c in ast.walk(hfunc) if isinstance(c, ast.Call) and
            ast.unparse(c.func) == "sum" and "access_type" in ast.unparse(c)]
    names = {}
    for a in ast.walk(hfunc):
        if isinstance(a, ast.Assign) and isinstance(a.targets[0], ast.Name):
            names[a.targets[0].id] = ast.unparse(a.value)
    okh = bool(sums)
    for c in sums:
        txt = ast.unparse(c)
        for n, v in names.items():
            txt = txt.replace(f" in {n} ", f" in {v} ")
        if "all_write_accesses()" not in txt:
            okh = False
    run.check("C05.R1", okh, "HoistTrans._validate_dependencies",
              "every modifying access in the loop counts as another write",
              "the writes to the hoisted variable are counted by plain "
              "WRITE accesses only: `a = t; call bump(a); b(i) = a` is "
              "hoisted although the call modifies a in every iteration",
              loc(hcls.module, hfunc))
    check_sufficiency(idx, run)
    check_zero_trip(idx, run)
    run.assumptions = ["beyond R2, sufficiency of the guards is not decided"]
