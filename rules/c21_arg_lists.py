"""C21 - LFRic kernel calls match the kernel interface (argument *counts* and
hook order; types, kinds, ranks and intents are not decided).

R1 shared-walk   neither the call-side nor the stub-side argument list
                 overrides ArgOrdering.generate: both follow the same walk
                 over the metadata.
R2 hook-counts   for every hook called by generate, the number of text
                 arguments appended by KernCallArgList equals the number
                 appended by KernStubArgList, as symbolic count trees
                 (decision trees over normalised guards with polynomial
                 leaves over loop multiplicities).
R3 lockstep      inside KernCallArgList every hook appends as many PSyIR
                 arguments as text arguments.
R4 one-sided     hooks implemented on one side only are the reviewed ones,
                 and the refusals that justify them still exist.
"""
import ast
import re
from sa.index import AnalysisError, loc, norm, const_value

LEVEL = "other"
MANIFEST = {
    "level": "other",
    "text": "Sibling cross-check of the two ArgOrdering implementations: "
            "each hook's effect on the argument list is summarised as a "
            "count tree (guards kept symbolic, loops as multiplicities, "
            "local list lengths tracked, class constants resolved) and the "
            "trees of caller and stub must be equal after a small, "
            "reviewed normalisation of corresponding collections. The "
            "PSyIR and text lists of the caller must grow in lock-step. "
            "This covers every metadata combination the hooks can "
            "distinguish, not the sampled kernels of the tests.",
    "note": "Only the NUMBER of arguments per metadata element and the "
            "shared hook order are decided; type, kind, rank and intent of "
            "each argument (declared elsewhere) and the documented "
            "ordering itself are not.",
    "technique": "symbolic effect summaries (count trees) of sibling "
                 "methods + equality after reviewed normalisation",
}
BASE = "psyclone.domain.lfric.arg_ordering.ArgOrdering"
CALL = "psyclone.domain.lfric.kern_call_arg_list.KernCallArgList"
STUB = "psyclone.domain.lfric.kern_stub_arg_list.KernStubArgList"

TEXT_APPENDS = {"self.append": 1}
PSYIR_APPENDS = {"self.psyir_append", "self.append_integer_reference",
                 "self.append_array_reference",
                 "self.append_structure_reference",
                 "self.append_user_type"}

# corresponding collections / guards on the two sides (confirmed by reading)
ITER_SYMBOLS = [
    (r"^self\._kern\.qr_rules(\.values\(\)|\.items\(\))?$", "QR"),
    (r"^self\._kern\.eval_targets(\.items\(\)|\.values\(\))?$", "TGT"),
    (r"^range\(1, (\w+)\.vector_size \+ 1\)$", "VEC"),
    (r"^range\((\w+)\.vector_size\)$", "VEC"),
]
COND_SYMBOLS = [
    (r"^'gh_evaluator' in self\._kern\.eval_shapes$", "EVAL"),
]
LEN_SYMBOLS = [
    (r"^LFRicMeshProperties\(self\._kern\)\.kern_args\(.*\)$", "MESHPROPS"),
]


# ---------------------------------------------------------------- algebra
class Tree:
    """decision tree: ('leaf', {monomial tuple: coef}) |
    ('if', cond, then, else) ; 'raise' leaves are bottom (None)"""


def leaf(poly):
    poly = {k: v for k, v in poly.items() if v}
    return ("leaf", tuple(sorted(poly.items())))


def num(k):
    return leaf({(): k})


def sym(name):
    return leaf({(name,): 1})


BOTTOM = ("bottom",)


def add(a, b):
    if a == BOTTOM or b == BOTTOM:
        return BOTTOM
    if a[0] == "leaf" and b[0] == "leaf":
        poly = dict(a[1])
        for mono, coef in b[1]:
            poly[mono] = poly.get(mono, 0) + coef
        return leaf(poly)
    if a[0] == "if" and (b[0] == "leaf" or a[1] <= b[1]):
        if b[0] == "if" and b[1] == a[1]:
            return mkif(a[1], add(a[2], b[2]), add(a[3], b[3]))
        return mkif(a[1], add(a[2], b), add(a[3], b))
    return add(b, a)


def mul(a, b):
    if a == BOTTOM or b == BOTTOM:
        return BOTTOM
    if a[0] == "if":
        return mkif(a[1], mul(a[2], b), mul(a[3], b))
    if b[0] == "if":
        return mkif(b[1], mul(a, b[2]), mul(a, b[3]))
    poly = {}
    for m1, c1 in a[1]:
        for m2, c2 in b[1]:
            mono = tuple(sorted(m1 + m2))
            poly[mono] = poly.get(mono, 0) + c1 * c2
    return leaf(poly)


def mkif(cond, then, other):
    if then == BOTTOM:
        return other
    if other == BOTTOM:
        return then
    if then == other:
        return then
    return ("if", cond, then, other)


def restrict(tree, cond, value):
    """simplify `tree` under the assumption cond == value"""
    if tree[0] != "if":
        return tree
    if tree[1] == cond or (hasattr(cond, "fullmatch") and
                           cond.fullmatch(str(tree[1]))):
        return restrict(tree[2] if value else tree[3], cond, value)
    return mkif(tree[1], restrict(tree[2], cond, value),
                restrict(tree[3], cond, value))


def under(cond, then, other):
    return mkif(cond, restrict(then, cond, True),
                restrict(other, cond, False))


def show(tree):
    if tree == BOTTOM:
        return "raise"
    if tree[0] == "leaf":
        parts = []
        for mono, coef in tree[1]:
            if not mono:
                parts.append(str(coef))
            else:
                parts.append(("" if coef == 1 else f"{coef}*") +
                             "*".join(mono))
        return " + ".join(parts) or "0"
    return f"({tree[1]} ? {show(tree[2])} : {show(tree[3])})"


# ------------------------------------------------------------- summaries
def symbolise(text, table):
    flat = " ".join(text.split())
    for pat, name in table:
        if re.match(pat, flat):
            return name
    return None


class Summariser:
    def __init__(self, idx, cls, hooks, kind):
        self.idx = idx
        self.cls = cls
        self.hooks = hooks
        self.kind = kind          # 'text' | 'psyir'

    def hook(self, name, depth=0):
        res = self.idx.find_method(self.cls, name)
        if res is None:
            raise AnalysisError(f"{self.cls.name}.{name} not found")
        return self.function(res[0], res[1], depth)

    def function(self, owner, func, depth):
        self.owner = owner
        env = {}
        return self.block(func.body, env, owner, depth)

    # -- list length tracking ------------------------------------------
    def length(self, node, env, owner):
        if isinstance(node, (ast.List, ast.Tuple)):
            return num(len(node.elts))
        if isinstance(node, ast.Name) and node.id in env:
            return env[node.id]
        if isinstance(node, ast.BinOp) and isinstance(node.op, ast.Add):
            return add(self.length(node.left, env, owner),
                       self.length(node.right, env, owner))
        if isinstance(node, ast.Attribute):
            # class constant such as DynCMAOperators.cma_same_fs_params
            try:
                val = const_value(self.idx, owner.module, node)
                if isinstance(val, (list, tuple)):
                    return num(len(val))
            except AnalysisError:
                pass
        txt = ast.unparse(node)
        name = symbolise(txt, LEN_SYMBOLS) or " ".join(txt.split())
        return sym(f"len({name})")

    def cond_name(self, test):
        txt = " ".join(ast.unparse(test).split())
        return symbolise(txt, COND_SYMBOLS) or txt

    def block(self, stmts, env, owner, depth):
        total = num(0)
        for stmt in stmts:
            if isinstance(stmt, ast.Expr) and isinstance(stmt.value,
                                                         ast.Constant):
                continue
            if isinstance(stmt, ast.Raise):
                return BOTTOM
            if isinstance(stmt, ast.Return):
                break
            if isinstance(stmt, ast.Assign) and len(stmt.targets) == 1 and \
                    isinstance(stmt.targets[0], ast.Name) and \
                    isinstance(stmt.value, (ast.List, ast.BinOp)):
                env[stmt.targets[0].id] = self.length(stmt.value, env,
                                                      owner)
                continue
            if isinstance(stmt, ast.AugAssign) and isinstance(
                    stmt.target, ast.Name) and stmt.target.id in env and \
                    isinstance(stmt.op, ast.Add):
                env[stmt.target.id] = add(
                    env[stmt.target.id],
                    self.length(stmt.value, env, owner))
                continue
            if isinstance(stmt, (ast.Expr, ast.Assign)) and isinstance(
                    stmt.value, ast.Call):
                call = stmt.value
                fname = ast.unparse(call.func)
                if isinstance(call.func, ast.Attribute) and \
                        call.func.attr == "append" and isinstance(
                            call.func.value, ast.Name) and \
                        call.func.value.id in env:
                    env[call.func.value.id] = add(env[call.func.value.id],
                                                  num(1))
                    continue
                total = add(total, self.call(call, env, owner, depth))
                continue
            if isinstance(stmt, ast.For):
                body = self.block(stmt.body, dict(env), owner, depth)
                if body == num(0):
                    continue
                total = add(total, self.loop(stmt, body, env, owner,
                                             depth))
                continue
            if isinstance(stmt, ast.If):
                cond = self.cond_name(stmt.test)
                env_t, env_f = dict(env), dict(env)
                then = self.block(stmt.body, env_t, owner, depth)
                other = self.block(stmt.orelse, env_f, owner, depth)
                for key in set(env_t) | set(env_f):
                    left = env_t.get(key, env.get(key, num(0)))
                    right = env_f.get(key, env.get(key, num(0)))
                    env[key] = under(cond, left, right)
                total = add(total, under(cond, then, other))
                continue
            if isinstance(stmt, (ast.With, ast.Try)):
                total = add(total, self.block(stmt.body, env, owner,
                                              depth))
                continue
        return total

    def loop(self, stmt, body, env, owner, depth):
        it = stmt.iter
        txt = " ".join(ast.unparse(it).split())
        if isinstance(it, ast.Name) and it.id in env:
            return mul(env[it.id], body)
        name = symbolise(txt, ITER_SYMBOLS)
        if name:
            return mul(sym(name), body)
        if txt == "self._kern.eval_shapes":
            # classification loop: one term per class of shape (reviewed:
            # eval_shapes holds the quadrature shapes that have a rule in
            # qr_rules, plus at most one evaluator shape)
            # the two spellings of each class test used in the repository
            quads = (re.compile(r"shape in \S*VALID_QUADRATURE_SHAPES"),
                     re.compile(r"shape in self\._kern\.qr_rules"))
            evals = (re.compile(r"shape in \S*VALID_EVALUATOR_SHAPES"),
                     re.compile(r"shape == 'gh_evaluator'"))
            quad = evalb = body
            for test in quads:
                quad = restrict(quad, test, True)
                evalb = restrict(evalb, test, False)
            for test in evals:
                quad = restrict(quad, test, False)
                evalb = restrict(evalb, test, True)
            return add(mul(sym("QR"), quad),
                       under("EVAL", evalb, num(0)))
        return mul(sym(f"len({txt})"), body)

    def call(self, call, env, owner, depth):
        fname = ast.unparse(call.func)
        if self.kind == "text":
            if fname == "self.append":
                return num(1)
            if fname == "self.extend" and call.args:
                return self.length(call.args[0], env, owner)
        else:
            if fname in PSYIR_APPENDS:
                return num(1)
        if fname.startswith("super().") and depth < 4:
            res = self.idx.find_method(self.cls, call.func.attr,
                                       after=owner)
            if res:
                return self.block(res[1].body, {}, res[0], depth + 1)
        if fname.startswith("self.") and isinstance(call.func,
                                                    ast.Attribute) and \
                call.func.attr in self.hooks and depth < 3:
            res = self.idx.find_method(self.cls, call.func.attr)
            if res:
                return self.block(res[1].body, {}, res[0], depth + 1)
        return num(0)


# --------------------------------------------------------------- the rules
# hooks that exist on the call side only, with the (checked) reason
ONE_SIDED = {
    "cell_map": "inter-grid kernels: no stub can be generated "
                "(gen_kernel_stub refuses them)",
    "fs_intergrid": "inter-grid kernels: no stub can be generated",
    "_mesh_ncell2d_no_halos": "domain kernels: no stub can be generated",
}


# hooks whose PSyIR arguments are appended by a delegate that receives the
# argument list (fragment that must be present, reason)
LOCKSTEP_REVIEWED = {
    "mesh_properties": (
        "kern_call_arg_list=self",
        "LFRicMeshProperties.kern_args appends the PSyIR references itself "
        "when it is handed the KernCallArgList"),
}


def generate_hooks(idx):
    base = idx.get_class(BASE)
    gen = base.methods.get("generate")
    if gen is None:
        raise AnalysisError("ArgOrdering.generate not found")
    hooks = []
    for call in ast.walk(gen):
        if isinstance(call, ast.Call) and isinstance(call.func,
                                                     ast.Attribute) and \
                ast.unparse(call.func.value) == "self" and \
                call.func.attr in base.methods and \
                call.func.attr not in ("append", "extend"):
            if call.func.attr not in hooks:
                hooks.append(call.func.attr)
    return base, gen, hooks


def check_shape_order(idx, run):
    """A kernel with several gh_shape entries gets one (differential) basis
    array per entry and function space.  Every implementation of the basis /
    diff_basis hooks adds them in the order of the gh_shape metadata, i.e.
    inside a loop over self._kern.eval_shapes: an implementation that walks
    another collection first (all quadratures, then the evaluator) passes
    arrays of different rank at the positions where the stub declares
    them."""
    sides = (CALL, STUB,
             "psyclone.domain.lfric.kernel_interface.KernelInterface")
    count = 0
    for side in sides:
        cls = idx.get_class(side)
        for hook in ("basis", "diff_basis"):
            found = idx.find_method(cls, hook)
            if found is None:
                raise AnalysisError(f"{cls.name}.{hook} not found")
            owner, func = found
            funcs = [(owner, func)]
            # one level of delegation (KernelInterface._create_basis)
            for call_ in ast.walk(func):
                if isinstance(call_, ast.Call) and \
                        isinstance(call_.func, ast.Attribute) and \
                        ast.unparse(call_.func.value) == "self" and \
                        call_.func.attr.startswith("_"):
                    sub = idx.find_method(cls, call_.func.attr)
                    if sub is not None:
                        funcs.append(sub)

            def adds(node):
                return isinstance(node, ast.Call) and \
                    isinstance(node.func, ast.Attribute) and \
                    node.func.attr == "append" and \
                    ast.unparse(node.func.value) in ("self",
                                                     "self._arglist")
            for fowner, fnode in funcs:
                inside = set()
                for loop in ast.walk(fnode):
                    if isinstance(loop, ast.For) and ast.unparse(
                            loop.iter) == "self._kern.eval_shapes":
                        inside |= {id(n) for n in ast.walk(loop)}
                for node in ast.walk(fnode):
                    if not adds(node):
                        continue
                    count += 1
                    run.check(
                        "C21.R5", id(node) in inside,
                        f"{fowner.name}.{fnode.name} [{hook}]",
                        "basis arrays are added in gh_shape order",
                        f"{fowner.name}.{fnode.name} adds "
                        f"`{ast.unparse(node)[:50]}` outside a loop over "
                        f"self._kern.eval_shapes: with gh_shape = "
                        f"(/gh_evaluator, gh_quadrature_*/) the caller "
                        f"passes the quadrature arrays (rank 4) where the "
                        f"stub declares the evaluator arrays (rank 3)",
                        loc(fowner.module, node))
    run.floor("basis / diff_basis additions", count, 8)


def check_stencil_size_shapes(idx, run):
    """The caller passes the size of a stencil as a scalar, except for a
    cross2d stencil (array of 4).  The stub decides the shape per argument;
    a declaration made under a test of one argument's stencil type may
    therefore only name that argument's variable, never the whole list of
    extent variables."""
    cls = idx.get_class("psyclone.domain.lfric.lfric_stencils.LFRicStencils")
    func = cls.methods.get("_declare_unique_extent_vars")
    if func is None:
        raise AnalysisError("LFRicStencils._declare_unique_extent_vars not "
                            "found")
    count = 0

    def visit(node, guards):
        nonlocal count
        for child in ast.iter_child_nodes(node):
            sub = guards
            if isinstance(node, ast.If) and (child in node.body or
                                             child in node.orelse):
                sub = guards + [node.test]
            if isinstance(child, ast.Call) and \
                    ast.unparse(child.func).endswith("DeclGen"):
                count += 1
                ent = [k.value for k in child.keywords
                       if k.arg == "entity_decls"]
                whole = ent and ast.unparse(ent[0]) == \
                    "self._unique_extent_vars"
                per_arg = [g for g in sub if "stencil" in ast.unparse(g)
                           and "type" in ast.unparse(g)]
                run.check(
                    "C21.R6", not (whole and per_arg),
                    f"LFRicStencils._declare_unique_extent_vars "
                    f"[declaration {count}]",
                    "a shape decided for one stencil argument is given to "
                    "that argument's size variable only",
                    f"under `{ast.unparse(per_arg[0])[:60] if per_arg else ''}"
                    f"` *all* extent variables are declared with one shape: "
                    f"a kernel with a cross2d and a cross stencil gets "
                    f"`dimension(4) :: field_2_stencil_size, "
                    f"field_3_stencil_size` although the caller passes a "
                    f"scalar for the second", loc(cls.module, child))
            visit(child, sub)
    visit(func, [])
    run.floor("stencil size declarations", count, 2)


def check(idx, run):
    run.explanation = __doc__
    check_shape_order(idx, run)
    check_stencil_size_shapes(idx, run)
    base, gen, hooks = generate_hooks(idx)
    call = idx.get_class(CALL)
    stub = idx.get_class(STUB)
    run.floor("hooks called by generate", len(hooks), 25)
    # R1
    for cls in (call, stub):
        for kls in idx.mro(cls):
            if kls is base:
                break
            run.check("C21.R1", "generate" not in kls.methods,
                      f"{kls.name}", "does not override generate",
                      f"{kls.name} overrides ArgOrdering.generate: caller "
                      f"and stub no longer walk the metadata in the same "
                      f"order", loc(kls.module, kls.node))
    # the sub-classes of the call side must not change counts either
    sides = {"call": Summariser(idx, call, hooks, "text"),
             "stub": Summariser(idx, stub, hooks, "text"),
             "psyir": Summariser(idx, call, hooks, "psyir")}
    for hook in hooks:
        c_owner = idx.find_method(call, hook)[0]
        s_owner = idx.find_method(stub, hook)[0]
        ctree = sides["call"].hook(hook)
        stree = sides["stub"].hook(hook)
        ptree = sides["psyir"].hook(hook)
        cons = f"{hook}"
        where = loc(c_owner.module, idx.find_method(call, hook)[1])
        if hook in ONE_SIDED:
            run.ob("C21.R4", True, {"rule": "C21.R4", "hook": hook,
                                    "call": show(ctree),
                                    "stub": show(stree),
                                    "reviewed": ONE_SIDED[hook]})
        else:
            run.check(
                "C21.R2", ctree == stree, cons,
                "caller and stub add the same number of arguments",
                f"hook '{hook}': {c_owner.name} appends {show(ctree)} "
                f"argument(s) but {s_owner.name} appends {show(stree)}: "
                f"the kernel would be called with a different number of "
                f"arguments than its stub declares", where,
                sample={"rule": "C21.R2", "hook": hook,
                        "call": f"{c_owner.name}: {show(ctree)}",
                        "stub": f"{s_owner.name}: {show(stree)}",
                        "ok": ctree == stree})
        # R3 lockstep (only where the call side has its own code)
        if hook in LOCKSTEP_REVIEWED:
            func = idx.find_method(call, hook)[1]
            ok = LOCKSTEP_REVIEWED[hook][0] in " ".join(
                ast.unparse(func).split())
            run.check("C21.R3", ok, cons, "PSyIR arguments added by the "
                      "delegate", f"hook '{hook}': "
                      f"{LOCKSTEP_REVIEWED[hook][1]} - the expected "
                      f"delegation '{LOCKSTEP_REVIEWED[hook][0]}' is gone",
                      where)
        elif c_owner is not base or ptree != num(0):
            run.check(
                "C21.R3", ptree == ctree, cons,
                "PSyIR and text argument lists grow together",
                f"hook '{hook}' in {c_owner.name} appends {show(ctree)} "
                f"text argument(s) but {show(ptree)} PSyIR argument(s): "
                f"the PSyIR call would not have the arguments of the "
                f"generated text", where)
    # R4: the refusals that justify the one-sided hooks
    smod = idx.module("src/psyclone/gen_kernel_stub.py")
    stxt = smod.text
    kmod = idx.module("src/psyclone/domain/lfric/lfric_kern.py")
    ktxt = kmod.text
    run.check("C21.R4", "is_intergrid" in ktxt and
              "NotImplementedError" in ktxt,
              "LFRicKern.load_meta / _setup", "inter-grid stubs refused",
              "LFRicKern no longer refuses to build a stub for an "
              "inter-grid kernel: cell_map / fs_intergrid would then be "
              "missing from the stub", f"{kmod.relpath}:1")
    run.check("C21.R4", re.search(
        r"iterates_over.*not in.*|operates on the domain|'domain'", ktxt)
        is not None and "gen_stub" in ktxt, "LFRicKern.gen_stub",
        "domain / dof kernels refused by the stub generator",
        "the stub generator no longer refuses kernels that do not operate "
        "on cell columns", f"{kmod.relpath}:1")
    # mesh properties: same number of arguments for stub and call
    dmod = idx.module("src/psyclone/dynamo0p3.py")
    mcls = idx.get_class("psyclone.dynamo0p3.LFRicMeshProperties")
    kargs = mcls.methods.get("kern_args")
    if kargs is None:
        raise AnalysisError("LFRicMeshProperties.kern_args not found")
    okm = True
    detail = ""
    for stmt in ast.walk(kargs):
        if isinstance(stmt, ast.If) and ast.unparse(stmt.test) in (
                "stub", "not stub"):
            def appends(stmts):
                tot = 0
                for sub in stmts:
                    for call_ in ast.walk(sub):
                        if isinstance(call_, ast.Call) and isinstance(
                                call_.func, ast.Attribute) and \
                                call_.func.attr in ("append", "extend") \
                                and ast.unparse(call_.func.value) == \
                                "arg_list":
                            tot += 1 if call_.func.attr == "append" else \
                                len(getattr(call_.args[0], "elts", [0, 0]))
                return tot
            left, right = appends(stmt.body), appends(stmt.orelse)
            if left != right:
                okm = False
                detail = f"'{ast.unparse(stmt.test)}' branch adds {left}, "\
                         f"the other {right}"
    run.check("C21.R2", okm, "LFRicMeshProperties.kern_args",
              "same number of mesh-property arguments for stub and call",
              f"kern_args adds a different number of arguments for the "
              f"stub and for the call: {detail}", loc(dmod, kargs))
    # nfaces_re_h: the mesh-property code omits it when "the reference-
    # element code already passes it"; that test has to name exactly the
    # properties for which DynReferenceElement passes nfaces_re_h
    rcls = idx.get_class("psyclone.dynamo0p3.DynReferenceElement")
    rinit = rcls.methods.get("__init__")

    def ref_props(expr):
        return {n.attr for n in ast.walk(expr) if isinstance(n, ast.Attribute)
                and "RefElementMetaData.Property" in ast.unparse(n.value)}
    passed_for = None
    for stmt in ast.walk(rinit):
        if isinstance(stmt, ast.If) and any(
                isinstance(a, ast.Assign) and
                ast.unparse(a.targets[0]) == "self._nfaces_h_symbol"
                for a in stmt.body):
            passed_for = ref_props(stmt.test)
    if not passed_for:
        raise AnalysisError("DynReferenceElement.__init__: the condition "
                            "under which nfaces_re_h is passed was not "
                            "found")
    has = [a for a in ast.walk(kargs) if isinstance(a, ast.Assign) and
           ast.unparse(a.targets[0]) == "has_nfaces"]
    if len(has) != 1:
        raise AnalysisError("LFRicMeshProperties.kern_args: the "
                            "'has_nfaces' test was not found")
    assumed = ref_props(has[0].value)
    membership = all(
        isinstance(c, ast.Compare) and isinstance(c.ops[0], ast.In) and
        "reference_element.properties" in ast.unparse(c.comparators[0])
        for c in (has[0].value.values if isinstance(has[0].value, ast.BoolOp)
                  and isinstance(has[0].value.op, ast.Or)
                  else [has[0].value]))
    run.check(
        "C21.R2", membership and assumed == passed_for,
        "LFRicMeshProperties.kern_args",
        "nfaces_re_h omitted exactly when the reference-element arguments "
        "already contain it",
        f"adjacent_face omits its nfaces_re_h argument when "
        f"'{' '.join(ast.unparse(has[0].value).split())[:120]}' but the "
        f"reference-element code passes nfaces_re_h only for "
        f"{sorted(passed_for)}: for other properties the argument is "
        f"missing from the call and from the stub's dummy list (which "
        f"still uses it to dimension adjacent_face)", loc(dmod, has[0]))
    run.assumptions = [
        "eval_shapes = the quadrature shapes that have an entry in "
        "qr_rules plus at most one evaluator shape (reviewed "
        "correspondence used to compare basis / diff_basis)",
        "argument types, kinds, ranks and intents are not decided"]
