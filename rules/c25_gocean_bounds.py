"""C25 - GOcean loops visit exactly the configured grid points (tables and
plumbing).

R1 envelope      the built-in region table written by GOLoop.setup_bounds
                 (extracted by symbolic evaluation of its stores and loops)
                 stays within the depth-1 halo, internal regions are inside
                 the all-points regions, and every combination is present.
R2 user-spaces   add_bounds stores the seven fields as documented, accepts
                 only {start}/{stop}; get_custom_bound_string substitutes the
                 grid's internal start and the x|y stop for inner|outer.
R3 bound-names   lower/upper bounds use go_grid_{internal|whole}_{inner|
                 outer}_{start|stop}; the configuration maps inner<->x,
                 outer<->y, internal/whole consistently.
R4 who-writes    the bound-determining fields of a GOcean loop are written
                 only by the loop itself and the two reviewed
                 transformations.
"""
import ast
import os
import re
from sa.index import AnalysisError, loc, norm, REPO

LEVEL = "other"
MANIFEST = {
    "level": "other",
    "text": "The complete built-in iteration-region table is extracted "
            "from setup_bounds by symbolically executing its literal "
            "stores and loops over the constant lists, then every entry is "
            "checked against the envelope stated in the property; the "
            "parsing and storing of user-defined spaces, the property "
            "names used for loop bounds and their mapping in the shipped "
            "configuration are checked by def-use rules; a who-may-write "
            "scan shows which code can change a loop's region. Exhaustive "
            "over all (offset, grid-point type, space, loop) combinations.",
    "note": "Equality with the internal regions defined by the dl_esm_inf "
            "library and the points visited at run time are not decided.",
    "technique": "symbolic table extraction + affine envelope check + "
                 "def-use of parsed fields + who-may-write scan + refusal-weakening check against the reviewed guard snapshot",
}
GO = "src/psyclone/gocean1p0.py"
BOUND = re.compile(r"^\{(start|stop)\}([+-]\d+)?$")


def go_constants(idx):
    mod = idx.module("src/psyclone/domain/gocean/gocean_constants.py")
    out = {}
    for sub in ast.walk(mod.tree):
        if isinstance(sub, ast.Assign) and isinstance(sub.targets[0],
                                                      ast.Attribute) and \
                ast.unparse(sub.targets[0].value) == "GOceanConstants" and \
                isinstance(sub.value, ast.List):
            out[sub.targets[0].attr] = [e.value for e in sub.value.elts
                                        if isinstance(e, ast.Constant)]
    return out


def extract_table(idx, func, consts):
    """Symbolically execute setup_bounds -> {(off, typ, space): entry}"""
    table = {}

    def key_value(node, env):
        if isinstance(node, ast.Constant):
            return node.value
        if isinstance(node, ast.Name) and node.id in env:
            return env[node.id]
        raise AnalysisError(f"setup_bounds: key '{ast.unparse(node)}' is "
                            f"not a constant or loop variable")

    def run_block(stmts, env):
        for stmt in stmts:
            if isinstance(stmt, ast.Expr) and isinstance(stmt.value,
                                                         ast.Constant):
                continue
            if isinstance(stmt, ast.For):
                it = ast.unparse(stmt.iter)
                name = it.split(".")[-1]
                if not it.startswith("const.") or name not in consts:
                    raise AnalysisError(f"setup_bounds: loop over '{it}' "
                                        f"is not a GOceanConstants list")
                for val in consts[name]:
                    env2 = dict(env)
                    env2[stmt.target.id] = val
                    run_block(stmt.body, env2)
                continue
            if isinstance(stmt, ast.Assign):
                tgt = stmt.targets[0]
                if isinstance(tgt, ast.Name):
                    continue   # const = GOceanConstants()
                keys = []
                cur = tgt
                while isinstance(cur, ast.Subscript):
                    keys.insert(0, key_value(cur.slice, env))
                    cur = cur.value
                if ast.unparse(cur) != "GOLoop._bounds_lookup":
                    raise AnalysisError(f"setup_bounds: store into "
                                        f"'{ast.unparse(cur)}'")
                if len(keys) == 3 and isinstance(stmt.value, ast.Dict) and \
                        stmt.value.keys:
                    entry = ast.literal_eval(stmt.value)
                    table[tuple(keys)] = (entry, stmt)
                continue
            raise AnalysisError(f"setup_bounds: statement outside the "
                                f"table-building subset: "
                                f"'{norm(stmt)}'")
    run_block(func.body, {})
    return table


def parse_bound(text):
    mat = BOUND.match(text.replace(" ", ""))
    if not mat:
        return None
    return mat.group(1), int(mat.group(2) or 0)


def check_envelope(idx, run):
    cls = idx.get_class("psyclone.gocean1p0.GOLoop")
    mod = cls.module
    func = cls.methods.get("setup_bounds")
    if func is None:
        raise AnalysisError("GOLoop.setup_bounds not found")
    consts = go_constants(idx)
    for need in ("SUPPORTED_OFFSETS", "VALID_FIELD_GRID_TYPES",
                 "VALID_ITERATES_OVER"):
        if need not in consts:
            raise AnalysisError(f"GOceanConstants.{need} not found")
    table = extract_table(idx, func, consts)
    run.floor("built-in region entries", len(table), 30)
    run.count("region table entries", len(table))
    for (off, typ, space), (entry, stmt) in sorted(table.items()):
        for loop in ("inner", "outer"):
            cons = f"_bounds_lookup[{off}][{typ}][{space}][{loop}]"
            ent = entry.get(loop)
            ok = isinstance(ent, dict) and set(ent) == {"start", "stop"}
            start = parse_bound(ent["start"]) if ok else None
            stop = parse_bound(ent["stop"]) if ok else None
            good = ok and start is not None and stop is not None and \
                start[0] == "start" and stop[0] == "stop" and \
                start[1] in (-1, 0) and stop[1] in (-1, 0, 1)
            run.check(
                "C25.R1", good, "GOLoop.setup_bounds", cons,
                f"{cons} = {ent}: the built-in regions must start at "
                f"{{start}}-1 or {{start}} and stop at {{stop}}-1, "
                f"{{stop}} or {{stop}}+1 (never beyond the depth-1 halo)",
                loc(mod, stmt),
                sample={"rule": "C25.R1", "entry": cons, "value": ent,
                        "ok": bool(good)})
    # internal inside all
    for (off, typ, space), (entry, stmt) in sorted(table.items()):
        if space != "go_internal_pts":
            continue
        allp = table.get((off, typ, "go_all_pts"))
        if allp is None:
            continue
        for loop in ("inner", "outer"):
            i_s = parse_bound(entry[loop]["start"])
            i_e = parse_bound(entry[loop]["stop"])
            a_s = parse_bound(allp[0][loop]["start"])
            a_e = parse_bound(allp[0][loop]["stop"])
            if None in (i_s, i_e, a_s, a_e):
                continue
            run.check(
                "C25.R1", a_s[1] <= i_s[1] and i_e[1] <= a_e[1],
                "GOLoop.setup_bounds",
                f"internal within all points [{off}][{typ}][{loop}]",
                f"for {off}/{typ}/{loop} the internal region "
                f"{entry[loop]} is not contained in the all-points region "
                f"{allp[0][loop]}", loc(mod, stmt))
    # completeness
    missing = []
    for off in consts["SUPPORTED_OFFSETS"]:
        for typ in consts["VALID_FIELD_GRID_TYPES"]:
            for space in ("go_all_pts", "go_internal_pts"):
                if (off, typ, space) not in table:
                    missing.append((off, typ, space))
    run.check("C25.R1", not missing, "GOLoop.setup_bounds",
              "every (offset, type, space) has a region",
              f"no region is defined for {missing[:4]}", loc(mod, func))


def check_user_spaces(idx, run):
    cls = idx.get_class("psyclone.gocean1p0.GOLoop")
    mod = cls.module
    func = cls.methods.get("add_bounds")
    if func is None:
        raise AnalysisError("GOLoop.add_bounds not found")
    cons = "GOLoop.add_bounds"
    txt = ast.unparse(func)
    run.check("C25.R2", "bound_info.split(':')" in txt and
              "len(data) != 7" in txt, cons, "seven ':'-separated fields",
              "the iteration-space description is no longer split into "
              "seven fields", loc(mod, func))
    stores = [s for s in ast.walk(func) if isinstance(s, ast.Assign) and
              isinstance(s.value, ast.Dict) and s.value.keys and
              "current_bounds" in ast.unparse(s.targets[0])]
    ok = False
    if stores:
        val = stores[-1].value
        got = {}
        for key, sub in zip(val.keys, val.values):
            if isinstance(sub, ast.Dict):
                got[key.value] = {k.value: ast.unparse(v)
                                  for k, v in zip(sub.keys, sub.values)}
        ok = got == {"outer": {"start": "data[3]", "stop": "data[4]"},
                     "inner": {"start": "data[5]", "stop": "data[6]"}}
        tgt = ast.unparse(stores[-1].targets[0])
        ok = ok and tgt == "current_bounds[data[0]][data[1]][data[2]]"
    run.check("C25.R2", ok, cons,
              "fields 4-7 = outer start, outer stop, inner start, inner stop",
              "the parsed fields are not stored as documented "
              "(offset:type:space:outer-start:outer-stop:inner-start:"
              "inner-stop): a user-defined region would be applied to the "
              "wrong loop or bound", loc(mod, stores[-1]) if stores
              else loc(mod, func))
    run.check("C25.R2", "not in ['{start}', '{stop}']" in txt and
              "for bound in data[3:7]" in txt, cons,
              "only {start} and {stop} placeholders",
              "placeholders other than {start}/{stop} are no longer "
              "refused in all four bounds", loc(mod, func))
    # documentation string of the format
    doc = ast.get_docstring(func) or ""
    run.check("C25.R2", "outer-start" in doc and doc.find("outer-start") <
              doc.find("outer-stop") < doc.find("inner-start") <
              doc.find("inner-stop"), cons, "documented field order",
              "the documented field order changed", loc(mod, func))
    # user guide states the same order
    path = os.path.join(REPO, "doc/user_guide/gocean1p0.rst")
    if os.path.exists(path):
        with open(path, encoding="utf-8") as fin:
            guide = fin.read()
        pos = [guide.find(w) for w in ("outer-start", "outer-stop",
                                       "inner-start", "inner-stop")]
        if min(pos) >= 0:
            run.check("C25.R2", pos == sorted(pos), "doc/user_guide",
                      "user guide gives the same field order",
                      "the user guide lists the bound fields in a different "
                      "order than add_bounds stores them",
                      "doc/user_guide/gocean1p0.rst:1")
    # config feeds every iteration-spaces line to add_bounds
    cmod = idx.module("src/psyclone/configuration.py")
    ctxt = cmod.text
    run.check("C25.R2", "GOLoop.add_bounds(it_space)" in ctxt or
              re.search(r"GOLoop\.add_bounds\(\w+\)", ctxt) is not None,
              "GOceanConfig.__init__", "every configured space is added",
              "the configuration no longer passes each iteration-space "
              "line to GOLoop.add_bounds", f"{cmod.relpath}:1")
    # custom bound string
    gfunc = cls.methods.get("get_custom_bound_string")
    gtxt = ast.unparse(gfunc)
    run.check("C25.R2", re.search(
        r"if self.loop_type == 'inner':\s+prop_access = "
        r"api_config.grid_properties\['go_grid_xstop'\]", gtxt) is not None
        and re.search(
            r"elif self.loop_type == 'outer':\s+prop_access = "
            r"api_config.grid_properties\['go_grid_ystop'\]", gtxt)
        is not None, "GOLoop.get_custom_bound_string",
        "inner uses xstop, outer uses ystop",
        "{stop} is no longer replaced by the x stop for the inner loop and "
        "the y stop for the outer loop", loc(mod, gfunc))
    run.check("C25.R2", "[self.index_offset][self.field_space]"
              "[self.iteration_space][self.loop_type][side]" in gtxt and
              "start='2'" in gtxt and "stop=stop_expr" in gtxt,
              "GOLoop.get_custom_bound_string",
              "looks up its own (offset, type, space, loop, side)",
              "the custom bound is not taken from the loop's own table "
              "entry with {start}=2 (first internal point) and {stop}=the "
              "grid stop", loc(mod, gfunc))


def check_bound_names(idx, run):
    cls = idx.get_class("psyclone.gocean1p0.GOLoop")
    mod = cls.module
    for meth, side in (("lower_bound", "start"), ("upper_bound", "stop")):
        func = cls.methods.get(meth)
        if func is None:
            raise AnalysisError(f"GOLoop.{meth} not found")
        txt = ast.unparse(func)
        for space, region in (("go_internal_pts", "internal"),
                              ("go_all_pts", "whole")):
            frag = f"go_grid_{region}_{{self._loop_type}}_{side}"
            cond = f"self.iteration_space.lower() == '{space}'"
            ok = False
            for stmt in ast.walk(func):
                if isinstance(stmt, ast.If) and ast.unparse(stmt.test) == \
                        cond:
                    ok = frag in ast.unparse(stmt)
            run.check("C25.R3", ok, f"GOLoop.{meth}",
                      f"{space} -> go_grid_{region}_<loop>_{side}",
                      f"for {space} the {side} bound is not taken from the "
                      f"grid property go_grid_{region}_<inner|outer>_{side}",
                      loc(mod, func))
        run.check("C25.R3", f"get_custom_bound_string('{side}')" in txt,
                  f"GOLoop.{meth}", "custom spaces use their own string",
                  f"user-defined iteration spaces no longer use the "
                  f"'{side}' string of their table entry", loc(mod, func))
    # shipped configuration
    path = os.path.join(REPO, "config/psyclone.cfg")
    if not os.path.exists(path):
        raise AnalysisError("config/psyclone.cfg not found")
    with open(path, encoding="utf-8") as fin:
        cfg = fin.read()
    for region in ("internal", "whole"):
        for loop, axis in (("inner", "x"), ("outer", "y")):
            for side in ("start", "stop"):
                name = f"go_grid_{region}_{loop}_{side}"
                mat = re.search(name + r":\s*([^:]+):", cfg)
                want = f"%%{region}%%{axis}{side}"
                run.check("C25.R3", mat is not None and
                          mat.group(1).strip().endswith(want),
                          "config/psyclone.cfg", name,
                          f"{name} is mapped to "
                          f"'{mat.group(1).strip() if mat else None}', "
                          f"expected ...{want} (inner = x, outer = y)",
                          "config/psyclone.cfg:1")
    for name, want in (("go_grid_xstop", "internal%%xstop"),
                       ("go_grid_ystop", "internal%%ystop")):
        mat = re.search(name + r":\s*([^:]+):", cfg)
        run.check("C25.R3", mat is not None and
                  mat.group(1).strip().endswith(want),
                  "config/psyclone.cfg", name,
                  f"{name} is mapped to "
                  f"'{mat.group(1).strip() if mat else None}'",
                  "config/psyclone.cfg:1")
    # loop nest order: outer around inner
    fcls = idx.get_class("psyclone.gocean1p0.GOKernCallFactory")
    cfunc = fcls.methods.get("create")
    ctxt = ast.unparse(cfunc)
    run.check("C25.R3", "outer_loop.loop_body.addchild(inner_loop)" in ctxt
              and "inner_loop.loop_body.addchild(gocall)" in ctxt,
              "GOKernCallFactory.create", "outer(j) around inner(i)",
              "the kernel call is no longer wrapped in inner inside outer",
              loc(fcls.module, cfunc))


ALLOWED_WRITERS = {
    "src/psyclone/domain/gocean/kernel/psyir.py":
        "kernel *metadata* objects (their index_offset field is the parsed "
        "metadata value, not a loop attribute)",
    "src/psyclone/gocean1p0.py": "GOLoop itself / the kernel-call factory",
    "src/psyclone/domain/common/psylayer/psyloop.py":
        "base-class setters used by GOLoop",
    "src/psyclone/domain/gocean/transformations/"
    "gocean_move_iteration_boundaries_inside_kernel_trans.py":
        "moves the bounds into the kernel as a mask and loops over the "
        "whole field instead (documented purpose)",
    "src/psyclone/domain/gocean/transformations/"
    "gocean_const_loop_bounds_trans.py":
        "replaces property look-ups by the table entries (documented "
        "purpose)",
}


def check_writers(idx, run):
    fields = ("iteration_space", "field_space", "index_offset",
              "_iteration_space", "_field_space", "_index_offset",
              "loop_type", "_loop_type", "start_expr", "stop_expr",
              "step_expr")
    seen = 0
    for fmod, fcls, fn in idx.functions_iter():
        rel = fmod.relpath
        gocean = "gocean" in rel
        if not gocean:
            continue
        for sub in ast.walk(fn):
            if isinstance(sub, ast.Assign):
                for tgt in sub.targets:
                    if isinstance(tgt, ast.Attribute) and tgt.attr in fields:
                        seen += 1
                        owner = ast.unparse(tgt.value)
                        ok = rel in ALLOWED_WRITERS or (
                            owner == "self" and fcls is not None and
                            not idx.is_subclass(fcls, "Transformation"))
                        run.check(
                            "C25.R4", ok,
                            f"{fcls.name + '.' if fcls else ''}{fn.name}",
                            norm(sub),
                            f"'{norm(sub)}' changes the iteration region "
                            f"of a GOcean loop from code that is not in "
                            f"the reviewed set of bound writers",
                            loc(fmod, sub))
    run.floor("GOcean bound writers", seen, 8)


def check_store_unconditional(idx, run):
    """a (re-)definition of an iteration space always replaces the bounds"""
    from sa.obligations import skips_consult
    cls = idx.get_class("psyclone.gocean1p0.GOLoop")
    func = cls.methods.get("add_bounds")
    if func is None:
        raise AnalysisError("GOLoop.add_bounds not found")
    res = skips_consult(func, "'outer': {'start': data[3]")
    run.check("C25.R2", res is None, "GOLoop.add_bounds",
              "the bounds of a (re)defined iteration space are always stored",
              f"add_bounds can finish without storing the bounds it was "
              f"given ({res}): a second definition of an iteration space "
              f"(another configuration file in the same process, or an "
              f"override of a built-in region) is silently ignored and the "
              f"loops keep the first region", loc(cls.module, func))


def check_boundary_move(idx, run):
    """C25.R5: GOMoveIterationBoundariesInsideKernelTrans widens the loops
    around a kernel to the whole field and masks *that* kernel.  Every other
    kernel in the same loops would run outside its region, so the
    transformation must refuse loops that hold more than one kernel (or mask
    them all)."""
    cls = idx.get_class("GOMoveIterationBoundariesInsideKernelTrans")
    val = cls.methods.get("validate")
    app = cls.methods.get("apply")
    if not (val and app):
        raise AnalysisError("GOMoveIterationBoundariesInsideKernelTrans: "
                            "validate/apply not found")
    atxt = " ".join(ast.unparse(app).split())
    widens = "iteration_space = 'go_all_pts'" in atxt
    guard = False
    for st in ast.walk(val):
        if isinstance(st, ast.If) and "walk(GOKern)" in ast.unparse(st.test) \
                and "len(" in ast.unparse(st.test) and any(
                    isinstance(b, ast.Raise) for b in ast.walk(st)):
            guard = True
    masks_all = "for kern in" in atxt and "walk(GOKern)" in atxt
    run.check("C25.R5", (not widens) or guard or masks_all,
              "GOMoveIterationBoundariesInsideKernelTrans.validate",
              "loops shared with other kernels are refused",
              "the loops around the kernel are widened to all points but "
              "only the kernel the transformation was applied to is masked: "
              "after fusing two loops, the second kernel is called for every "
              "point of the field", loc(cls.module, val))
    dom_ok = "self.validate(node, options)" in atxt
    run.check("C25.R5", dom_ok,
              "GOMoveIterationBoundariesInsideKernelTrans.apply",
              "apply validates first", "apply no longer validates",
              loc(cls.module, app))



GUARDED = [
    ('GOMoveIterationBoundariesInsideKernelTrans', 'validate'),
    ('GOceanLoopFuseTrans', 'validate'),
]

def check(idx, run):
    run.explanation = __doc__
    from sa.guards import check_guards
    check_guards(idx, run, "C25.R6", GUARDED)
    check_envelope(idx, run)
    check_user_spaces(idx, run)
    check_bound_names(idx, run)
    check_writers(idx, run)
    check_boundary_move(idx, run)
    check_store_unconditional(idx, run)
    run.exhaustive = True
    run.assumptions = ["dl_esm_inf defines internal/whole regions as the "
                       "configuration names them"]
