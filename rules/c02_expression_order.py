"""C02 - written expressions keep the operation order of the PSyIR tree.

R1 optable     reader operator tables vs the Fortran standard; the writer's
               reverse map keeps the first token per operator, upper-cased.
R2 prectable   the literal precedence list vs the standard's levels.
R3 parens      the parenthesis decisions of binaryoperation_node /
               unaryoperation_node, extracted as complete decision tables
               over (operator, parent, position, grandparent, ...) and used to
               write every expression tree of a bounded shape; the text is
               re-parsed with a model of the Fortran 2008 expression grammar
               (R1002-R1022) and must give back the same tree.
R4 writable    every Operator member has a Fortran token.
"""
import ast
import re
from sa.index import AnalysisError, loc
from sa.paths import Evaluator, Raised, decision_table

LEVEL = "other"
MANIFEST = {
    "level": "other",
    "text": "The operator and precedence tables are extracted from the "
            "source and compared with the Fortran 2008 standard; the two "
            "writer functions that decide about parentheses are turned "
            "into complete decision tables (lazy finite-context evaluation "
            "of their guards, no PSyclone code is run) and every typed "
            "expression tree of bounded shape (all trees to depth 2, all "
            "chain-shaped trees to depth 4/5) is written with those tables "
            "and re-parsed with a model of the standard's expression "
            "grammar; the re-parsed tree must equal the original. Exhaustive "
            "over the stated finite domain, which covers every context the "
            "writer can distinguish (node, parent, grandparent, positions).",
    "note": "Decides operator tokens, precedence and grouping only. Literal "
            "text, intrinsic calls, array / structure accesses and the "
            "reader's own handling beyond its operator tables are not "
            "decided. `==` between nodes in the writer is modelled as "
            "identity (structural equality can only add parentheses). "
            "Trusted: the transcription of F2008 R1002-R1022 in this rule.",
    "technique": "table extraction + decision-table extraction over a lazy "
                 "finite context + exhaustive bounded enumeration checked "
                 "against a grammar model",
}
WR = "src/psyclone/psyir/backend/fortran.py"
RD = "src/psyclone/psyir/frontend/fparser2.py"

# Fortran 2008: token -> PSyIR operator (R1003-R1020, 7.1.3)
STD_BINARY = {
    "+": "ADD", "-": "SUB", "*": "MUL", "/": "DIV", "**": "POW",
    "==": "EQ", ".eq.": "EQ", "/=": "NE", ".ne.": "NE", "<": "LT",
    ".lt.": "LT", "<=": "LE", ".le.": "LE", ">": "GT", ".gt.": "GT",
    ">=": "GE", ".ge.": "GE", ".and.": "AND", ".or.": "OR",
    ".eqv.": "EQV", ".neqv.": "NEQV"}
STD_UNARY = {"+": "PLUS", "-": "MINUS", ".not.": "NOT"}
# precedence levels, lowest first (7.1.3 Table 7.1)
STD_LEVELS = [
    {".EQV.", ".NEQV."}, {".OR."}, {".AND."}, {".NOT."},
    {".EQ.", ".NE.", ".LT.", ".LE.", ".GT.", ".GE.", "==", "/=", "<", "<=",
     ">", ">="},
    {"//"}, {"+", "-"}, {"*", "/"}, {"**"}]

ARITH = ("ADD", "SUB", "MUL", "DIV", "POW")
RELAT = ("EQ", "NE", "GT", "LT", "GE", "LE")
LOGIC = ("AND", "OR", "EQV", "NEQV")


# ----------------------------------------------------------------------
def extract_tables(idx, run):
    rmod = idx.module(RD)
    rcls = idx.get_class("psyclone.psyir.frontend.fparser2.Fparser2Reader")
    tables = {}
    for name in ("unary_operators", "binary_operators"):
        if name not in rcls.attrs:
            raise AnalysisError(f"Fparser2Reader.{name} not found")
        val = rcls.attrs[name]
        if not (isinstance(val, ast.Call) and val.args and
                isinstance(val.args[0], ast.List)):
            raise AnalysisError(f"Fparser2Reader.{name} is not a literal "
                                f"OrderedDict([...])")
        pairs = []
        for elt in val.args[0].elts:
            tok = elt.elts[0].value
            oper = ast.unparse(elt.elts[1]).split(".")[-1]
            pairs.append((tok, oper))
        tables[name] = pairs
    # R1: tokens vs the standard
    for name, std in (("unary_operators", STD_UNARY),
                      ("binary_operators", STD_BINARY)):
        for tok, oper in tables[name]:
            run.check("C02.R1", std.get(tok.lower()) == oper,
                      f"Fparser2Reader.{name}", f"'{tok}' -> {oper}",
                      f"the Fortran token '{tok}' is mapped to {oper}; the "
                      f"standard says {std.get(tok.lower())}",
                      loc(rmod, rcls.attrs[name]))
        missing = set(std) - {t.lower() for t, _ in tables[name]}
        run.check("C02.R1", not missing, f"Fparser2Reader.{name}",
                  "all standard tokens present",
                  f"standard operator tokens {sorted(missing)} are not in "
                  f"the reader table", loc(rmod, rcls.attrs[name]))
    return tables


def extract_reverse_map(idx, run, tables):
    """Emulates FortranWriter.__init__ + _reverse_map after checking their
    shape.  -> {(kind, OPER): TOKEN}"""
    wmod = idx.module(WR)
    wcls = idx.get_class("psyclone.psyir.backend.fortran.FortranWriter")
    init = wcls.methods.get("__init__")
    rev = wcls.methods.get("_reverse_map")
    geto = wcls.methods.get("get_operator")
    if not (init and rev and geto):
        raise AnalysisError("FortranWriter.__init__/_reverse_map/"
                            "get_operator not found")
    order = []
    for call in sorted((c for c in ast.walk(init) if isinstance(c, ast.Call)
                        and ast.unparse(c.func) == "self._reverse_map"),
                       key=lambda c: c.lineno):
        order.append(ast.unparse(call.args[1]).split(".")[-1])
        run.check("C02.R1", ast.unparse(call.args[0]) ==
                  "self._operator_2_str", "FortranWriter.__init__",
                  f"reverse map filled from {order[-1]}",
                  "the reversed table is not stored in _operator_2_str",
                  loc(wmod, call))
    run.check("C02.R1", sorted(order) == ["binary_operators",
                                          "unary_operators"],
              "FortranWriter.__init__", "both reader tables reversed",
              f"the writer reverses {order}, expected the unary and the "
              f"binary reader tables", loc(wmod, init))
    # shape of _reverse_map: for k in op_map: if op_map[k] not in rd:
    #     rd[op_map[k]] = k.upper()
    txt = ast.unparse(rev)
    fors = [s for s in rev.body if isinstance(s, ast.For)]
    shape = len(fors) == 1
    keeps_first = upper = False
    if shape:
        for stmt in ast.walk(fors[0]):
            if isinstance(stmt, ast.If) and isinstance(stmt.test,
                                                       ast.Compare) and \
                    isinstance(stmt.test.ops[0], ast.NotIn) and \
                    ast.unparse(stmt.test.comparators[0]) == \
                    rev.args.args[0].arg:
                keeps_first = True
                for sub in stmt.body:
                    if isinstance(sub, ast.Assign) and \
                            ast.unparse(sub.value).endswith(".upper()"):
                        upper = True
    run.check("C02.R1", shape and keeps_first and upper,
              "FortranWriter._reverse_map", "first token, upper-cased",
              "the reverse map must keep the first Fortran token of every "
              "operator (guarded by `not in`) in upper case, otherwise "
              "writer(reader(op)) is not the identity on operators",
              loc(wmod, rev))
    run.check("C02.R1", ast.unparse(geto.body[-1]) ==
              "return self._operator_2_str[operator]",
              "FortranWriter.get_operator", "plain lookup",
              "get_operator is no longer a lookup in the reversed table",
              loc(wmod, geto))
    mapping = {}
    for name in order:
        kind = "un" if name.startswith("unary") else "bin"
        for tok, oper in tables[name]:
            mapping.setdefault((kind, oper), tok.upper())
    return mapping


def extract_precedence(idx, run):
    wmod = idx.module(WR)
    func = wmod.functions.get("precedence")
    if func is None:
        raise AnalysisError("precedence() not found")
    def is_table(node):
        return isinstance(node, ast.List) and len(node.elts) >= 5 and all(
            isinstance(lvl, ast.List) and lvl.elts and all(
                isinstance(e, ast.Constant) and isinstance(e.value, str)
                for e in lvl.elts) for lvl in node.elts)

    table = None
    idiom = None
    for stmt in ast.walk(func):
        if is_table(stmt):
            table = stmt
    txt = ast.unparse(func)
    if table is not None:
        # for sub in T: if op in sub: return T.index(sub) ; raise KeyError
        idiom = "index-of-level" if ".index(" in txt and \
            "raise KeyError" in txt else None
    else:
        # module-level table referenced from the function
        used = {n.id for n in ast.walk(func) if isinstance(n, ast.Name)}
        for name in sorted(used):
            val = wmod.assigns.get(name)
            if val is None:
                continue
            inner = [n for n in ast.walk(val) if is_table(n)]
            if not inner:
                continue
            table = inner[0]
            arg = func.args.args[0].arg
            # {oper: level for level, L in enumerate(T) for oper in L}
            if isinstance(val, ast.DictComp) and \
                    len(val.generators) == 2 and \
                    ast.unparse(val.generators[0].iter).startswith(
                        "enumerate(") and \
                    isinstance(val.generators[0].target, ast.Tuple) and \
                    ast.unparse(val.value) == ast.unparse(
                        val.generators[0].target.elts[0]) and \
                    ast.unparse(val.key) == ast.unparse(
                        val.generators[1].target) and \
                    ast.unparse(val.generators[1].iter) == ast.unparse(
                        val.generators[0].target.elts[1]) and \
                    f"return {name}[{arg}]" in txt:
                idiom = "level-dict"
            elif val is table and ".index(" in txt:
                idiom = "index-of-level"
    if table is None:
        raise AnalysisError("precedence(): literal table of operator "
                            "levels not found")
    levels = [[e.value for e in lvl.elts] for lvl in table.elts]
    run.check("C02.R2", idiom is not None, "precedence",
              "result is the index of the level",
              "precedence() no longer returns the position of the level "
              "that contains the operator (recognised idioms: index of the "
              "sub-list, or a {operator: level} dictionary built with "
              "enumerate)", loc(wmod, func))
    lists = [table]
    got = [set(lvl) for lvl in levels]
    for k, std in enumerate(STD_LEVELS):
        have = got[k] if k < len(got) else set()
        run.check("C02.R2", have == std, "precedence",
                  f"level {k}: {sorted(std)}",
                  f"precedence level {k} is {sorted(have)}; Fortran 2008 "
                  f"(7.1.3) has {sorted(std)} at that level",
                  loc(wmod, table))
    run.check("C02.R2", len(got) == len(STD_LEVELS), "precedence",
              "number of levels", f"{len(got)} precedence levels, the "
              f"standard has {len(STD_LEVELS)}", loc(wmod, table))
    prec = {}
    for k, lvl in enumerate(levels):
        for tok in lvl:
            prec.setdefault(tok, k)
    return prec


def extract_enums(idx, run, mapping):
    omod = idx.module("src/psyclone/psyir/nodes/operation.py")
    enums = {}
    for cname, kind in (("UnaryOperation", "un"), ("BinaryOperation", "bin")):
        cls = omod.classes.get(cname)
        if cls is None or "Operator" not in cls.attrs:
            raise AnalysisError(f"{cname}.Operator not found")
        val = cls.attrs["Operator"]
        members = [e.value for e in val.args[1].elts]
        enums[kind] = members
        for mem in members:
            run.check(
                "C02.R4", (kind, mem) in mapping, f"{cname}.Operator",
                f"{mem} has a Fortran token",
                f"the PSyIR operator {cname}.Operator.{mem} has no Fortran "
                f"token in the reader tables, so the writer raises "
                f"VisitorError for any expression that contains it",
                loc(omod, val))
    return enums


# ----------------------------------------------------------------------
class MN:
    """Model node at `level` (0 = the node being written, 1 = its parent,
    2 = the grandparent)."""
    def __init__(self, level):
        self.level = level

    def __eq__(self, other):
        return isinstance(other, MN) and other.level == self.level

    def __hash__(self):
        return hash(("MN", self.level))


class Other:
    """The sibling of the model node at `level`."""
    def __init__(self, level=None):
        self.level = level


class Children:
    def __init__(self, level):
        self.level = level


class ChildSlot:
    def __init__(self, k):
        self.k = k


class OpVal:
    def __init__(self, kind, name):
        self.kind = kind
        self.name = name


class WriterEval(Evaluator):
    def __init__(self, ctx, mapping, prec, enums):
        super().__init__(ctx)
        self.mapping = mapping
        self.prec = prec
        self.enums = enums
        self.env["node"] = MN(0)
        self.env["self"] = "self"

    def kind(self, level):
        if level == 0:
            return self.ctx["k0"]
        if level > 2:
            raise AnalysisError("the writer looks beyond the grandparent: "
                                "the context model needs extending")
        below = self.kind(level - 1)
        if below in ("none", "other"):
            return "none"
        return self.fact(f"k{level}", ["none", "other", "un", "bin"])

    def pos(self, level):
        """position of the node at `level` inside its parent"""
        pkind = self.kind(level + 1)
        if pkind == "un":
            return 0
        return self.fact(f"p{level}", [0, 1])

    def attribute(self, value, attr, node):
        if isinstance(value, MN):
            if attr == "parent":
                kind = self.kind(value.level + 1)
                return None if kind == "none" else MN(value.level + 1)
            if attr == "operator":
                kind = self.kind(value.level)
                if kind not in ("un", "bin"):
                    raise Raised("AttributeError")
                name = self.fact(f"o{value.level}", self.enums[kind])
                return OpVal(kind, name)
            if attr == "children":
                return Children(value.level)
        raise AnalysisError(f"unsupported attribute '.{attr}' in "
                            f"'{ast.unparse(node)}'")

    def subscript(self, value, index, node):
        if isinstance(value, Children):
            if value.level == 0:
                return ChildSlot(index)
            # child `index` of an ancestor: is it the node below?
            below = value.level - 1
            return MN(below) if self.pos(below) == index else Other(below)
        raise AnalysisError("unsupported subscript")

    def isinstance_of(self, value, clsnames):
        if value is None or isinstance(value, Other):
            return False
        if not isinstance(value, MN):
            raise AnalysisError("isinstance on a non-node value")
        kind = self.kind(value.level)
        for name in clsnames:
            if name == "Operation" and kind in ("un", "bin"):
                return True
            if name == "UnaryOperation" and kind == "un":
                return True
            if name == "BinaryOperation" and kind == "bin":
                return True
            if name not in ("Operation", "UnaryOperation",
                            "BinaryOperation"):
                raise AnalysisError(f"isinstance test against '{name}'")
        return False

    def call(self, fname, args, node):
        if fname == "self._visit" and isinstance(args[0], ChildSlot):
            return f"\x00{args[0].k}\x00"
        if fname == "self.get_operator" and isinstance(args[0], OpVal):
            tok = self.mapping.get((args[0].kind, args[0].name))
            if tok is None:
                raise Raised("KeyError")
            return tok
        if fname.endswith(".children.index") and len(args) == 1 and \
                isinstance(args[0], MN):
            # list.index uses == (structural equality of nodes)
            level = args[0].level
            owner = self.eval(node.func.value)
            if isinstance(owner, Children) and owner.level == level + 1:
                if self.pos(level) == 0:
                    return 0
                return 0 if self.sibling_equal(level) else 1
        if fname == "precedence":
            if args[0] not in self.prec:
                raise Raised("KeyError")
            return self.prec[args[0]]
        raise AnalysisError(f"unsupported call '{fname}'")

    def sibling_equal(self, level):
        """is the sibling of the node at `level` structurally equal to it
        (Node.__eq__ is structural)?"""
        return self.fact(f"e{level}", [False, True])

    def compare(self, oper, left, right):
        if isinstance(oper, ast.Eq):
            for one, two in ((left, right), (right, left)):
                if isinstance(one, MN) and isinstance(two, Other) and \
                        two.level == one.level:
                    return self.sibling_equal(one.level)
        if isinstance(oper, ast.NotEq):
            for one, two in ((left, right), (right, left)):
                if isinstance(one, MN) and isinstance(two, Other) and \
                        two.level == one.level:
                    return not self.sibling_equal(one.level)
        if isinstance(oper, (ast.Eq, ast.Is)) and (
                isinstance(left, (MN, Other)) or
                isinstance(right, (MN, Other))):
            return isinstance(left, MN) and isinstance(right, MN) and \
                left.level == right.level
        if isinstance(oper, (ast.NotEq, ast.IsNot)) and (
                isinstance(left, (MN, Other)) or
                isinstance(right, (MN, Other))):
            return not self.compare(ast.Eq(), left, right)
        return super().compare(oper, left, right)


def extract_decisions(idx, run, mapping, prec, enums):
    wcls = idx.get_class("psyclone.psyir.backend.fortran.FortranWriter")
    tables = {}
    for kind, meth in (("bin", "binaryoperation_node"),
                       ("un", "unaryoperation_node")):
        func = wcls.methods.get(meth)
        if func is None:
            raise AnalysisError(f"FortranWriter.{meth} not found")
        rows = decision_table(
            func, lambda ctx: WriterEval(ctx, mapping, prec, enums),
            {"k0": kind})
        tables[kind] = rows
        run.count(f"decision rows of {meth}", len(rows))
    return tables


# ----------------------------------------------------------------------
class T:
    """Expression tree: ('leaf', name) | ('un', OP, child) |
    ('bin', OP, left, right) as tuples."""


def facts_of(path):
    """path: list of (tree, position-in-parent) from node upwards."""
    ctx = {}
    for level, (tree, pos) in enumerate(path):
        kind = tree[0] if tree[0] in ("un", "bin") else "other"
        ctx[f"k{level}"] = kind
        if kind in ("un", "bin"):
            ctx[f"o{level}"] = tree[1]
        if pos is not None:
            ctx[f"p{level}"] = pos
            if level + 1 < len(path):
                par = path[level + 1][0]
                ctx[f"e{level}"] = par[0] == "bin" and par[2] == par[3]
    ctx[f"k{len(path)}"] = "none"
    return ctx


class Writer:
    def __init__(self, tables):
        self.tables = tables
        self.cache = {}
        self._index = {}

    def rows_for(self, kind, oper):
        key = (kind, oper)
        if key not in self._index:
            self._index[key] = [
                (c, o) for c, o in self.tables[kind]
                if c.get("o0", oper) == oper]
        return self._index[key]

    def decide(self, kind, path):
        ctx = facts_of(path[:3])
        if len(path) > 3:
            ctx.pop("k3", None)
        key = (kind,) + tuple(sorted((k, str(v)) for k, v in ctx.items()))
        if key in self.cache:
            return self.cache[key]
        for row_ctx, outcome in self.rows_for(kind, ctx.get("o0")):
            if all(ctx.get(k, "none" if k.startswith("k") else None) == v
                   for k, v in row_ctx.items()):
                self.cache[key] = outcome
                return outcome
        raise AnalysisError(f"no decision row matches context {ctx}")

    def write(self, tree, pos, anc, where=(), force=None):
        """pos: position of `tree` in its parent (None at the root);
        anc: [(ancestor, its own position), ...] from the parent upwards;
        where: path of child indices from the root; force: a path whose
        node is parenthesised regardless of the decision (used only to
        locate the culprit of a failure)."""
        if tree[0] == "leaf":
            return tree[1]
        chain = [(tree, pos)] + anc
        outcome = self.decide(tree[0], chain)
        if outcome[0] == "raise":
            raise Unwritable(outcome[1])
        out = outcome[1]
        if force and where in force and not (out.startswith("(") and
                                             out.endswith(")")):
            out = f"({out})"
        for k, kid in enumerate(tree[2:]):
            out = out.replace(f"\x00{k}\x00",
                              self.write(kid, k, chain, where + (k,), force))
        return out

    def top(self, tree, force=None):
        return self.write(tree, None, [], (), force)


class Unwritable(Exception):
    pass


# ---- Fortran 2008 expression grammar model ------------------------------
TOKEN = re.compile(r"\s*(\*\*|==|/=|<=|>=|//|\.[A-Za-z]+\.|[-+*/<>()]|"
                   r"[A-Za-z_][A-Za-z0-9_]*)")


class ParseError(Exception):
    pass


class Parser:
    REL = {"==": "EQ", "/=": "NE", "<": "LT", "<=": "LE", ">": "GT",
           ">=": "GE", ".EQ.": "EQ", ".NE.": "NE", ".LT.": "LT",
           ".LE.": "LE", ".GT.": "GT", ".GE.": "GE"}

    def __init__(self, text):
        self.toks = []
        pos = 0
        text = text.strip()
        while pos < len(text):
            mat = TOKEN.match(text, pos)
            if not mat:
                raise ParseError(f"bad character at {pos}")
            self.toks.append(mat.group(1).upper()
                             if mat.group(1).startswith(".")
                             else mat.group(1))
            pos = mat.end()
        self.i = 0

    def peek(self):
        return self.toks[self.i] if self.i < len(self.toks) else None

    def take(self):
        tok = self.peek()
        self.i += 1
        return tok

    def parse(self):
        tree = self.level5()
        if self.peek() is not None:
            raise ParseError(f"unexpected '{self.peek()}'")
        return tree

    def level5(self):                      # equiv
        left = self.equiv_operand()
        while self.peek() in (".EQV.", ".NEQV."):
            oper = self.take()
            left = ("bin", oper.strip("."), left, self.equiv_operand())
        return left

    def equiv_operand(self):               # .OR.
        left = self.or_operand()
        while self.peek() == ".OR.":
            self.take()
            left = ("bin", "OR", left, self.or_operand())
        return left

    def or_operand(self):                  # .AND.
        left = self.and_operand()
        while self.peek() == ".AND.":
            self.take()
            left = ("bin", "AND", left, self.and_operand())
        return left

    def and_operand(self):                 # [.NOT.] level-4
        if self.peek() == ".NOT.":
            self.take()
            return ("un", "NOT", self.level4())
        return self.level4()

    def level4(self):                      # level-3 [rel level-3]
        left = self.level3()
        if self.peek() in self.REL:
            oper = self.REL[self.take()]
            left = ("bin", oper, left, self.level3())
        return left

    def level3(self):                      # concat (not in PSyIR)
        return self.level2()

    def level2(self):                      # [sign] add-operand {+- ...}
        if self.peek() in ("+", "-"):
            sign = self.take()
            left = ("un", "MINUS" if sign == "-" else "PLUS",
                    self.add_operand())
        else:
            left = self.add_operand()
        while self.peek() in ("+", "-"):
            oper = self.take()
            left = ("bin", "ADD" if oper == "+" else "SUB", left,
                    self.add_operand())
        return left

    def add_operand(self):                 # mult-operand {*/ mult-operand}
        left = self.mult_operand()
        while self.peek() in ("*", "/"):
            oper = self.take()
            left = ("bin", "MUL" if oper == "*" else "DIV", left,
                    self.mult_operand())
        return left

    def mult_operand(self):                # level-1 [** mult-operand]
        left = self.primary()
        if self.peek() == "**":
            self.take()
            return ("bin", "POW", left, self.mult_operand())
        return left

    def primary(self):
        tok = self.take()
        if tok is None:
            raise ParseError("unexpected end")
        if tok == "(":
            inner = self.level5()
            if self.take() != ")":
                raise ParseError("missing )")
            return inner
        if re.match(r"[A-Za-z_]", tok) and not tok.startswith("."):
            return ("leaf", tok)
        raise ParseError(f"unexpected '{tok}'")


# ---- typed tree enumeration -------------------------------------------
def result_type(oper, kind):
    if kind == "un":
        return "L" if oper == "NOT" else "N"
    if oper in ARITH:
        return "N"
    return "L"


def operand_type(oper, kind):
    if kind == "un":
        return "L" if oper == "NOT" else "N"
    if oper in ARITH or oper in RELAT:
        return "N"
    return "L"


def gen_full(depth, typ, enums, memo):
    """all trees of result type `typ` with operator depth <= depth"""
    key = ("full", depth, typ)
    if key in memo:
        return memo[key]
    out = [("leaf", "a" if typ == "N" else "p")]
    if depth > 0:
        for oper in enums["un"]:
            if result_type(oper, "un") == typ:
                for kid in gen_full(depth - 1, operand_type(oper, "un"),
                                    enums, memo):
                    out.append(("un", oper, kid))
        for oper in enums["bin"]:
            if oper == "REM" or result_type(oper, "bin") != typ:
                continue
            kids = gen_full(depth - 1, operand_type(oper, "bin"), enums,
                            memo)
            for left in kids:
                for right in kids:
                    out.append(("bin", oper, left, right))
    memo[key] = out
    return out


def gen_chain(depth, typ, enums, memo):
    """chain-shaped trees: every binary node has at most one non-leaf
    child"""
    key = ("chain", depth, typ)
    if key in memo:
        return memo[key]
    leaf = ("leaf", "a" if typ == "N" else "p")
    out = [leaf]
    if depth > 0:
        for oper in enums["un"]:
            if result_type(oper, "un") == typ:
                for kid in gen_chain(depth - 1, operand_type(oper, "un"),
                                     enums, memo):
                    out.append(("un", oper, kid))
        for oper in enums["bin"]:
            if oper == "REM" or result_type(oper, "bin") != typ:
                continue
            otyp = operand_type(oper, "bin")
            oleaf = ("leaf", "b" if otyp == "N" else "q")
            for kid in gen_chain(depth - 1, otyp, enums, memo):
                out.append(("bin", oper, kid, oleaf))
                if kid[0] != "leaf":
                    out.append(("bin", oper, oleaf, kid))
    memo[key] = out
    return out


def first_difference(orig, got, path="root"):
    """-> description of the first structural difference"""
    if orig[0] != got[0] or (orig[0] != "leaf" and orig[1] != got[1]):
        return path, orig, got
    if orig[0] == "leaf":
        return None
    for k, (left, right) in enumerate(zip(orig[2:], got[2:])):
        diff = first_difference(left, right, f"{path}.{k}")
        if diff:
            return diff
    return None


def label(tree):
    if tree[0] == "leaf":
        return "leaf"
    return tree[1]


def describe(tree):
    if tree[0] == "leaf":
        return tree[1]
    if tree[0] == "un":
        return f"{tree[1]}({describe(tree[2])})"
    return f"{tree[1]}({describe(tree[2])},{describe(tree[3])})"


def nodes_of(tree, where=()):
    if tree[0] == "leaf":
        return
    yield where, tree
    for k, kid in enumerate(tree[2:]):
        yield from nodes_of(kid, where + (k,))


def subtree(tree, where):
    for k in where:
        tree = tree[2 + k]
    return tree


def roundtrips(tree, text):
    try:
        return Parser(text).parse() == tree
    except ParseError:
        return False


def failure_classes(writer, tree, text):
    """Locate the culprits: a smallest set of nodes (deepest first) whose
    parenthesisation repairs the round trip.  One class per culprit =
    failure kind + the culprit's operator, its position and its parent's
    operator."""
    import itertools
    cands = [w for w, _ in sorted(nodes_of(tree), key=lambda x: -len(x[0]))
             if w]
    for size in (1, 2, 3):
        for combo in itertools.combinations(cands, size):
            if roundtrips(tree, writer.top(tree, force=frozenset(combo))):
                out = []
                for where in combo:
                    others = frozenset(c for c in combo if c != where)
                    partial = writer.top(tree, force=others)
                    try:
                        Parser(partial).parse()
                        kind = "regroup"
                    except ParseError:
                        kind = "invalid"
                    node = subtree(tree, where)
                    parent = subtree(tree, where[:-1])
                    ctx = f"{label(node)} as operand {where[-1]} of " \
                          f"{label(parent)}"
                    if len(where) >= 2:
                        gpar = subtree(tree, where[:-2])
                        ctx += f" (itself operand {where[-2]} of " \
                               f"{label(gpar)})"
                    else:
                        ctx += " (at the top)"
                    out.append(f"{kind}:{ctx} is written without "
                               f"parentheses")
                return out
    return [f"unclassified:{label(tree)}"
            f"[{','.join(label(k) for k in tree[2:])}]"]


def check_grouping(idx, run, tables, enums, depth_full, depth_chain):
    writer = Writer(tables)
    memo = {}
    trees = []
    for typ in ("N", "L"):
        trees += gen_full(depth_full, typ, enums, memo)
        trees += gen_chain(depth_chain, typ, enums, memo)
    seen = set()
    classes = {}
    ntrees = 0
    for tree in trees:
        if tree[0] == "leaf" or tree in seen:
            continue
        seen.add(tree)
        ntrees += 1
        try:
            text = writer.top(tree)
        except Unwritable:
            continue
        try:
            got = Parser(text).parse()
            same = got == tree
        except ParseError:
            same = False
        if not same:
            for fcls in failure_classes(writer, tree, text):
                ent = classes.setdefault(fcls, [])
                if len(ent) < 3:
                    ent.append((describe(tree), text))
    run.count("expression trees written and re-parsed", ntrees)
    wmod = idx.module(WR)
    for fcls in sorted(classes):
        example = classes[fcls][0]
        kind = "is not standard Fortran (a sign follows an operator)" \
            if fcls.startswith("invalid") else \
            "re-parses with a different grouping"
        run.check(
            "C02.R3", False, "FortranWriter.operation writers", fcls,
            f"the tree {example[0]} is written '{example[1]}', which "
            f"{kind}", f"{wmod.relpath}:1",
            sample={"rule": "C02.R3", "class": fcls,
                    "examples": classes[fcls]})
    run.ob("C02.R3", True, {"rule": "C02.R3", "trees": ntrees,
                            "failing_classes": len(classes),
                            "depth_full": depth_full,
                            "depth_chain": depth_chain})
    run.extra["grouping_domain"] = {
        "full_depth": depth_full, "chain_depth": depth_chain,
        "trees": ntrees}
    run.exhaustive = True


def check(idx, run, depth_full=2, depth_chain=3):
    run.explanation = __doc__
    tables = extract_tables(idx, run)
    mapping = extract_reverse_map(idx, run, tables)
    prec = extract_precedence(idx, run)
    enums = extract_enums(idx, run, mapping)
    # tokens used by the writer must have a precedence
    for (kind, oper), tok in sorted(mapping.items()):
        run.check("C02.R2", tok in prec, "precedence",
                  f"token {tok} has a level",
                  f"the writer's token '{tok}' for {oper} has no entry in "
                  f"the precedence table (KeyError -> VisitorError)",
                  f"{WR}:1")
    dtables = extract_decisions(idx, run, mapping, prec, enums)
    check_grouping(idx, run, dtables, enums, depth_full, depth_chain)
    run.assumptions = [
        "F2008 R1002-R1022 as transcribed in Parser",
        "`==` between nodes in the writer modelled as identity",
        "literals, intrinsics, array and structure accesses are primaries "
        "(not decided here)"]


def check_thorough(idx, run):
    # deeper chains; the decision tables are context-bounded (grandparent),
    # so depth 5 chains add the sign-after-operator contexts two levels up
    tables = extract_tables(idx, Run0())
    mapping = extract_reverse_map(idx, Run0(), tables)
    prec = extract_precedence(idx, Run0())
    enums = extract_enums(idx, Run0(), mapping)
    dtables = extract_decisions(idx, Run0(), mapping, prec, enums)
    check_grouping(idx, run, dtables, enums, 2, 5)


class Run0:
    """sink used when a helper is re-run only for its return value"""
    def check(self, *a, **k):
        return True

    def ob(self, *a, **k):
        return True

    def count(self, *a, **k):
        pass

    def note(self, *a, **k):
        pass
