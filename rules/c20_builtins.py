"""C20 - LFRic built-ins compute their documented operations.

R1 formula       for every built-in class: the assignment built by
                 lower_to_language_level (symbolically evaluated to
                 `lhs := expr` over argument *positions*) equals the formula
                 given in the user guide for that built-in.
R2 access        the argument written by the code = the bold argument of the
                 documentation = the only argument with a write access in
                 metadata() = the same row in parse/lfric_builtins_mod.f90.
R3 reductions    gh_sum built-ins have the shape `s := s + E` (doc: SUM(E))
                 and are exactly the ones reported by is_reduction.
R4 dof-bounds    the loop bound chosen for a built-in (annexed DoFs only
                 with distributed memory, annexed computation on and not a
                 reduction) and the upper-bound expressions.
R5 completeness  code, documentation, BUILTIN_MAP and the Fortran metadata
                 file name the same built-ins.
R6 access-info   LFRicBuiltIn.reference_accesses reports every argument with
                 its metadata access unchanged (a gh_sum scalar stays a SUM:
                 the OpenMP data-sharing inference would make a WRITE scalar
                 private and lose the reduction).
R8 owned-dofs     Dynamo0p3RedundantComputationTrans refuses a loop that
                 contains a reduction (a sum over halo DoFs would count
                 shared DoFs more than once).
R7 fused-reductions  LFRicLoopFuseTrans.validate looks for reductions in all
                 kernels of both loops (a loop may already be a fused one).
"""
import ast
import os
import re
from sa.index import AnalysisError, loc, REPO
from sa.cfg import CFG

LEVEL = "other"
MANIFEST = {
    "level": "other",
    "text": "Exhaustive agreement check between three independently "
            "written descriptions of every built-in: the PSyIR that "
            "lower_to_language_level builds (extracted by symbolic "
            "evaluation of its body, no code is run), the formula and "
            "signature in the user guide, and the access metadata (Python "
            "and Fortran). The loop-bound decision for DoF loops is "
            "extracted as a decision table and compared with the annexed-"
            "DoF rule. Covers all built-ins and all settings combinations, "
            "where tests compare a few generated strings.",
    "note": "Execution on the LFRic infrastructure, precision (kind) "
            "arguments and the reproducible-sum option are not decided. "
            "The user guide is taken as the specification.",
    "technique": "symbolic evaluation of builder code to expression trees + "
                 "documentation parsing + tree comparison; decision-table "
                 "extraction for the bound rule + refusal-weakening check against the reviewed guard snapshot",
}
BI = "src/psyclone/domain/lfric/lfric_builtins.py"
DOC = "doc/user_guide/dynamo0p3.rst"
F90 = "src/psyclone/parse/lfric_builtins_mod.f90"
WRITE_ACCESSES = {"gh_write", "gh_readwrite", "gh_inc", "gh_sum",
                  "gh_readinc"}


# ---------------------------------------------------------------- code side
class Opaque:
    def __init__(self, text):
        self.text = text


def eval_builder(cls_name, func):
    """Symbolically evaluate a lower_to_language_level body.
    -> (lhs, rhs) expression tuples or raises AnalysisError."""
    env = {}

    def ev(node):
        if isinstance(node, ast.Name):
            if node.id in env:
                return env[node.id]
            return ("opaque", node.id)
        if isinstance(node, ast.Subscript):
            base = ev(node.value)
            if base in (("Flist",), ("Slist",)) and \
                    isinstance(node.slice, ast.Constant):
                return ("F" if base == ("Flist",) else "S",
                        node.slice.value)
            return ("opaque", ast.unparse(node))
        if isinstance(node, ast.Call):
            fname = ast.unparse(node.func)
            if fname == "self.get_indexed_field_argument_references":
                return ("Flist",)
            if fname == "self.get_scalar_argument_references":
                return ("Slist",)
            if fname == "self._reduction_reference":
                return ("RED",)
            if fname.endswith(".copy") and not node.args:
                return ev(node.func.value)
            if fname == "BinaryOperation.create":
                oper = ast.unparse(node.args[0]).split(".")[-1]
                return ("bin", oper, ev(node.args[1]), ev(node.args[2]))
            if fname == "UnaryOperation.create":
                oper = ast.unparse(node.args[0]).split(".")[-1]
                return ("un", oper, ev(node.args[1]))
            if fname == "IntrinsicCall.create":
                name = ast.unparse(node.args[0]).split(".")[-1]
                arglist = node.args[1]
                if isinstance(arglist, ast.List):
                    args = []
                    for elt in arglist.elts:
                        if isinstance(elt, ast.Tuple):
                            continue   # named argument (kind=...)
                        args.append(ev(elt))
                else:
                    base = ev(arglist)
                    args = [("F", "*")] if base == ("Flist",) else \
                        [("opaque", ast.unparse(arglist))]
                return ("call", name, tuple(args))
            if fname == "Literal":
                return ("lit", ast.unparse(node.args[0]).strip("'\""))
            return ("opaque", fname)
        if isinstance(node, ast.Attribute):
            return ("opaque", ast.unparse(node))
        if isinstance(node, ast.Constant):
            return ("lit", str(node.value))
        return ("opaque", ast.unparse(node)[:40])

    result = None
    for stmt in func.body:
        if isinstance(stmt, ast.Expr) and isinstance(stmt.value,
                                                     ast.Constant):
            continue
        if isinstance(stmt, ast.Assign) and len(stmt.targets) == 1 and \
                isinstance(stmt.targets[0], ast.Name):
            env[stmt.targets[0].id] = ev(stmt.value)
            continue
        if isinstance(stmt, ast.Return) and isinstance(stmt.value, ast.Call) \
                and ast.unparse(stmt.value.func) == \
                "self._replace_with_assignment":
            result = (ev(stmt.value.args[0]), ev(stmt.value.args[1]))
            break
        if isinstance(stmt, ast.Return) and isinstance(stmt.value, ast.Name) \
                and isinstance(env.get(stmt.value.id), tuple) and \
                env[stmt.value.id][0] == "call":
            # statement call (random_number): writes its argument
            call = env[stmt.value.id]
            result = (call[2][0] if call[2] else ("opaque", "?"), call)
            break
        if isinstance(stmt, (ast.Assign, ast.Expr, ast.If, ast.Import,
                             ast.ImportFrom)):
            continue   # comments, replace_with, precision bookkeeping
        raise AnalysisError(f"{cls_name}.lower_to_language_level: statement "
                            f"outside the builder subset: "
                            f"'{ast.unparse(stmt)[:50]}'")
    if result is None:
        raise AnalysisError(f"{cls_name}.lower_to_language_level: no "
                            f"assignment is built")
    return result


def metadata_rows(func):
    """[(kind 'field'|'scalar', access, datatype-text)] from metadata()"""
    rows = []
    for call in ast.walk(func):
        if isinstance(call, ast.Call) and ast.unparse(call.func) in (
                "FieldArgMetadata", "ScalarArgMetadata"):
            kind = "field" if ast.unparse(call.func).startswith("Field") \
                else "scalar"
            access = call.args[1].value if isinstance(
                call.args[1], ast.Constant) else ast.unparse(call.args[1])
            dtype = ast.unparse(call.args[0])
            rows.append((call.lineno, call.col_offset, kind, access, dtype))
    rows.sort()
    return [(k, a, d) for _l, _c, k, a, d in rows]


def to_positions(expr, rows):
    """Replace F k / S k by P<call position>."""
    fpos = [i for i, r in enumerate(rows) if r[0] == "field"]
    spos = [i for i, r in enumerate(rows) if r[0] == "scalar"]
    if expr[0] == "F":
        if expr[1] == "*":
            return ("P", fpos[0]) if len(fpos) == 1 else ("opaque", "F*")
        if expr[1] >= len(fpos):
            raise AnalysisError("field index beyond the metadata")
        return ("P", fpos[expr[1]])
    if expr[0] == "S":
        if expr[1] >= len(spos):
            raise AnalysisError("scalar index beyond the metadata")
        return ("P", spos[expr[1]])
    if expr[0] == "RED":
        red = [i for i, r in enumerate(rows) if r[1] == "gh_sum"]
        return ("P", red[0]) if red else ("opaque", "RED")
    if expr[0] == "bin":
        return ("bin", expr[1], to_positions(expr[2], rows),
                to_positions(expr[3], rows))
    if expr[0] == "un":
        return ("un", expr[1], to_positions(expr[2], rows))
    if expr[0] == "call":
        return ("call", expr[1], tuple(to_positions(a, rows)
                                       for a in expr[2]))
    return expr


def normalise(expr):
    """flatten and sort + and * chains"""
    if expr[0] == "bin":
        oper = expr[1]
        left, right = normalise(expr[2]), normalise(expr[3])
        if oper in ("ADD", "MUL"):
            items = []
            for side in (left, right):
                if side[0] == "nary" and side[1] == oper:
                    items += list(side[2])
                else:
                    items.append(side)
            return ("nary", oper, tuple(sorted(items, key=repr)))
        return ("bin", oper, left, right)
    if expr[0] == "un":
        return ("un", expr[1], normalise(expr[2]))
    if expr[0] == "call":
        return ("call", expr[1].upper(), tuple(normalise(a)
                                               for a in expr[2]))
    return expr


# ----------------------------------------------------------------- doc side
SECTION = re.compile(
    r"\n([A-Za-z_0-9]+)\n\^+\n\n\*\*\1\*\* \(([^)]*)\)\n(.*?)"
    r"(?=\n[A-Za-z_0-9]+\n\^+\n|\n[^\n]+\n#{3,}\n|\Z)", re.S)
DTOKEN = re.compile(r"\s*(\*\*|[-+*/(),=]|[A-Za-z_][A-Za-z0-9_<>]*|"
                    r"[0-9.]+(?:_[a-z_]+)?)")


class DocExpr:
    def __init__(self, text, names):
        text = text.replace("(:)", "").replace("(df)", "")
        self.toks = []
        pos = 0
        while pos < len(text):
            mat = DTOKEN.match(text, pos)
            if not mat:
                if text[pos:].strip() == "":
                    break
                raise AnalysisError(f"documentation formula: cannot "
                                    f"tokenise '{text[pos:pos+10]}'")
            self.toks.append(mat.group(1))
            pos = mat.end()
        self.i = 0
        self.names = names

    def peek(self):
        return self.toks[self.i] if self.i < len(self.toks) else None

    def take(self):
        tok = self.peek()
        self.i += 1
        return tok

    def expr(self):
        if self.peek() in ("+", "-"):
            sign = self.take()
            left = ("un", "MINUS" if sign == "-" else "PLUS", self.term())
        else:
            left = self.term()
        while self.peek() in ("+", "-"):
            oper = self.take()
            left = ("bin", "ADD" if oper == "+" else "SUB", left,
                    self.term())
        return left

    def term(self):
        left = self.power()
        while self.peek() in ("*", "/"):
            oper = self.take()
            left = ("bin", "MUL" if oper == "*" else "DIV", left,
                    self.power())
        return left

    def power(self):
        base = self.atom()
        if self.peek() == "**":
            self.take()
            return ("bin", "POW", base, self.power())
        return base

    def atom(self):
        tok = self.take()
        if tok == "(":
            inner = self.expr()
            if self.take() != ")":
                raise AnalysisError("documentation formula: missing )")
            return inner
        if tok is None:
            raise AnalysisError("documentation formula ends early")
        if re.match(r"[0-9.]", tok):
            return ("lit", tok)
        if self.peek() == "(" and tok not in self.names:
            self.take()
            args = []
            while self.peek() != ")":
                if self.peek() == ",":
                    self.take()
                    continue
                # named argument kind=...
                if self.i + 1 < len(self.toks) and \
                        self.toks[self.i + 1] == "=":
                    self.take()
                    self.take()
                    self.expr()
                    continue
                args.append(self.expr())
            self.take()
            return ("call", tok.upper(), tuple(args))
        if tok in self.names:
            return ("P", self.names.index(tok))
        return ("opaque", tok)


def parse_doc():
    path = os.path.join(REPO, DOC)
    if not os.path.exists(path):
        raise AnalysisError(f"{DOC} not found")
    with open(path, encoding="utf-8") as fin:
        text = fin.read()
    out = {}
    for mat in SECTION.finditer(text):
        name, args, body = mat.groups()
        arglist = [a.strip() for a in args.split(",")]
        names = [a.strip("*") for a in arglist]
        bold = [i for i, a in enumerate(arglist) if a.startswith("**")]
        blk = re.search(r"::\n\n((?:  .*\n?)+)", body)
        formula = blk.group(1).strip() if blk else None
        line = text[:mat.start(1)].count("\n") + 1
        out[name.lower()] = {"name": name, "names": names, "bold": bold,
                             "formula": formula, "line": line}
    return out


def doc_assignment(entry):
    formula = entry["formula"]
    if formula is None:
        raise AnalysisError(f"{entry['name']}: no formula block in the "
                            f"documentation")
    lines = [ln.strip() for ln in formula.splitlines() if "=" in ln and
             not ln.strip().lower().startswith("do ")]
    if not lines:
        raise AnalysisError(f"{entry['name']}: no assignment in the "
                            f"documented formula")
    lhs_txt, rhs_txt = lines[0].split("=", 1)
    names = entry["names"]
    lhs = DocExpr(lhs_txt, names).expr()
    rhs = DocExpr(rhs_txt, names).expr()
    return lhs, rhs


# Documented formulas that use a different notation than the code builds;
# each confirmed by reading.
DOC_EXCEPTIONS = {
    "setval_random": "the guide writes `field(df) = RAND()`; the code "
                     "calls the RANDOM_NUMBER intrinsic subroutine on the "
                     "field element (same meaning, statement form)",
}


def fortran_rows():
    """name(lower) -> [access,...] from parse/lfric_builtins_mod.f90"""
    path = os.path.join(REPO, F90)
    if not os.path.exists(path):
        raise AnalysisError(f"{F90} not found")
    with open(path, encoding="utf-8") as fin:
        text = fin.read()
    out = {}
    for mat in re.finditer(r"type, public, extends\(kernel_type\) :: "
                           r"(\w+)(.*?)end type \1", text, re.S | re.I):
        name, body = mat.groups()
        rows = re.findall(r"arg_type\(\s*(GH_\w+)\s*,\s*(GH_\w+)\s*,\s*"
                          r"(GH_\w+)", body, re.I)
        proc = re.search(r"procedure, nopass :: (\w+)", body, re.I)
        out[name.lower()] = {"rows": [(r[0].lower(), r[2].lower())
                                      for r in rows],
                             "proc": proc.group(1).lower() if proc else None}
    return out


# ------------------------------------------------------------------- rules
def builtin_classes(idx):
    base = idx.get_class(
        "psyclone.domain.lfric.lfric_builtins.LFRicBuiltIn")
    out = []
    for cls in idx.all_subclasses(base, include_self=False):
        res = idx.find_attr(cls, "_case_name")
        if "_case_name" in cls.attrs and isinstance(
                cls.attrs["_case_name"], ast.Constant) and \
                cls.attrs["_case_name"].value:
            out.append(cls)
    return out


def check_builtins(idx, run):
    mod = idx.module(BI)
    docs = parse_doc()
    ftn = fortran_rows()
    classes = builtin_classes(idx)
    run.floor("built-in classes", len(classes), 60)
    run.floor("documented built-ins", len(docs), 60)
    code_names = set()
    reductions_code = set()
    for cls in classes:
        name = cls.attrs["_case_name"].value
        code_names.add(name.lower())
        cons = f"{cls.name} ({name})"
        low = idx.find_method(cls, "lower_to_language_level")
        meta = idx.find_method(cls, "metadata")
        if low is None or meta is None:
            raise AnalysisError(f"{cls.name}: lower_to_language_level / "
                                f"metadata not found")
        rows = metadata_rows(meta[1])
        if not rows:
            raise AnalysisError(f"{cls.name}.metadata: no argument rows")
        lhs, rhs = eval_builder(cls.name, low[1])
        lhs_p = to_positions(lhs, rows)
        rhs_p = normalise(to_positions(rhs, rows))
        entry = docs.get(name.lower())
        where = loc(low[0].module, low[1])
        run.check("C20.R5", entry is not None, cons, "documented",
                  f"built-in '{name}' has no section in the user guide",
                  where)
        # R2 access: written position
        written = [i for i, r in enumerate(rows) if r[1] in WRITE_ACCESSES]
        run.check("C20.R2", len(written) == 1 and
                  lhs_p == ("P", written[0]), cons,
                  "code writes the argument that metadata marks as written",
                  f"metadata() marks positions {written} as written "
                  f"({[r[1] for r in rows]}) but the assignment writes "
                  f"{lhs_p}", where)
        if entry is None:
            continue
        run.check("C20.R2", entry["bold"] == written, cons,
                  "documentation marks the same argument as output",
                  f"the user guide prints argument(s) {entry['bold']} in "
                  f"bold (output) but metadata() says {written} is written",
                  f"{DOC}:{entry['line']}")
        run.check("C20.R2", len(entry["names"]) == len(rows), cons,
                  "same number of arguments as documented",
                  f"the user guide lists {len(entry['names'])} arguments, "
                  f"metadata() has {len(rows)}", f"{DOC}:{entry['line']}")
        # Fortran metadata file
        frow = ftn.get(name.lower())
        if frow is None:
            run.check("C20.R5", False, cons, "present in the Fortran "
                      "metadata file", f"'{name}' has no type in {F90}",
                      where)
        else:
            got = [acc for _k, acc in frow["rows"]]
            run.check("C20.R2", got == [r[1] for r in rows], cons,
                      "Fortran metadata has the same accesses",
                      f"{F90} declares accesses {got} for {name}, "
                      f"metadata() declares {[r[1] for r in rows]}", where)
            kinds = [("field" if k == "gh_field" else "scalar")
                     for k, _a in frow["rows"]]
            run.check("C20.R2", kinds == [r[0] for r in rows], cons,
                      "Fortran metadata has the same argument kinds",
                      f"{F90} declares {kinds}, metadata() "
                      f"{[r[0] for r in rows]}", where)
        # R3 reductions
        is_red = any(r[1] == "gh_sum" for r in rows)
        if is_red:
            reductions_code.add(name.lower())
            shape = rhs_p[0] == "nary" and rhs_p[1] == "ADD" and \
                lhs_p in rhs_p[2]
            run.check("C20.R3", shape, cons, "reduction accumulates: "
                      "s := s + E",
                      f"a gh_sum built-in must build `s = s + E`; found "
                      f"{lhs_p} := {rhs_p}", where)
            if shape:
                rest = tuple(x for x in rhs_p[2] if x != lhs_p)
                summand = rest[0] if len(rest) == 1 else ("nary", "ADD",
                                                          rest)
                rhs_cmp = ("call", "SUM", (summand,))
            else:
                rhs_cmp = rhs_p
        else:
            rhs_cmp = rhs_p
        # R1 formula
        if name.lower() in DOC_EXCEPTIONS:
            run.ob("C20.R1", True, {"rule": "C20.R1", "builtin": name,
                                    "reviewed": DOC_EXCEPTIONS[
                                        name.lower()]})
            continue
        dlhs, drhs = doc_assignment(entry)
        drhs = normalise(drhs)
        ok = dlhs == lhs_p and drhs == rhs_cmp
        run.check(
            "C20.R1", ok, cons, "code = documented formula",
            f"the user guide defines {name} as "
            f"'{entry['formula'].splitlines()[0].strip()}' "
            f"(positional: {show(dlhs)} = {show(drhs)}) but "
            f"lower_to_language_level builds {show(lhs_p)} = "
            f"{show(rhs_cmp)}", where,
            sample={"rule": "C20.R1", "builtin": name,
                    "doc": entry["formula"].splitlines()[0].strip(),
                    "code": f"{show(lhs_p)} = {show(rhs_cmp)}", "ok": ok})
    # R5 completeness
    doc_names = set(docs)
    run.check("C20.R5", doc_names <= code_names, "user guide",
              "every documented built-in exists",
              f"documented but not implemented: "
              f"{sorted(doc_names - code_names)}", f"{DOC}:1")
    ftn_names = set(ftn)
    run.check("C20.R5", ftn_names == code_names, "lfric_builtins_mod.f90",
              "same set of built-ins in the Fortran metadata",
              f"only in code: {sorted(code_names - ftn_names)}; only in "
              f"the Fortran file: {sorted(ftn_names - code_names)}",
              f"{F90}:1")
    # BUILTIN_MAP
    bmap = None
    for stmt in mod.tree.body:
        if isinstance(stmt, ast.Assign) and \
                ast.unparse(stmt.targets[0]) in ("BUILTIN_MAP_CAPITALISED",
                                                 "REAL_BUILTIN_MAP_"
                                                 "CAPITALISED"):
            pass
    mapped = set()
    for stmt in mod.tree.body:
        if isinstance(stmt, ast.Assign) and isinstance(stmt.value,
                                                       ast.Dict) and \
                "MAP" in ast.unparse(stmt.targets[0]):
            for key in stmt.value.keys:
                if isinstance(key, ast.Constant):
                    mapped.add(key.value.lower())
    run.check("C20.R5", mapped == code_names, "BUILTIN_MAP",
              "every built-in is registered",
              f"not registered: {sorted(code_names - mapped)}; registered "
              f"without class: {sorted(mapped - code_names)}",
              loc(mod, mod.tree.body[0]))
    return reductions_code


def show(expr):
    if expr[0] == "P":
        return f"arg{expr[1] + 1}"
    if expr[0] == "nary":
        sym = " + " if expr[1] == "ADD" else "*"
        return "(" + sym.join(show(e) for e in expr[2]) + ")"
    if expr[0] == "bin":
        sym = {"SUB": " - ", "DIV": "/", "POW": "**"}.get(expr[1], expr[1])
        return f"({show(expr[2])}{sym}{show(expr[3])})"
    if expr[0] == "un":
        return f"{expr[1]}({show(expr[2])})"
    if expr[0] == "call":
        return f"{expr[1]}({', '.join(show(a) for a in expr[2])})"
    if expr[0] == "lit":
        return expr[1]
    return f"<{expr[1]}>"


def check_reduction_flag(idx, run, reductions_code):
    """is_reduction is derived from the gh_sum access."""
    found = None
    for cname in ("Kern", "BuiltIn", "LFRicBuiltIn"):
        for cls in idx.by_simple.get(cname, []):
            for table in (cls.properties, cls.methods):
                if "is_reduction" in table:
                    found = (cls, table["is_reduction"])
    if found is None:
        raise AnalysisError("is_reduction not found")
    cls, func = found
    txt = ast.unparse(func)
    ok = "_reduction" in txt or "get_valid_reduction_modes" in txt
    run.check("C20.R3", ok, f"{cls.name}.is_reduction",
              "derived from the reduction access",
              "is_reduction is no longer derived from the argument access",
              loc(cls.module, func))
    # the flag is set from AccessType.get_valid_reduction_modes()
    kcls = idx.get_class("psyclone.psyGen.Kern")
    init = kcls.methods.get("__init__")
    itxt = ast.unparse(init) if init else ""
    run.check("C20.R3", "get_valid_reduction_modes()" in itxt and
              "self._reduction = True" in itxt, "Kern.__init__",
              "reduction flag set for reduction accesses",
              "Kern.__init__ no longer flags kernels whose argument access "
              "is a reduction mode", loc(kcls.module, init))
    amod = idx.module("src/psyclone/core/access_type.py")
    atxt = amod.text
    run.check("C20.R3", re.search(
        r"def get_valid_reduction_modes\(\):.*?return \[AccessType\.SUM\]",
        atxt, re.S) is not None, "AccessType.get_valid_reduction_modes",
        "SUM is the reduction access",
        "the valid reduction modes are no longer [AccessType.SUM]",
        f"{amod.relpath}:1")
    run.extra["reduction_builtins"] = sorted(reductions_code)
    # the reduction variable is zeroed before the loop
    for qual in ("psyclone.domain.lfric.lfric_loop.LFRicLoop",):
        lcls = idx.get_class(qual)
    zfun = idx.module("src/psyclone/psyGen.py").functions.get(
        "zero_reduction_variables")
    run.check("C20.R3", zfun is not None and
              "zero_reduction_variable" in ast.unparse(zfun),
              "psyGen.zero_reduction_variables", "reduction variables are "
              "zeroed", "zero_reduction_variables no longer zeroes each "
              "reduction variable", "src/psyclone/psyGen.py:1")
    callers = 0
    for fmod, fcls, fn in idx.functions_iter():
        if fn.name == "gen_code" and "zero_reduction_variables(" in \
                ast.unparse(fn):
            callers += 1
    run.check("C20.R3", callers >= 3, "gen_code methods",
              "zeroing is called from the loop / directive generators",
              f"only {callers} gen_code methods zero the reduction "
              f"variables (loop, parallel-do and parallel-region "
              f"generators are expected)", "src/psyclone/psyGen.py:1")


def check_dof_bounds(idx, run):
    """R4: LFRicLoop.load chooses the upper bound of a built-in loop."""
    cls = idx.get_class("psyclone.domain.lfric.lfric_loop.LFRicLoop")
    func = cls.methods.get("load")
    if func is None:
        raise AnalysisError("LFRicLoop.load not found")
    mod = cls.module
    # find the branch handling built-ins
    target = None
    for stmt in ast.walk(func):
        if isinstance(stmt, ast.If) and "LFRicBuiltIn" in \
                ast.unparse(stmt.test) and "isinstance" in \
                ast.unparse(stmt.test):
            target = stmt
            break
    if target is None:
        raise AnalysisError("LFRicLoop.load: built-in branch not found")
    inner = [s for s in ast.walk(target) if isinstance(s, ast.If) and
             s is not target and "compute_annexed_dofs" in
             ast.unparse(s.test)]
    if not inner:
        raise AnalysisError("LFRicLoop.load: annexed-DoF decision not found")
    dec = inner[0]
    test = ast.unparse(dec.test)
    atoms = sorted(re.sub(r"api_conf\('[^']*'\)", "api_conf(API)",
                          a.strip("() ")) for a in test.split(" and "))
    want = sorted(["Config.get().api_conf(API).compute_annexed_dofs",
                   "Config.get().distributed_memory",
                   "not kern.is_reduction"])
    run.check("C20.R4", atoms == want, "LFRicLoop.load",
              "annexed DoFs only with DM, annexed computation and no "
              "reduction",
              f"the decision to loop over annexed DoFs is '{test}'; "
              f"expected the conjunction of compute_annexed_dofs, "
              f"distributed_memory and not is_reduction (a reduction over "
              f"annexed DoFs would count shared DoFs twice)",
              loc(mod, dec))
    tb = ast.unparse(dec.body[0]) if dec.body else ""
    fb = ast.unparse(dec.orelse[0]) if dec.orelse else ""
    run.check("C20.R4", "'nannexed'" in tb and "'ndofs'" in fb,
              "LFRicLoop.load", "nannexed / ndofs bounds",
              f"true branch '{tb}' / false branch '{fb}' should set "
              f"'nannexed' / 'ndofs'", loc(mod, dec))
    # lower bound start
    cfg = CFG(func)
    dom = cfg.dominators()
    tnodes = [n for n in cfg.stmt_nodes() if n.ast is target]
    lower = [n for n in cfg.stmt_nodes() if n.kind == "stmt" and any(
        isinstance(c, ast.Call) and
        ast.unparse(c.func) == "self.set_lower_bound" and
        ast.unparse(c.args[0]) == "'start'" for c in ast.walk(n.ast))]
    others = [c for c in ast.walk(target) if isinstance(c, ast.Call) and
              ast.unparse(c.func) == "self.set_lower_bound"]
    run.check("C20.R4", bool(tnodes) and any(
        l.id in dom.get(tnodes[0].id, set()) for l in lower) and
        not others,
        "LFRicLoop.load", "DoF loops start at the first DoF",
        "the lower bound of a built-in loop is not 'start'",
        loc(mod, target))
    # upper-bound expressions
    ub = cls.methods.get("_upper_bound_fortran") or \
        cls.methods.get("upper_bound_psyir")
    if ub is None:
        raise AnalysisError("LFRicLoop upper-bound generator not found")
    utxt = ast.unparse(ub)
    need = [("'ndofs'", "get_last_dof_owned()"),
            ("'nannexed'", "get_last_dof_annexed()")]
    for key, call in need:
        seg = None
        for stmt in ast.walk(ub):
            if isinstance(stmt, ast.If) and key in ast.unparse(stmt.test):
                seg = ast.unparse(stmt)
                break
        run.check("C20.R4", seg is not None and call in seg,
                  f"LFRicLoop.{ub.name}", f"{key} -> {call}",
                  f"the upper bound named {key} is not generated from "
                  f"{call}", loc(mod, ub))
    nd = None
    for stmt in ast.walk(ub):
        if isinstance(stmt, ast.If) and "'ndofs'" in ast.unparse(stmt.test):
            nd = stmt
            break
    if nd is not None:
        seg = ast.unparse(nd)
        run.check("C20.R4", "distributed_memory" in seg and
                  "undf_name" in seg, f"LFRicLoop.{ub.name}",
                  "ndofs without DM is undf",
                  "without distributed memory the DoF loop must run to "
                  "undf", loc(mod, nd))


def check_access_info(idx, run):
    cls = idx.get_class("psyclone.domain.lfric.lfric_builtins.LFRicBuiltIn")
    func = cls.methods.get("reference_accesses")
    if func is None:
        raise AnalysisError("LFRicBuiltIn.reference_accesses not found")
    mod = cls.module
    cons = "LFRicBuiltIn.reference_accesses"
    loops = [s for s in func.body if isinstance(s, ast.For) and
             ast.unparse(s.iter) == "self.args"]
    run.check("C20.R6", len(loops) == 1, cons, "every argument is reported",
              "the access information no longer iterates over self.args",
              loc(mod, func))
    adds = [c for c in ast.walk(func) if isinstance(c, ast.Call) and
            isinstance(c.func, ast.Attribute) and
            c.func.attr == "add_access"]
    run.floor("built-in add_access sites", len(adds), 1)
    var = ast.unparse(loops[0].target) if loops else "arg"
    for call in adds:
        got = ast.unparse(call.args[1]) if len(call.args) > 1 else "?"
        run.check("C20.R6", got == f"{var}.access", cons,
                  f"access passed through unchanged ({norm_call(call)})",
                  f"an argument is recorded with access '{got}' instead of "
                  f"its metadata access: a reduction scalar (gh_sum) "
                  f"reported as a plain write is made thread-private by the "
                  f"OpenMP data-sharing inference and the sum is lost",
                  loc(mod, call))
    # a field is an array: its accesses must carry the DoF index, otherwise
    # the data-sharing inference takes the data pointer for a scalar
    for call in adds:
        idxarg = call.args[3] if len(call.args) > 3 else next(
            (k.value for k in call.keywords
             if k.arg == "component_indices"), None)
        ok = idxarg is not None and not (isinstance(idxarg, ast.Constant)
                                         and idxarg.value is None)
        if ok and isinstance(idxarg, ast.Name):
            # the variable must be given a value for fields
            ok = any(
                isinstance(st, ast.If) and "is_field" in ast.unparse(st.test)
                and any(isinstance(a, ast.Assign) and
                        ast.unparse(a.targets[0]) == idxarg.id and
                        not (isinstance(a.value, ast.Constant) and
                             a.value.value is None) for a in st.body)
                for st in ast.walk(func))
        run.check("C20.R6", ok, cons,
                  f"fields are recorded as indexed accesses "
                  f"({norm_call(call)})",
                  "a field argument is recorded without the DoF index, so "
                  "its data array looks like a scalar: two built-ins writing "
                  "the same field inside one OpenMP parallel region give "
                  "`private(f1_data)` (the field's data pointer is undefined "
                  "in every thread)", loc(mod, call))
    # all add_access calls are inside the loop over the arguments and the
    # separately collected writes are merged back
    txt = " ".join(ast.unparse(func).split())
    seps = {ast.unparse(c.func.value) for c in adds} - {"var_accesses"}
    for name in sorted(seps):
        run.check("C20.R6", f"var_accesses.merge({name})" in txt, cons,
                  f"separately collected accesses ({name}) are merged",
                  f"accesses collected in '{name}' never reach the result",
                  loc(mod, func))


def norm_call(call):
    return " ".join(ast.unparse(call.func).split())


def check_fused_reductions(idx, run):
    from sa.obligations import check_table
    check_table(idx, run, "C20.R7", {
        ("LFRicLoopFuseTrans", "validate"): {
            "consults": [
                ("node1.args_filter(", "collecting the reductions of all "
                 "kernels in the first loop"),
                ("node2.args_filter(", "collecting the reductions / "
                 "arguments of all kernels in the second loop"),
            ],
            "contains": [("get_valid_reduction_modes()",
                          "all reduction modes count")],
        }})
    check_table(idx, run, "C20.R8", {
        ("Dynamo0p3RedundantComputationTrans", "validate"): {
            "consults": [((".is_reduction", ".reduction_arg",
                           "get_valid_reduction_modes()"),
                          "looking for reductions in the loop's kernels")],
        }})
    cls = idx.get_class("Dynamo0p3RedundantComputationTrans")
    func = cls.methods["validate"]
    guarded = any(
        isinstance(st, ast.If) and any(f in ast.unparse(st.test) for f in (
            "is_reduction", "reduction_arg", "red_args")) and
        any(isinstance(b, ast.Raise) for b in ast.walk(st))
        for st in ast.walk(func))
    # the guard runs over every kernel of the loop
    if guarded:
        loops = [f for f in ast.walk(func) if isinstance(f, ast.For) and any(
            isinstance(st, ast.If) and any(x in ast.unparse(st.test) for x in
                                           ("is_reduction", "reduction_arg"))
            for st in ast.walk(f))]
        guarded = (not loops) or any(
            "kernels()" in ast.unparse(f.iter) or "walk(" in
            ast.unparse(f.iter) or "coded_kernels()" in ast.unparse(f.iter)
            for f in loops)
    run.check("C20.R8", guarded,
              "Dynamo0p3RedundantComputationTrans.validate",
              "a reduction in the loop is refused",
              "finding a reduction no longer leads to a refusal: the sum "
              "would run over halo DoFs and the global sum would count "
              "them again", loc(cls.module, func))



GUARDED = [
    ('Dynamo0p3RedundantComputationTrans', 'validate'),
    ('LFRicLoopFuseTrans', 'validate'),
]

def check_bound_symbols(idx, run):
    """C20.R4: the variables loopN_start / loopN_stop are assigned per
    position in the schedule; a loop has to take the pair that belongs to
    its *current* position every time it is asked (loops are moved and
    fused), so the position is recomputed on every path - no result of an
    earlier call is returned."""
    from sa.obligations import skips_consult
    cls = idx.get_class("psyclone.domain.lfric.lfric_loop.LFRicLoop")
    for pname, suffix in (("start_expr", "_start"), ("stop_expr", "_stop")):
        func = cls.properties.get(pname) if hasattr(cls, "properties") \
            else None
        if func is None:
            func = cls.getters.get(pname) if hasattr(cls, "getters") else None
        if func is None:
            for node in cls.node.body:
                if isinstance(node, ast.FunctionDef) and node.name == pname \
                        and any("property" in ast.unparse(d)
                                for d in node.decorator_list):
                    func = node
        if func is None:
            raise AnalysisError(f"LFRicLoop.{pname} not found")
        early = []
        for st in ast.walk(func):
            if isinstance(st, ast.Return) and st.value is not None:
                txt = ast.unparse(st.value)
                if "self.children[" in txt or "self._children[" in txt:
                    # allowed only directly after the assignment of the
                    # freshly computed bound
                    early.append(st)
        body = list(ast.walk(func))
        bad = []
        for ret in early:
            target = ast.unparse(ret.value)
            # the statement before the return (same block) must assign it
            for blk in body:
                for field in ("body", "orelse"):
                    stmts = getattr(blk, field, None)
                    if isinstance(stmts, list) and ret in stmts:
                        k = stmts.index(ret)
                        prev = stmts[k - 1] if k else None
                        if not (isinstance(prev, ast.Assign) and
                                ast.unparse(prev.targets[0]) == target):
                            bad.append(ret)
        run.check("C20.R4", not bad, f"LFRicLoop.{pname}",
                  "the bound variable follows the loop's current position",
                  f"{pname} can return a previously stored bound "
                  f"(line {bad[0].lineno if bad else 0}) without looking the "
                  f"loop's position up again: after an earlier pair of loops "
                  f"was fused the loop keeps loopN{suffix} of its old "
                  f"position, i.e. the DoF count of another field",
                  loc(cls.module, func))
        res = skips_consult(func, ".loops()", early_ok=(
            "self._loop_type == 'colour'",))
        run.check("C20.R4", res is None, f"LFRicLoop.{pname}",
                  "position looked up on every non-colour path",
                  f"{pname} can finish without consulting the schedule's "
                  f"loop list ({res})", loc(cls.module, func))


def check(idx, run):
    run.explanation = __doc__
    from sa.guards import check_guards
    check_guards(idx, run, "C20.R9", GUARDED)
    reductions = check_builtins(idx, run)
    check_reduction_flag(idx, run, reductions)
    check_dof_bounds(idx, run)
    check_bound_symbols(idx, run)
    check_access_info(idx, run)
    check_fused_reductions(idx, run)
    run.exhaustive = True
    run.assumptions = ["the user guide is the specification",
                       "kind / precision arguments are ignored"]
