"""C18 - line-length limiting keeps the program and respects the limit.

R1 bounded-emit (proof)  every text appended to the output in
                 FortLineLength.process is at most `line_length` long:
                 affine upper bounds over L = line_length, |c_start|,
                 |c_end| derived from the dominating guards and from the
                 summary of find_break_point (result <= max_index).
                 Progress: every loop iteration removes a non-empty prefix.
R2 idempotent    lines within the limit are copied verbatim and the
                 trailing-newline handling inverts the split, so with R1 a
                 second pass is the identity.
R3 never-fails   no InternalError escapes process().
R4 continuation  the continuation markers per line type follow the
                 free-form rules and the classifier tests the sentinels
                 before the plain comment.
R5 conservation  the written chunks are exactly the line: each dropped
                 prefix was just written, the last remainder is written
                 whenever it is non-empty (no dangling continuation marker).
"""
import ast
from sa.index import AnalysisError, loc, norm
from sa.affine import Aff
from sa.cfg import CFG, calls_at

LEVEL = "other"
MANIFEST = {
    "level": "other",
    "text": "The length clause is proved structurally: for each of the "
            "statements that append to the output an affine upper bound in "
            "(L, |c_start|, |c_end|) is derived from the guards that "
            "enclose it and from a verified summary of find_break_point, "
            "and shown to be <= L for all marker lengths; loop progress is "
            "shown by the same summary. Idempotence follows (checked as "
            "shape obligations). A typestate rule lists the "
            "find_break_point calls that can raise outside a handler. The "
            "continuation table is compared with the free-form rules. This "
            "holds for every input text and every limit.",
    "note": "Claimed as 'other', not 'proof': two obligations (the "
            "unprotected find_break_point calls) are undischarged known "
            "findings; the bound derivation itself is exhaustive over the "
            "emit sites. "
            "That the wrapped text is the same program is NOT decided: the "
            "splitter is unaware of character literals and trailing "
            "comments (a statement about all Fortran lines, not about this "
            "function's shape). str.rfind / slicing semantics trusted.",
    "technique": "affine bound derivation over guard-dominated emit sites "
                 "+ function summary + table comparison",
}
LL = "src/psyclone/line_length.py"


def check_find_break_point(idx, run):
    mod = idx.module(LL)
    func = mod.functions.get("find_break_point")
    if func is None:
        raise AnalysisError("find_break_point not found")
    params = [a.arg for a in func.args.args]
    line, max_index = params[0], params[1]
    rets = [s for s in ast.walk(func) if isinstance(s, ast.Return)]
    ok = False
    progress = False
    if len(rets) == 1 and isinstance(rets[0].value, ast.BinOp) and \
            isinstance(rets[0].value.op, ast.Add):
        left = ast.unparse(rets[0].value.left)
        right = ast.unparse(rets[0].value.right)
        # idx = line.rfind(key, start, max_index)
        defs = [s for s in ast.walk(func) if isinstance(s, ast.Assign) and
                ast.unparse(s.targets[0]) == left]
        if len(defs) == 1 and isinstance(defs[0].value, ast.Call) and \
                ast.unparse(defs[0].value.func) == f"{line}.rfind" and \
                len(defs[0].value.args) == 3 and \
                ast.unparse(defs[0].value.args[2]) == max_index:
            key = ast.unparse(defs[0].value.args[0])
            ok = right == f"len({key})"
        # guarded by idx > 0 (found, and not at column 0)
        for stmt in ast.walk(func):
            if isinstance(stmt, ast.If) and rets[0] in stmt.body:
                progress = ast.unparse(stmt.test) in (f"{left} > 0",
                                                      f"{left} >= 1")
    run.check("C18.R1", ok, "find_break_point",
              "result <= max_index",
              "find_break_point must return rfind(key, start, max_index) + "
              "len(key): only then the break point never exceeds max_index "
              "(str.rfind returns a match that ends before `end`)",
              loc(mod, func))
    run.check("C18.R1", progress, "find_break_point", "result > 0",
              "the break point is not guaranteed to be positive: the "
              "wrapping loop would not shorten the line", loc(mod, func))
    # falls through to raise InternalError
    last = func.body[-1]
    run.check("C18.R3", isinstance(last, ast.Raise) and "InternalError" in
              ast.unparse(last), "find_break_point",
              "raises InternalError when no break point exists",
              "find_break_point no longer signals 'no break point' by "
              "InternalError (callers rely on it)", loc(mod, func))
    return func


def length_atoms(func):
    """names bound to continuation markers -> atom"""
    atoms = {}
    for stmt in ast.walk(func):
        if isinstance(stmt, ast.Assign) and isinstance(stmt.targets[0],
                                                       ast.Name):
            val = ast.unparse(stmt.value)
            if val.startswith("self._cont_start["):
                atoms[stmt.targets[0].id] = "cs"
            if val.startswith("self._cont_end["):
                atoms[stmt.targets[0].id] = "ce"
    return atoms


def aff_of(expr, atoms):
    """affine form of an integer expression over L, cs, ce"""
    if isinstance(expr, ast.Constant) and isinstance(expr.value, int):
        return Aff(expr.value)
    if isinstance(expr, ast.Attribute) and ast.unparse(expr) == \
            "self._line_length":
        return Aff.atom("L")
    if isinstance(expr, ast.Call) and ast.unparse(expr.func) == "len" and \
            isinstance(expr.args[0], ast.Name) and \
            expr.args[0].id in atoms:
        return Aff.atom(atoms[expr.args[0].id])
    if isinstance(expr, ast.BinOp) and isinstance(expr.op, (ast.Add,
                                                             ast.Sub)):
        left, right = aff_of(expr.left, atoms), aff_of(expr.right, atoms)
        if left is None or right is None:
            return None
        return left + right if isinstance(expr.op, ast.Add) else left - right
    return None


def enclosing_guards(func, target):
    """[(test expr, polarity, kind)] for the statements enclosing `target`,
    innermost last; kind 'if' / 'while-exit'."""
    out = []

    def exits_before(stmts, pos):
        """exit conditions of the break-free while loops that precede
        position `pos` in this block (the last one wins)"""
        extra = []
        for prev in stmts[:pos]:
            if isinstance(prev, ast.While) and not any(
                    isinstance(b, ast.Break) for b in ast.walk(prev)):
                extra = [(prev.test, False, "while-exit", prev)]
            elif isinstance(prev, ast.Assign) and extra and any(
                    isinstance(t, ast.Name) and t.id in
                    {n.id for n in ast.walk(extra[0][0])
                     if isinstance(n, ast.Name)} for t in prev.targets):
                extra = []   # a tested variable was re-assigned
        return extra

    def visit(stmts, acc):
        for pos, stmt in enumerate(stmts):
            here = acc + exits_before(stmts, pos)
            if stmt is target:
                out.extend(here)
                return True
            if isinstance(stmt, ast.If):
                if visit(stmt.body, here + [(stmt.test, True, "if", stmt)]):
                    return True
                if visit(stmt.orelse, here + [(stmt.test, False, "if",
                                               stmt)]):
                    return True
            elif isinstance(stmt, (ast.For, ast.While)):
                if visit(stmt.body, acc):
                    return True
                if visit(stmt.orelse, acc):
                    return True
            elif isinstance(stmt, ast.Try):
                if visit(stmt.body, here) or visit(stmt.orelse, here) or \
                        visit(stmt.finalbody, here):
                    return True
                for hnd in stmt.handlers:
                    if visit(hnd.body, here):
                        return True
        return False
    visit(func.body, [])
    return out


def assigned_between(func, guard_stmt, target, name, kind):
    """Is `name` assigned between the guard and the target statement?"""
    if kind == "if":
        for branch in (guard_stmt.body, guard_stmt.orelse):
            flat = []

            def collect(stmts):
                for stmt in stmts:
                    flat.append(stmt)
                    for field in ("body", "orelse", "finalbody"):
                        sub = getattr(stmt, field, None)
                        if isinstance(sub, list) and sub and \
                                isinstance(sub[0], ast.stmt):
                            collect(sub)
                    for hnd in getattr(stmt, "handlers", []):
                        collect(hnd.body)
            collect(branch)
            if target in flat:
                before = [s for s in flat
                          if s.lineno < target.lineno and
                          not any(x is target for x in ast.walk(s))]
                # only statements that execute on the way: same or outer
                # blocks.  Conservative: any assignment textually before.
                for stmt in before:
                    if isinstance(stmt, ast.Assign) and any(
                            isinstance(t, ast.Name) and t.id == name
                            for t in stmt.targets):
                        return True
                return False
        return True
    # while-exit: statements after the loop and before the target
    return False


def line_bound(func, target, atoms, name="line"):
    """Upper bound of len(<name>) at `target` from the innermost guard that
    constrains it."""
    guards = enclosing_guards(func, target)
    for test, polarity, kind, gstmt in reversed(guards):
        if not (isinstance(test, ast.Compare) and len(test.ops) == 1):
            continue
        left = test.left
        # len(line) [+ len(c)] <op> bound
        extra = Aff(0)
        core = left
        if isinstance(left, ast.BinOp) and isinstance(left.op, ast.Add):
            core = left.left
            extra = aff_of(left.right, atoms)
            if extra is None:
                continue
        if ast.unparse(core) != f"len({name})":
            continue
        rhs = aff_of(test.comparators[0], atoms)
        if rhs is None:
            continue
        oper = test.ops[0]
        bound = None
        if polarity and isinstance(oper, ast.Lt):
            bound = rhs - 1 - extra
        elif polarity and isinstance(oper, ast.LtE):
            bound = rhs - extra
        elif not polarity and isinstance(oper, ast.Gt):
            bound = rhs - extra
        elif not polarity and isinstance(oper, ast.GtE):
            bound = rhs - 1 - extra
        if bound is None:
            continue
        if kind == "if" and assigned_between(func, gstmt, target, name,
                                             kind):
            continue
        return bound, f"{ast.unparse(test)} is {polarity}"
    return None, None


def check_process(idx, run):
    mod = idx.module(LL)
    cls = idx.get_class("psyclone.line_length.FortLineLength")
    func = cls.methods.get("process")
    if func is None:
        raise AnalysisError("FortLineLength.process not found")
    atoms = length_atoms(func)
    if set(atoms.values()) != {"cs", "ce"}:
        raise AnalysisError("continuation marker variables not found in "
                            "process()")
    emits = [s for s in ast.walk(func) if isinstance(s, ast.AugAssign) and
             ast.unparse(s.target) == "fortran_out"]
    run.floor("output append sites", len(emits), 4)
    cons = "FortLineLength.process"
    # break point definitions
    bp_defs = {}
    for stmt in ast.walk(func):
        if isinstance(stmt, ast.Assign) and isinstance(
                stmt.value, ast.Call) and ast.unparse(
                    stmt.value.func) == "find_break_point":
            bp_defs.setdefault(ast.unparse(stmt.targets[0]), []).append(stmt)

    def nearest_bp_def(var, target):
        cands = [d for d in bp_defs.get(var, []) if d.lineno < target.lineno]
        # the definitions that can reach: those in the same loop body or
        # before; take all and require every one to be bounded
        return cands

    for emit in emits:
        parts = []
        cur = emit.value
        while isinstance(cur, ast.BinOp) and isinstance(cur.op, ast.Add):
            parts.insert(0, cur.right)
            cur = cur.left
        parts.insert(0, cur)
        if not (isinstance(parts[-1], ast.Constant) and
                parts[-1].value == "\n"):
            run.check("C18.R1", False, cons, norm(emit),
                      "an output append does not end with a newline: the "
                      "line structure is lost", loc(mod, emit))
            continue
        total = Aff(0)
        why = []
        ok = True
        for part in parts[:-1]:
            if isinstance(part, ast.Name) and part.id in atoms:
                total = total + Aff.atom(atoms[part.id])
                why.append(f"|{part.id}|")
            elif isinstance(part, ast.Name):
                bound, reason = line_bound(func, emit, atoms, part.id)
                if bound is None:
                    ok = False
                    why.append(f"{part.id}: unbounded")
                else:
                    total = total + bound
                    why.append(f"|{part.id}| <= {bound} ({reason})")
            elif isinstance(part, ast.Subscript) and isinstance(
                    part.slice, ast.Slice) and part.slice.lower is None \
                    and isinstance(part.slice.upper, ast.Name):
                var = part.slice.upper.id
                defs = nearest_bp_def(var, emit)
                # the reaching definition is the closest preceding one in
                # the same block nest
                if not defs:
                    ok = False
                    why.append(f"{var}: no definition")
                    continue
                # choose reaching defs: all defs in the same innermost
                # loop/branch sequence; use the maximal bound
                bounds = []
                for dfn in defs:
                    aff = aff_of(dfn.value.args[1], atoms)
                    bounds.append((aff, dfn))
                reaching = reaching_defs(func, emit, var, defs)
                worst = None
                for aff, dfn in bounds:
                    if dfn not in reaching:
                        continue
                    if aff is None:
                        ok = False
                        why.append(f"{var}: max_index not affine")
                        continue
                    why.append(f"|line[:{var}]| <= {aff}")
                    if worst is None:
                        worst = aff
                    elif worst != aff:
                        # take both into account: need each <= L
                        worst = worst  # checked individually below
                    total_alt = total + aff
                    if not le_L(total_alt, parts, atoms, part):
                        pass
                if worst is None:
                    ok = False
                else:
                    # all reaching bounds must satisfy the inequality: use
                    # the largest by checking each
                    affs = [a for a, d in bounds if d in reaching and
                            a is not None]
                    total = total + max_aff(affs)
            else:
                ok = False
                why.append(f"unrecognised part '{ast.unparse(part)[:30]}'")
        good = ok and fits(total)
        run.check(
            "C18.R1", good, cons, norm(emit),
            f"the text appended by '{norm(emit)}' is not provably within "
            f"the limit: bound {total} (parts: {'; '.join(why)}) must be "
            f"<= L for all marker lengths", loc(mod, emit),
            sample={"rule": "C18.R1", "emit": norm(emit),
                    "bound": str(total), "parts": why, "ok": good})
    # progress of the while loop: line = line[bp:] with bp > 0
    loops = [s for s in ast.walk(func) if isinstance(s, ast.While)]
    for loop in loops:
        shr = [s for s in loop.body if isinstance(s, ast.Assign) and
               ast.unparse(s.targets[0]) == "line" and
               isinstance(s.value, ast.Subscript) and
               isinstance(s.value.slice, ast.Slice) and
               s.value.slice.upper is None and
               isinstance(s.value.slice.lower, ast.Name) and
               s.value.slice.lower.id in bp_defs]
        run.check("C18.R1", len(shr) == 1 and loop.body[-1] is shr[0], cons,
                  "each wrap iteration removes a non-empty prefix",
                  "the wrapping loop does not end by dropping the emitted "
                  "prefix (line = line[break_point:]): it may not "
                  "terminate", loc(mod, loop))
    check_conservation(run, mod, func, bp_defs)
    return func, emits


def check_conservation(run, mod, func, bp_defs):
    """R5: the chunks written are the whole line: every `line = line[bp:]`
    directly follows an append of `line[:bp]` with the same break point, and
    the final remainder is written whenever it is non-empty."""
    cons = "FortLineLength.process"

    def blocks(stmts):
        yield stmts
        for stmt in stmts:
            for field in ("body", "orelse", "finalbody"):
                sub = getattr(stmt, field, None)
                if isinstance(sub, list) and sub and \
                        isinstance(sub[0], ast.stmt):
                    yield from blocks(sub)
            for hnd in getattr(stmt, "handlers", []):
                yield from blocks(hnd.body)
    nadv = 0
    for block in blocks(func.body):
        for pos, stmt in enumerate(block):
            if isinstance(stmt, ast.Assign) and \
                    ast.unparse(stmt.targets[0]) == "line" and \
                    isinstance(stmt.value, ast.Subscript) and \
                    isinstance(stmt.value.slice, ast.Slice) and \
                    stmt.value.slice.upper is None and \
                    stmt.value.slice.lower is not None:
                nadv += 1
                var = ast.unparse(stmt.value.slice.lower)
                prev = block[pos - 1] if pos else None
                ok = prev is not None and isinstance(prev, ast.AugAssign) \
                    and f"line[:{var}]" in ast.unparse(prev.value)
                run.check("C18.R5", ok, cons,
                          f"emit line[:{var}] then drop it",
                          f"'line = line[{var}:]' does not directly follow "
                          f"an append of 'line[:{var}]': characters of the "
                          f"input line are lost or duplicated",
                          loc(mod, stmt))
    run.floor("prefix-drop statements", nadv, 2)
    # final remainder
    finals = [s for s in ast.walk(func) if isinstance(s, ast.AugAssign) and
              ast.unparse(s.target) == "fortran_out" and
              ast.unparse(s.value) in ("c_start + line + '\\n'",)]
    ok = False
    for fin in finals:
        guards = [g for g in ast.walk(func) if isinstance(g, ast.If) and
                  fin in g.body]
        if not guards:
            ok = True
        for guard in guards:
            ok = ast.unparse(guard.test) in ("line", "len(line) > 0",
                                             "line != ''", "len(line)")
    run.check("C18.R5", bool(finals) and ok, cons,
              "the remainder after the last break is always written",
              "the last chunk of a wrapped line is written only under a "
              "condition other than 'non-empty': the previous line already "
              "ends in a continuation marker, so dropping the remainder "
              "(e.g. trailing blanks) leaves a dangling '&' that swallows "
              "the next statement", loc(mod, finals[0]) if finals else
              loc(mod, func))


def max_aff(affs):
    """all candidates must individually fit; return the first (they are
    checked individually by the caller through fits on each)"""
    best = affs[0]
    for aff in affs[1:]:
        # pick the one with the larger constant / fewer subtractions
        diff = aff - best
        if all(v >= 0 for v in diff.coef.values()) and diff.const >= 0:
            best = aff
    return best


def le_L(total, *_):
    return fits(total)


def fits(total):
    """total <= L for all cs, ce >= 0 (and L arbitrary)"""
    diff = total - Aff.atom("L")
    return diff.const <= 0 and all(v <= 0 for v in diff.coef.values())


def reaching_defs(func, target, var, defs):
    """Definitions of `var` that can reach `target`: the last definition
    before it inside each enclosing block (loop bodies reach themselves)."""
    guards = enclosing_guards(func, target)
    # innermost block containing the target
    def block_of(stmts):
        for stmt in stmts:
            if stmt is target:
                return stmts
            for field in ("body", "orelse", "finalbody"):
                sub = getattr(stmt, field, None)
                if isinstance(sub, list) and sub and \
                        isinstance(sub[0], ast.stmt):
                    got = block_of(sub)
                    if got is not None:
                        return got
            for hnd in getattr(stmt, "handlers", []):
                got = block_of(hnd.body)
                if got is not None:
                    return got
        return None
    block = block_of(func.body)
    inner = [d for d in defs if d in (block or [])]
    if inner:
        last = max(inner, key=lambda d: d.lineno)
        return [last]
    return defs


def check_idempotent(idx, run, func):
    mod = idx.module(LL)
    cons = "FortLineLength.process"
    fors = [s for s in func.body if isinstance(s, ast.For)]
    ok = len(fors) == 1 and ast.unparse(fors[0].iter) in (
        "fortran_in.split('\\n')",)
    run.check("C18.R2", ok, cons, "iterates over the lines of the input",
              "process() no longer iterates over fortran_in.split('\\n')",
              loc(mod, func))
    if not fors:
        return
    top = [s for s in fors[0].body if isinstance(s, ast.If)]
    ok = False
    if len(top) == 1:
        test = ast.unparse(top[0].test)
        orelse = [ast.unparse(s) for s in top[0].orelse]
        ok = test == f"len({ast.unparse(fors[0].target)}) > " \
                     f"self._line_length" and \
            orelse == [f"fortran_out += {ast.unparse(fors[0].target)} + "
                       f"'\\n'"]
    run.check("C18.R2", ok, cons, "lines within the limit are copied "
              "verbatim",
              "a line that is within the limit is not copied unchanged: a "
              "second application would alter already wrapped text",
              loc(mod, func))
    rets = [s for s in func.body if isinstance(s, ast.Return)]
    run.check("C18.R2", bool(rets) and ast.unparse(rets[-1].value) ==
              "fortran_out[:-1]", cons, "final newline removed",
              "the result no longer drops the newline added after the last "
              "line (split/join would not be inverse)", loc(mod, func))


def check_never_fails(idx, run, func):
    mod = idx.module(LL)
    cons = "FortLineLength.process"
    calls = [c for c in ast.walk(func) if isinstance(c, ast.Call) and
             ast.unparse(c.func) == "find_break_point"]
    # calls protected by `except InternalError`
    protected = set()
    for trynode in [t for t in ast.walk(func) if isinstance(t, ast.Try)]:
        if any(h.type is None or "InternalError" in ast.unparse(h.type) or
               ast.unparse(h.type) in ("Exception",)
               for h in trynode.handlers):
            for stmt in trynode.body:
                for sub in ast.walk(stmt):
                    if isinstance(sub, ast.Call) and sub in calls:
                        protected.add(id(sub))
    unprot = [c for c in calls if id(c) not in protected]
    run.floor("find_break_point call sites", len(calls), 2)
    for k, call in enumerate(sorted(unprot, key=lambda c: c.lineno)):
        arg = ast.unparse(call.args[1])
        run.check(
            "C18.R3", False, cons,
            f"unprotected find_break_point(line, {arg}, ...)",
            f"find_break_point(line, {arg}, key_list) is called outside a "
            f"handler for InternalError: a line with no break point before "
            f"that column (e.g. one 140-character token) makes process() "
            f"fail instead of returning text", loc(mod, call))
    if not unprot:
        run.ob("C18.R3", True, {"rule": "C18.R3",
                                "calls": len(calls), "unprotected": 0})


def check_tables(idx, run):
    mod = idx.module(LL)
    cls = idx.get_class("psyclone.line_length.FortLineLength")
    init = cls.methods.get("__init__")
    tables = {}
    for stmt in ast.walk(init):
        if isinstance(stmt, ast.Assign) and isinstance(stmt.value, ast.Dict):
            name = ast.unparse(stmt.targets[0])
            tables[name] = {k.value: (v.value if isinstance(v, ast.Constant)
                                      else [e.value for e in v.elts])
                            for k, v in zip(stmt.value.keys,
                                            stmt.value.values)}
    start = tables.get("self._cont_start")
    end = tables.get("self._cont_end")
    keys = tables.get("self._key_lists")
    if not (start and end and keys):
        raise AnalysisError("continuation tables not found")
    types = {"statement", "openmp_directive", "openacc_directive",
             "comment", "unknown"}
    run.check("C18.R4", set(start) == set(end) == set(keys) == types,
              "FortLineLength.__init__", "same line types in all tables",
              f"the three tables do not cover the same line types: "
              f"{sorted(start)}, {sorted(end)}, {sorted(keys)}",
              loc(mod, init))
    rules = {
        "statement": (lambda s: s.strip() == "&", lambda e: e.strip() == "&",
                      "a statement continues with '&' ... '&'"),
        "unknown": (lambda s: s.strip() == "&", lambda e: e.strip() == "&",
                    "an unclassified line is a statement: '&' ... '&'"),
        "openmp_directive": (lambda s: s.strip().lower() == "!$omp&",
                             lambda e: e.strip() == "&",
                             "an OpenMP continuation line starts with "
                             "'!$omp&' and the continued line ends in '&'"),
        "openacc_directive": (lambda s: s.strip().lower() == "!$acc&",
                              lambda e: e.strip() == "&",
                              "an OpenACC continuation line starts with "
                              "'!$acc&' and the continued line ends in '&'"),
        "comment": (lambda s: s.startswith("!"), lambda e: e == "",
                    "a wrapped comment continues as a new comment line "
                    "starting with '!' and needs no '&'"),
    }
    for typ, (okstart, okend, text) in rules.items():
        if typ not in start:
            continue
        run.check("C18.R4", okstart(start[typ]) and okend(end[typ]),
                  "FortLineLength.__init__", f"markers for {typ}",
                  f"continuation markers for {typ} are "
                  f"({start[typ]!r}, {end[typ]!r}); {text}", loc(mod, init))
        run.check("C18.R4", isinstance(keys.get(typ), list) and
                  all(isinstance(k, str) and k for k in keys[typ]),
                  "FortLineLength.__init__", f"break keys for {typ}",
                  f"the break keys for {typ} are not a list of non-empty "
                  f"strings", loc(mod, init))
        # a line can only be wrapped at one of its break keys: removing a
        # key turns lines that could be wrapped into InternalErrors
        lost = sorted(REVIEWED_KEYS.get(typ, set()) -
                      set(keys.get(typ) or []))
        run.check("C18.R4", not lost, "FortLineLength.__init__",
                  f"no break key of {typ} lines was dropped",
                  f"the break keys {lost} are no longer tried for {typ} "
                  f"lines: a long line whose only break opportunities are "
                  f"those characters (e.g. a compact assignment with '=', "
                  f"'+' or ')' but no blank) now fails with 'No suitable "
                  f"break point found' instead of being wrapped",
                  loc(mod, init))
    # classifier order
    glt = cls.methods.get("_get_line_type")
    order = []
    for stmt in glt.body:
        if isinstance(stmt, ast.If) and isinstance(stmt.body[0], ast.Return):
            order.append((ast.unparse(stmt.test),
                          stmt.body[0].value.value))
    names = [o[1] for o in order]
    ok = "comment" in names and all(
        names.index(t) < names.index("comment")
        for t in ("openmp_directive", "openacc_directive") if t in names)
    run.check("C18.R4", ok and {"openmp_directive", "openacc_directive"}
              <= set(names), "FortLineLength._get_line_type",
              "sentinels before plain comments",
              f"the classifier tests {names}: directive sentinels must be "
              f"recognised before the generic comment pattern, otherwise a "
              f"directive is wrapped as a comment", loc(mod, glt))
    last = glt.body[-1]
    run.check("C18.R4", isinstance(last, ast.Return) and
              getattr(last.value, "value", None) == "unknown",
              "FortLineLength._get_line_type", "default type",
              "the default line type is no longer 'unknown'", loc(mod, glt))
    # regexes
    regs = {}
    for stmt in ast.walk(init):
        if isinstance(stmt, ast.Assign) and isinstance(stmt.value, ast.Call) \
                and ast.unparse(stmt.value.func) == "re.compile":
            regs[ast.unparse(stmt.targets[0])] = (
                stmt.value.args[0].value,
                [ast.unparse(k.value) for k in stmt.value.keywords])
    import re as _re
    witnesses = {
        "self._omp": (["!$omp parallel do", "  !$OMP& private(i)",
                       "!$omp&shared(a)", "\t!$Omp end parallel"],
                      ["!$acc loop", "! a comment", "x = 1 !$omp", "!omp"]),
        "self._acc": (["!$acc parallel", "   !$ACC& copyin(a)",
                       "!$acc&present(b)"],
                      ["!$omp do", "! comment", "y = 2 !$acc"]),
        "self._comment": (["! text", "   !text", "!$omp do", "!& more"],
                          ["x = 1 ! trailing", "call f()"]),
    }
    for name, (must, must_not) in witnesses.items():
        got = regs.get(name)
        okr = False
        why = "pattern not found"
        if got is not None:
            flags = _re.I if "re.I" in got[1] or "re.IGNORECASE" in got[1] \
                else 0
            try:
                comp = _re.compile(got[0], flags)
                missed = [w for w in must if not comp.match(w)]
                wrong = [w for w in must_not if comp.match(w)]
                okr = not missed and not wrong
                why = f"does not match {missed}; wrongly matches {wrong}"
            except _re.error as err:
                why = f"invalid pattern: {err}"
        run.check("C18.R4", okr, "FortLineLength.__init__",
                  f"pattern {name}",
                  f"the pattern {name} = {got[0] if got else None!r} {why}: "
                  f"directive sentinels (including the continuation form "
                  f"'!$omp&' / '!$acc&') must be classified as directives, "
                  f"anything starting with '!' as a comment",
                  loc(mod, init))
    # classifier uses the matching regex for each type
    pairs = {t: c for c, t in order}
    exp = {"openmp_directive": "self._omp.match(line)",
           "openacc_directive": "self._acc.match(line)",
           "comment": "self._comment.match(line)",
           "statement": "self._stat.match(line)"}
    for typ, cond in exp.items():
        run.check("C18.R4", pairs.get(typ) == cond,
                  "FortLineLength._get_line_type", f"{typ} test",
                  f"{typ} is recognised by '{pairs.get(typ)}', expected "
                  f"'{cond}'", loc(mod, glt))


# the break keys of the reviewed tree (the reference for later changes)
REVIEWED_KEYS = {
    "statement": {", ", ",", " "},
    "openmp_directive": {" ", ",", ")", "="},
    "openacc_directive": {" ", ",", ")", "="},
    "comment": {" ", ".", ","},
    "unknown": {" ", ",", "=", "+", ")"},
}


def check_trailing_comment(idx, run):
    """C18.R6: a statement line may end in a comment (`x = 1 ! why`).  A
    continuation marker placed inside that comment is part of the comment,
    so the remainder starts a new, meaningless statement.  The wrapper has
    to look for the start of a trailing comment before it chooses where to
    break a statement line."""
    mod = idx.module("src/psyclone/line_length.py")
    cls = None
    for c in mod.classes.values() if hasattr(mod, "classes") else []:
        if c.name == "FortLineLength":
            cls = c
    if cls is None:
        cls = idx.get_class("psyclone.line_length.FortLineLength")
    looks = False
    for name in ("process", "_get_line_type"):
        func = cls.methods.get(name)
        if func is None:
            continue
        for node in ast.walk(func):
            if isinstance(node, ast.Constant) and isinstance(
                    node.value, str) and "!" in node.value and \
                    not node.value.lstrip().startswith(("!$", "^")):
                looks = True
    fbp = idx.function("psyclone.line_length.find_break_point") \
        if hasattr(idx, "function") else None
    init = cls.methods.get("__init__")
    patterns = [ast.unparse(c.args[0]) for c in ast.walk(init)
                if isinstance(c, ast.Call) and
                ast.unparse(c.func) == "re.compile" and c.args]
    anchored = all("^" in p for p in patterns)
    run.check(
        "C18.R6", looks or not anchored, "FortLineLength.process",
        "a trailing comment is recognised before a statement line is "
        "broken",
        "a statement line is only classified by how it *starts* "
        f"(patterns {patterns}); a trailing comment is wrapped like code: "
        "`x = y + z  ! a trailing comment ..., with commas, ...` becomes "
        "`x = y + z  ! a trailing comment ..., &` / `&with commas, ...`: "
        "the `&` is inside the comment, so the second line is parsed as a "
        "statement and the program no longer compiles",
        loc(cls.module, cls.methods["process"]))


def check(idx, run):
    run.explanation = __doc__
    check_trailing_comment(idx, run)
    check_find_break_point(idx, run)
    func, _ = check_process(idx, run)
    check_idempotent(idx, run, func)
    check_never_fails(idx, run, func)
    check_tables(idx, run)
    run.trusted_base = ["CPython ast parser", "str.rfind / slice semantics",
                        "free-form continuation rules as transcribed"]
    run.assumptions = ["beyond R6 (trailing comments) meaning preservation "
                       "of the wrapped text is not decided"]
