"""Shared structural facts about ParallelLoopTrans.validate and its
subclasses (used by C09 and C23)."""
import ast
from sa.index import AnalysisError, loc, norm
from sa.cfg import CFG, calls_at, header_exprs

PLT = "psyclone.psyir.transformations.parallel_loop_trans.ParallelLoopTrans"

# Subclasses whose validate() passes force=True to the generic validate:
# they replace the generic dependence test by the LFRic colouring rule
# (checked by C23) or fuse domain loops.
FORCE_SETTERS = {
    "DynamoOMPParallelLoopTrans":
        "LFRic rule instead: un-coloured increment loops are refused "
        "before, colour loops are safe by construction (C23)",
    "Dynamo0p3OMPLoopTrans":
        "same LFRic rule for orphan OMP DO (C23)",
}
SKIPPED_CODES = {"WARN_SCALAR_WRITTEN_ONCE"}


def options_get(func, var):
    """-> (key, default) if `var = options.get(key, default)` is the only
    definition of var in func"""
    defs = [s for s in ast.walk(func) if isinstance(s, ast.Assign) and
            len(s.targets) == 1 and isinstance(s.targets[0], ast.Name) and
            s.targets[0].id == var]
    if len(defs) != 1:
        return None
    val = defs[0].value
    if isinstance(val, ast.Call) and ast.unparse(val.func) == "options.get" \
            and val.args and isinstance(val.args[0], ast.Constant):
        default = val.args[1].value if len(val.args) > 1 and isinstance(
            val.args[1], ast.Constant) else None
        return val.args[0].value, default
    return None


def check_generic_validate(idx, run, rule):
    """ParallelLoopTrans.validate: the dependence test is reached on every
    accepting path unless options['force'] / ['sequential']; a falsy answer
    raises unless every message is in the frozen skip set; colours loops are
    refused unless sequential."""
    cls = idx.get_class(PLT)
    func = cls.methods.get("validate")
    if func is None:
        raise AnalysisError("ParallelLoopTrans.validate not found")
    mod = cls.module
    cons = "ParallelLoopTrans.validate"
    cfg = CFG(func)
    # the dependence test
    tests = [n for n in cfg.stmt_nodes() if n.kind == "test" and
             isinstance(n.ast, ast.If) and
             "independent_iterations(" in ast.unparse(n.ast.test)]
    if len(tests) != 1:
        raise AnalysisError("ParallelLoopTrans.validate: the "
                            "independent_iterations test was not found")
    tnode = tests[0]
    ttxt = ast.unparse(tnode.ast.test)
    call = [c for c in ast.walk(tnode.ast.test) if isinstance(c, ast.Call)
            and isinstance(c.func, ast.Attribute) and
            c.func.attr == "independent_iterations"][0]
    kws = {k.arg: ast.unparse(k.value) for k in call.keywords}
    run.check(rule, ttxt.startswith("not ") and
              ast.unparse(call.func.value) == func.args.args[1].arg,
              cons, "falsy verdict enters the refusal branch",
              f"the dependence test is '{ttxt[:60]}': a falsy verdict of "
              f"independent_iterations on the target loop must lead to the "
              f"refusal", loc(mod, tnode.ast))
    run.check(rule, kws.get("test_all_variables") == "True", cons,
              "all variables are tested",
              "independent_iterations is not asked to test all variables",
              loc(mod, call))
    # bypass: every path from entry to exit that avoids the test passes an
    # `if sequential or force: return`
    byp = []
    for path in cfg.paths(limit=20000):
        if path[-1][0] is not cfg.exit:
            continue
        if any(n is tnode for n, _ in path):
            continue
        conds = [ast.unparse(n.ast.test) for n, lab in path
                 if n.kind == "test" and isinstance(n.ast, ast.If) and
                 lab == "true" and any(isinstance(s, ast.Return)
                                       for s in n.ast.body)]
        byp.append(conds)
    allowed = None
    bad_bypass = []
    for conds in byp:
        if len(conds) != 1:
            bad_bypass.append(conds)
            continue
        cond = conds[0]
        names = sorted(n.strip() for n in cond.split(" or "))
        keys = []
        for name in names:
            got = options_get(func, name)
            keys.append(got)
        if sorted(k[0] for k in keys if k) != ["force", "sequential"] or \
                any(k is None or k[1] is not False for k in keys):
            bad_bypass.append(conds)
    run.check(rule, not bad_bypass and bool(byp), cons,
              "only options['force'] / ['sequential'] (default False) "
              "bypass the dependence test",
              f"an accepting path skips the dependence test under "
              f"{bad_bypass[:1]}: loops with loop-carried dependences would "
              f"be parallelised without the user asking for it",
              loc(mod, func))
    # inside the refusal branch: raise unless message code skipped
    body = tnode.ast.body
    raises = [s for st in body for s in ast.walk(st)
              if isinstance(s, ast.Raise)]
    skips = []
    for st in body:
        for sub in ast.walk(st):
            if isinstance(sub, ast.If) and any(isinstance(b, ast.Continue)
                                               for b in sub.body):
                cond = sub.test
                if isinstance(cond, ast.Compare) and \
                        isinstance(cond.ops[0], ast.Eq):
                    skips.append(ast.unparse(cond.comparators[0])
                                 .split(".")[-1])
                elif isinstance(cond, ast.Compare) and \
                        isinstance(cond.ops[0], ast.In):
                    for elt in getattr(cond.comparators[0], "elts", []):
                        skips.append(ast.unparse(elt).split(".")[-1])
                else:
                    skips.append(ast.unparse(cond))
    run.check(rule, bool(raises) and
              "TransformationError" in ast.unparse(raises[0]), cons,
              "a failed dependence test raises TransformationError",
              "no TransformationError is raised when the dependence test "
              "fails", loc(mod, tnode.ast))
    run.check(rule, set(skips) <= SKIPPED_CODES, cons,
              "only WARN_SCALAR_WRITTEN_ONCE messages are tolerated",
              f"dependence messages with codes "
              f"{sorted(set(skips) - SKIPPED_CODES)} are skipped: real "
              f"dependences would no longer refuse the transformation",
              loc(mod, tnode.ast))
    # colours loops
    col = [n for n in cfg.stmt_nodes() if n.kind == "test" and
           isinstance(n.ast, ast.If) and "'colours'" in
           ast.unparse(n.ast.test)]
    okc = False
    for node in col:
        txt = ast.unparse(node.ast.test)
        if "not sequential" in txt and "loop_type == 'colours'" in txt and \
                any(isinstance(s, ast.Raise) for s in node.ast.body):
            okc = True
    run.check(rule, okc, cons, "loops over colours refused unless "
              "sequential", "a loop over colours is no longer refused by "
              "the parallel-loop transformations", loc(mod, func))
    return func


MUTATORS = {"setdefault", "update", "pop", "popitem", "clear",
            "__setitem__", "__delitem__"}


def option_flow(func, cfg=None, alias_returning=()):
    """Forward may-alias analysis over the statement graph of `func` for the
    dictionary its caller passed as `options`.  -> (writes, returns_alias):
    the statements that can write into that dictionary (subscript stores,
    deletes, mutating method calls) and whether the function can return it.
    `alias_returning`: names of methods known to return their options
    argument (so `x = self.m(options)` keeps x an alias)."""
    if cfg is None:
        cfg = CFG(func)
    params = [a.arg for a in func.args.args + func.args.kwonlyargs]
    if "options" not in params:
        return [], False

    def is_alias(value, aliases):
        # can this expression evaluate to the caller's dictionary?
        if isinstance(value, ast.Name):
            return value.id in aliases
        if isinstance(value, ast.BoolOp):
            return any(is_alias(v, aliases) for v in value.values)
        if isinstance(value, ast.IfExp):
            return is_alias(value.body, aliases) or \
                is_alias(value.orelse, aliases)
        if isinstance(value, ast.Call) and \
                isinstance(value.func, ast.Attribute) and \
                value.func.attr in alias_returning:
            return any(is_alias(arg, aliases) for arg in list(value.args) +
                       [k.value for k in value.keywords])
        return False
    state = {n.id: None for n in cfg.nodes}
    state[cfg.entry.id] = frozenset({"options"})
    work = [cfg.entry]
    while work:
        cur = work.pop()
        out = set(state[cur.id])
        st = cur.ast
        if cur.kind == "stmt" and isinstance(st, ast.Assign) and \
                len(st.targets) == 1 and \
                isinstance(st.targets[0], ast.Name):
            if is_alias(st.value, out):
                out.add(st.targets[0].id)
            else:
                out.discard(st.targets[0].id)
        for nxt, _ in cur.succ:
            new = frozenset(out) if state[nxt.id] is None else \
                state[nxt.id] | out
            if new != state[nxt.id]:
                state[nxt.id] = new
                work.append(nxt)
    writes = []
    returns = False
    for cur in cfg.nodes:
        st = cur.ast
        live = state[cur.id]
        if st is None or live is None:
            continue
        if cur.kind == "stmt" and isinstance(st, ast.Return) and \
                st.value is not None and is_alias(st.value, live):
            returns = True
        targets = []
        if cur.kind == "stmt" and isinstance(st, ast.Assign):
            targets = st.targets
        elif cur.kind == "stmt" and isinstance(st, ast.AugAssign):
            targets = [st.target]
        elif cur.kind == "stmt" and isinstance(st, ast.Delete):
            targets = st.targets
        for tgt in targets:
            if isinstance(tgt, ast.Subscript) and \
                    isinstance(tgt.value, ast.Name) and tgt.value.id in live:
                writes.append(st)
        for expr in header_exprs(cur):
            for call in ast.walk(expr):
                if isinstance(call, ast.Call) and \
                        isinstance(call.func, ast.Attribute) and \
                        call.func.attr in MUTATORS and \
                        isinstance(call.func.value, ast.Name) and \
                        call.func.value.id in live:
                    writes.append(st)
    return writes, returns


def caller_option_stores(func, cfg=None, alias_returning=()):
    return option_flow(func, cfg, alias_returning)[0]


def option_leaks(idx, base="psyclone.psyGen.Transformation"):
    """-> [(ClassInfo, FunctionDef, [writing statements])] for every method
    with an `options` parameter of every subclass of `base`, and the names of
    the methods that can hand the caller's dictionary back."""
    funcs = []
    for cls in idx.all_subclasses(base):
        for name, func in cls.methods.items():
            if isinstance(func, ast.FunctionDef) and "options" in [
                    a.arg for a in func.args.args + func.args.kwonlyargs]:
                funcs.append((cls, func))
    returning = set()
    for _ in range(3):      # summaries to a fixed point (depth is tiny)
        found = {func.name for cls, func in funcs
                 if option_flow(func, None, returning)[1]}
        if found == returning:
            break
        returning = found
    out = [(cls, func, option_flow(func, None, returning)[0])
           for cls, func in funcs]
    return out, returning


def check_subclass_chains(idx, run, rule):
    """Every ParallelLoopTrans subclass validate() chains to the generic one;
    the ones that force the dependence test off are the reviewed set."""
    base = idx.get_class(PLT)
    subs = idx.all_subclasses(base, include_self=False)
    run.floor("ParallelLoopTrans subclasses", len(subs), 8)
    setters = set()
    for cls in subs:
        if "validate" not in cls.methods:
            continue
        func = cls.methods["validate"]
        mod = cls.module
        supers = [c for c in ast.walk(func) if isinstance(c, ast.Call) and
                  ast.unparse(c.func) in ("super().validate",
                                          f"super({cls.name}, "
                                          f"self).validate")]
        cfg = CFG(func)
        # super().validate on every accepting path
        sup_nodes = [n for n in cfg.stmt_nodes()
                     if any(c in supers for c in calls_at(n))]
        dom = cfg.dominators().get(cfg.exit.id, set())
        ok = bool(sup_nodes) and any(n.id in dom for n in sup_nodes)
        run.check(rule, ok, f"{cls.name}.validate",
                  "chains to the generic validate on every accepting path",
                  f"{cls.name}.validate can accept a loop without calling "
                  f"super().validate: the dependence / colouring checks of "
                  f"the base classes are skipped", loc(mod, func))
        # does it force?
        forces = any(
            isinstance(s, ast.Assign) and isinstance(s.targets[0],
                                                     ast.Subscript) and
            ast.unparse(s.targets[0].slice) == "'force'" and
            isinstance(s.value, ast.Constant) and s.value.value is True
            for s in ast.walk(func))
        # a validate() that sets options itself works on its own copy: the
        # caller's dictionary is typically reused for the next loop
        stores = caller_option_stores(func, cfg)
        if True:
            okc = not stores
            run.check(rule, okc, f"{cls.name}.validate",
                      "options are copied before validate() changes them",
                      f"{cls.name}.validate stores into the caller's options "
                      f"dictionary "
                      f"({ast.unparse(stores[0])[:50] if stores else ''}): "
                      f"a script "
                      f"that reuses the dictionary passes 'force': True to "
                      f"the next transformation, which then skips its "
                      f"dependence analysis", loc(mod, stores[0] if stores else func))
        if forces:
            setters.add(cls.name)
            run.check(rule, cls.name in FORCE_SETTERS, f"{cls.name}.validate",
                      "switches the dependence test off",
                      f"{cls.name}.validate sets options['force'] itself "
                      f"and is not in the reviewed set "
                      f"{sorted(FORCE_SETTERS)}", loc(mod, func),
                      sample={"rule": rule, "class": cls.name,
                              "reason": FORCE_SETTERS.get(cls.name)})
    return setters


def check_fresh_unknown(idx, run, rule):
    """The dependence-distance solver introduces an unknown `d_<var>` and
    solves for it.  The name has to differ from every variable of the two
    subscripts, otherwise a user variable of that name is solved for instead
    (distance 0 => "no loop-carried dependence").  The renaming loop must
    therefore test the candidate against the *names* known to the SymPy
    writer (the keys of the type map) and must make progress."""
    cls = idx.get_class(
        "psyclone.psyir.tools.dependency_tools.DependencyTools")
    func = cls.methods.get("_get_dependency_distance")
    if func is None:
        raise AnalysisError("_get_dependency_distance not found")
    mod = cls.module
    cons = "DependencyTools._get_dependency_distance"
    whiles = [s for s in ast.walk(func) if isinstance(s, ast.While) and
              isinstance(s.test, ast.Compare) and
              isinstance(s.test.ops[0], ast.In)]
    if len(whiles) != 1:
        raise AnalysisError(f"{cons}: the renaming loop for the distance "
                            f"unknown was not found")
    loop = whiles[0]
    cand = ast.unparse(loop.test.left)
    coll = ast.unparse(loop.test.comparators[0])
    # the map returned together with the sympy expressions
    maps = set()
    for st in ast.walk(func):
        if isinstance(st, ast.Assign) and isinstance(st.targets[0], ast.Tuple)\
                and "type_map" in ast.unparse(st.value) or \
                isinstance(st, ast.Assign) and "type_map" in \
                ast.unparse(st.value):
            for tgt in ast.walk(st.targets[0]):
                if isinstance(tgt, ast.Name):
                    maps.add(tgt.id)
    ok = coll in maps or any(coll == f"{m}.keys()" for m in maps)
    run.check(rule, ok, cons,
              "the distance unknown is renamed until it differs from every "
              "variable name",
              f"the candidate '{cand}' is tested against '{coll}', which is "
              f"not the set of variable names of the SymPy type map "
              f"({sorted(maps)}): with a program variable called d_i the "
              f"solver's unknown d_i coincides with it, the distance of "
              f"a(i) / a(i + d_i) is solved as 0 and the loop is declared "
              f"parallel", loc(mod, loop))
    uses = [s for s in ast.walk(func) if isinstance(s, ast.Call) and
            ast.unparse(s.func).endswith("Symbol") and s.args and
            ast.unparse(s.args[0]) == cand]
    run.check(rule, bool(uses), cons,
              "the unknown is created from the renamed candidate",
              f"no sympy Symbol is created from '{cand}'", loc(mod, loop))
