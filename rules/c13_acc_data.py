"""C13 - OpenACC data regions move all data the region needs (decision table
of the clause chosen per access pattern).

R1 clause-choice   RegionDirective.create_data_movement_deep_copy_refs: the
                   dictionary chosen for every combination of
                   {has_read_write, is_read, is_written, is_written_first}
                   never is `write_only` when a read can precede a write and
                   never `read_only` when the variable is written.
R2 clause-mapping  the three result sets reach the right clauses:
                   read-only -> copyin, write-only -> copyout, else copy.
R3 validate        ACCDataTrans.validate obligations.
R4 extent          the copyout choice consults the extent of the writes
                   (it does not: known finding C13-a).
"""
import ast
import itertools
from sa.index import AnalysisError, loc
from sa.obligations import check_table

LEVEL = "other"
MANIFEST = {
    "level": "other",
    "text": "The if-chain that classifies each array of a data region is "
            "evaluated over all 2^4 combinations of the four access facts "
            "it consults (infeasible combinations removed) and compared "
            "with the OpenACC requirement 'read before written => copied "
            "in, written => copied out'; the order of the returned sets and "
            "their mapping to copyin / copyout / copy clauses is checked by "
            "def-use. Exhaustive over the abstract access patterns.",
    "note": "R4 shows from the code's shape that the copyout choice never "
            "looks at the extent of the writes (known finding C13-a, the "
            "property's own example). Whether a particular write covers "
            "its array, and execution on separate memory, are NOT decided.",
    "technique": "exhaustive evaluation of a decision chain over a finite "
                 "boolean domain + def-use of the result tuple + "
                 "obligation table + refusal-weakening check against the reviewed guard snapshot",
}
ATOMS = {"var_info.has_read_write(sig)": "rw",
         "var_info.is_read(sig)": "r",
         "var_info.is_written(sig)": "w",
         "vinfo.is_written_first()": "wf"}


class NeedChoice(Exception):
    pass


def truth(test, facts):
    """value of a test over the access facts; a test that is not one of the
    four facts is a free boolean (both values are explored)"""
    if isinstance(test, ast.BoolOp):
        vals = [truth(v, facts) for v in test.values]
        return all(vals) if isinstance(test.op, ast.And) else any(vals)
    if isinstance(test, ast.UnaryOp) and isinstance(test.op, ast.Not):
        return not truth(test.operand, facts)
    txt = " ".join(ast.unparse(test).split())
    if txt in ATOMS:
        return facts[ATOMS[txt]]
    key = "?" + txt
    if key not in facts:
        raise NeedChoice(key)
    return facts[key]


def eval_chain_once(stmts, facts, guards):
    result = None
    for stmt in stmts:
        if isinstance(stmt, ast.If):
            val = truth(stmt.test, facts)
            for node in ast.walk(stmt.test):
                txt = " ".join(ast.unparse(node).split())
                if txt in ATOMS or "?" + txt in facts:
                    guards.append(txt)
            sub = eval_chain_once(stmt.body if val else stmt.orelse, facts,
                                  guards)
            if sub is not None:
                result = sub
        elif isinstance(stmt, ast.Assign) and \
                ast.unparse(stmt.targets[0]) == "access_dict":
            result = ast.unparse(stmt.value)
    return result


def eval_chain_all(stmts, facts):
    """-> list of (free choices, chosen dictionary, guards consulted)"""
    out = []
    todo = [dict(facts)]
    while todo:
        cur = todo.pop()
        guards = []
        try:
            res = eval_chain_once(stmts, cur, guards)
        except NeedChoice as need:
            if len([k for k in cur if k.startswith("?")]) > 6:
                raise AnalysisError("data-movement chain: too many tests "
                                    "outside the four access facts")
            for val in (False, True):
                nxt = dict(cur)
                nxt[need.args[0]] = val
                todo.append(nxt)
            continue
        extra = {k[1:]: v for k, v in cur.items() if k.startswith("?")}
        out.append((extra, res, guards))
    return out



GUARDED = [
    ('ACCDataTrans', 'validate'),
]

def check(idx, run):
    run.explanation = __doc__
    from sa.guards import check_guards
    check_guards(idx, run, "C13.R5", GUARDED)
    dcls0 = idx.get_class(
        "psyclone.psyir.nodes.acc_directives.ACCDataDirective")
    res = idx.find_method(dcls0, "create_data_movement_deep_copy_refs")
    if res is None:
        raise AnalysisError("create_data_movement_deep_copy_refs not found")
    cls, func = res
    mod = cls.module
    cons = f"{cls.name}.create_data_movement_deep_copy_refs"
    fors = [s for s in func.body if isinstance(s, ast.For)]
    if len(fors) != 1:
        raise AnalysisError("signature loop not found")
    chain = [s for s in fors[0].body if isinstance(s, ast.If) and any(
        isinstance(a, ast.Assign) and
        ast.unparse(a.targets[0]) == "access_dict" for a in ast.walk(s))]
    if not chain:
        raise AnalysisError("the access classification chain was not found")
    run.check("C13.R1", ast.unparse(fors[0].iter) ==
              "var_info.all_signatures", cons, "all signatures classified",
              "the classification no longer runs over every signature "
              "accessed in the region", loc(mod, fors[0]))
    ncomb = 0
    for rw, r, w, wf in itertools.product([False, True], repeat=4):
        facts = {"rw": rw, "r": r, "w": w, "wf": wf}
        # infeasible combinations
        if wf and not w:
            continue
        if rw and not (r and w):
            continue        # a READWRITE access is both a read and a write
        if not (r or w):
            continue        # no access at all
        ncomb += 1
        runs = eval_chain_all(chain, facts)
        read_before_write = rw or (r and not (w and wf))
        need_in = read_before_write
        need_out = w or rw
        if need_in and need_out:
            want = {"readwrites"}
        elif need_in:
            want = {"read_only"}
        else:
            want = {"write_only", "readwrites"}   # copy is also safe
        bad = [(extra, res) for extra, res, _g in runs if res not in want]
        got = bad[0][1] if bad else runs[0][1]
        if bad and bad[0][0]:
            got = f"{got} (when {bad[0][0]})"
        run.check(
            "C13.R1", not bad, cons,
            f"has_read_write={rw} is_read={r} is_written={w} "
            f"written_first={wf}",
            f"an array with has_read_write={rw}, is_read={r}, "
            f"is_written={w}, is_written_first={wf} is put into "
            f"'{got}'; OpenACC needs {sorted(want)} (a value read before "
            f"it is written must be copied in, a written array copied "
            f"out)", loc(mod, chain[0]),
            sample={"rule": "C13.R1", "facts": facts, "chosen": got,
                    "allowed": sorted(want), "ok": not bad})
    run.floor("feasible access patterns", ncomb, 5)
    # R4: `write_only` (-> copyout) is only safe for an array that the
    # region writes completely: the choice has to consult the extent of the
    # writes, not just their order
    nwo = 0
    for facts, label in (({"rw": False, "r": False, "w": True, "wf": True},
                          "never read"),
                         ({"rw": False, "r": True, "w": True, "wf": True},
                          "written before it is read")):
        wo = [(extra, g) for extra, res, g in eval_chain_all(chain, facts)
              if res == "write_only"]
        if not wo:
            continue
        nwo += 1
        # the choice is acceptable if every way of reaching write_only passes
        # a test that is not one of the four order facts
        guards = sorted({g for _e, gs in wo for g in gs})
        extent = [g for g in guards if g not in ATOMS] if all(
            any(g not in ATOMS for g in gs) for _e, gs in wo) else []
        run.check(
            "C13.R4", bool(extent), cons,
            f"copyout only for completely written arrays ({label})",
            f"an array that is {label} is put into the copyout set on "
            f"the evidence of {guards} alone: nothing looks at which "
            f"elements are written, so a partially written array (do i=1,5:"
            f" a(i)=0 with a(n)) has the undefined rest of its device copy "
            f"copied back over the host data", loc(mod, chain[0]))
    run.count("write-only choices examined", nwo)
    # scalars skipped (outside the claim), everything else classified
    skips = [ast.unparse(s.test) for s in fors[0].body
             if isinstance(s, ast.If) and any(isinstance(b, ast.Continue)
                                              for b in s.body) and
             s not in chain]
    run.check("C13.R1", skips in (["isinstance(sym.datatype, ScalarType)"],
                                  ["isinstance(sym.datatype, ScalarType)",
                                   "not sig.is_structure"]), cons,
              "only scalars are left to the compiler",
              f"signatures are skipped under {skips}", loc(mod, fors[0]))
    # R2: order of the returned tuple and its consumer
    rets = [s for s in func.body if isinstance(s, ast.Return)]
    order = [ast.unparse(e) for e in rets[-1].value.elts] if rets and \
        isinstance(rets[-1].value, ast.Tuple) else []
    run.check("C13.R2", sorted(order) == ["read_only", "readwrites",
                                          "write_only"],
              cons, "returns the three sets",
              f"the result tuple is {order}", loc(mod, func))
    dcls = idx.get_class(
        "psyclone.psyir.nodes.acc_directives.ACCDataDirective")
    ufunc = dcls.methods.get("_update_data_movement_clauses")
    if ufunc is None:
        raise AnalysisError("_update_data_movement_clauses not found")
    unpack = [s for s in ast.walk(ufunc) if isinstance(s, ast.Assign) and
              "create_data_movement_deep_copy_refs" in ast.unparse(s.value)]
    names = [ast.unparse(e) for e in unpack[0].targets[0].elts] \
        if unpack else []
    mapping = {}
    for stmt in ast.walk(ufunc):
        if isinstance(stmt, ast.If) and ast.unparse(stmt.test) in names:
            for call in ast.walk(stmt):
                if isinstance(call, ast.Call) and ast.unparse(
                        call.func).startswith("ACCCop"):
                    mapping[names.index(ast.unparse(stmt.test))] = \
                        (ast.unparse(call.func),
                         ast.unparse(stmt.test) in ast.unparse(call))
    want = {"read_only": "ACCCopyInClause", "write_only": "ACCCopyOutClause",
            "readwrites": "ACCCopyClause"}
    for pos, dname in enumerate(order):
        klass = want.get(dname)
        got = mapping.get(pos)
        run.check("C13.R2", got is not None and got[0] == klass and got[1],
                  "ACCDataDirective._update_data_movement_clauses",
                  f"{dname} -> {klass}",
                  f"the {dname} set (element {pos} of the result) is turned "
                  f"into {got}, expected {klass} over the same set",
                  loc(dcls.module, ufunc))
    from sa.cfg import CFG
    ucfg = CFG(ufunc)
    udom = ucfg.dominators().get(ucfg.exit.id, set())
    for pos, dname in enumerate(order):
        if pos >= len(names):
            continue
        tests = [n for n in ucfg.stmt_nodes() if n.kind == "test" and
                 isinstance(n.ast, ast.If) and
                 ast.unparse(n.ast.test) == names[pos]]
        run.check("C13.R2", bool(tests) and any(t.id in udom
                                                for t in tests),
                  "ACCDataDirective._update_data_movement_clauses",
                  f"the {dname} clause is regenerated on every path",
                  f"_update_data_movement_clauses can return without "
                  f"rebuilding the clause for the {dname} set from the new "
                  f"analysis (an early exit keeps the old clauses): after "
                  f"an edit that moves an array from one set to another the "
                  f"directive keeps the stale clause",
                  loc(dcls.module, ufunc))
    txt = ast.unparse(ufunc)
    run.check("C13.R2", "self.children.remove(child)" in txt,
              "ACCDataDirective._update_data_movement_clauses",
              "old clauses removed before regeneration",
              "stale data-movement clauses are no longer removed",
              loc(dcls.module, ufunc))
    usig = dcls.methods.get("update_signal") or dcls.methods.get(
        "_update_node")
    if usig is not None:
        from sa.obligations import skips_consult
        res = skips_consult(usig, "_update_data_movement_clauses(")
        run.check("C13.R2", res is None, f"ACCDataDirective.{usig.name}",
                  "every change below the directive recomputes the clauses",
                  f"{usig.name} can return without recomputing the data "
                  f"clauses ({res}): an edit that changes how an array is "
                  f"accessed (e.g. its initialisation moved out of the "
                  f"region) leaves the stale copyout / copyin in place",
                  loc(dcls.module, usig))
    run.check("C13.R2", usig is not None and
              "_update_data_movement_clauses" in ast.unparse(usig),
              "ACCDataDirective", "clauses follow tree changes",
              "the data clauses are no longer recomputed when the region "
              "changes", loc(dcls.module, dcls.node))
    check_table(idx, run, "C13.R3", {
        ("ACCDataTrans", "validate"): {
            "raises": 2,
            "consults": [("super().validate(", "the region checks"),
                         ("schedule.walk(", "looking for an existing "
                          "enter-data directive")],
        }})
    run.exhaustive = True
    run.assumptions = ["whether a given write is complete is not decided"]
