"""C16 - symbol tables keep names unique and lookups scoped.

R1 normalised-keys   every store / guarding membership test on `_symbols`
                     uses a key that comes from `_normalize`
R2 who-writes        writers of `_symbols` / `_tags` / `_argument_list`
                     outside symbol_table.py are the reviewed ones
R3 scoped-lookup     get_symbols / get_tags / lookup / parent_symbol_table
R4 fresh-name        next_available_name / new_symbol
R5 atomic-reject     public mutators: nothing that may raise after the
                     first state change (with checked discharges)
R6 merge-once        _add_symbols_from_table / _handle_symbol_clash
"""
import ast
from sa.index import AnalysisError, loc, norm
from sa.cfg import CFG, header_exprs, calls_at
from sa.effects import Effects, FuncRef

LEVEL = "other"
MANIFEST = {
    "level": "other",
    "text": "Structural rules over SymbolTable: every store into the name "
            "map uses a normalised key (def-use), only reviewed code "
            "writes the maps, the scoped-lookup and fresh-name algorithms "
            "have the shape that implies 'innermost wins' and 'no clash "
            "with table, ancestors or other table', every public mutator "
            "raises only before its first state change (CFG reachability "
            "with interprocedural may-raise summaries; three discharges "
            "checked structurally), and merge adds each non-skipped symbol "
            "exactly once. These are facts about all paths, hence about "
            "all operation sequences.",
    "note": "resolve_imports / copy_external_import are outside the "
            "property's operation list and not analysed; sufficiency of "
            "check_for_clashes for the later renames inside merge is "
            "assumed (only its domination and argument agreement are "
            "checked); dict/OrderedDict semantics trusted.",
    "technique": "def-use normalisation rule + who-may-write scan + CFG "
                 "reachability (raise after state change) with "
                 "interprocedural may-raise summaries + algorithm-shape "
                 "rules + refusal-weakening check against the reviewed guard snapshot",
}

ST_MOD = "src/psyclone/psyir/symbols/symbol_table.py"
ST_CLS = "psyclone.psyir.symbols.symbol_table.SymbolTable"
MAPS = ("_symbols", "_tags", "_argument_list")
PUBLIC_MUTATORS = ["add", "new_symbol", "remove", "swap", "rename_symbol",
                   "merge", "specify_argument_list", "attach", "detach",
                   "swap_symbol_properties", "find_or_create",
                   "find_or_create_tag"]


def attr_chain_ends(node, name):
    return isinstance(node, ast.Attribute) and node.attr == name


# ----------------------------------------------------------------------
def is_normalised(expr, func, depth=0):
    """Is the key expression derived from _normalize on every def?"""
    if depth > 6:
        return False
    if isinstance(expr, ast.Constant) and isinstance(expr.value, str):
        return expr.value == expr.value.lower()
    if isinstance(expr, ast.Call):
        fname = ast.unparse(expr.func)
        if fname.endswith("._normalize") or fname == "_normalize":
            return True
        if fname.endswith(".lower") and not expr.args:
            return True
    if isinstance(expr, ast.Name):
        defs = []
        for sub in ast.walk(func):
            if isinstance(sub, ast.Assign):
                for tgt in sub.targets:
                    if isinstance(tgt, ast.Name) and tgt.id == expr.id:
                        defs.append(sub.value)
            elif isinstance(sub, (ast.For, ast.comprehension)):
                tgts = [sub.target]
                for tgt in tgts:
                    names = [tgt] if isinstance(tgt, ast.Name) else \
                        list(getattr(tgt, "elts", []))
                    for k, nm in enumerate(names):
                        if isinstance(nm, ast.Name) and nm.id == expr.id:
                            # iterating over the keys of a symbol map gives
                            # normalised keys (induction hypothesis)
                            it = ast.unparse(sub.iter)
                            if ("_symbols" in it or "symbols_dict" in it) \
                                    and (k == 0):
                                defs.append(ast.Constant(value="ok"))
                            else:
                                defs.append(None)
        if not defs:
            return False
        return all(d is not None and is_normalised(d, func, depth + 1)
                   for d in defs)
    return False


def check_normalised_keys(idx, run):
    mod = idx.module(ST_MOD)
    cls = idx.get_class(ST_CLS)
    # precondition: _normalize lower-cases its argument
    nfunc = cls.methods.get("_normalize")
    if nfunc is None:
        raise AnalysisError("SymbolTable._normalize not found")
    rets = [s for s in ast.walk(nfunc) if isinstance(s, ast.Return)]
    arg = nfunc.args.args[-1].arg
    txt = ast.unparse(nfunc)
    ok = len(rets) == 1 and f"{arg}.lower()" in txt
    run.check("C16.R1", ok, "SymbolTable._normalize", "case-folds",
              "_normalize no longer lower-cases its argument, so names "
              "differing only in case get different keys", loc(mod, nfunc))
    stores = 0
    for fmod, fcls, func in idx.functions_iter():
        qual = (fcls.name + "." if fcls else "") + func.name
        for sub in ast.walk(func):
            # X._symbols[key] = v
            if isinstance(sub, (ast.Assign, ast.AugAssign)):
                tgts = sub.targets if isinstance(sub, ast.Assign) \
                    else [sub.target]
                for tgt in tgts:
                    if isinstance(tgt, ast.Subscript) and \
                            attr_chain_ends(tgt.value, "_symbols"):
                        stores += 1
                        good = is_normalised(tgt.slice, func)
                        run.check(
                            "C16.R1", good, qual, norm(sub),
                            f"store into the symbol map with a key that "
                            f"is not derived from _normalize "
                            f"('{ast.unparse(tgt.slice)}'): two names "
                            f"differing only in case could coexist",
                            loc(fmod, sub))
            if isinstance(sub, ast.Call) and \
                    isinstance(sub.func, ast.Attribute) and \
                    sub.func.attr in ("setdefault", "__setitem__") and \
                    attr_chain_ends(sub.func.value, "_symbols"):
                stores += 1
                good = bool(sub.args) and is_normalised(sub.args[0], func)
                run.check("C16.R1", good, qual, norm(sub),
                          "store into the symbol map with a raw key",
                          loc(fmod, sub))
            # membership tests
            if isinstance(sub, ast.Compare) and len(sub.ops) == 1 and \
                    isinstance(sub.ops[0], (ast.In, ast.NotIn)) and \
                    attr_chain_ends(sub.comparators[0], "_symbols"):
                good = is_normalised(sub.left, func)
                guards_store = fcls is not None and fcls.name.endswith(
                    "SymbolTable") and func.name in (
                        "add", "rename_symbol", "remove", "new_symbol",
                        "next_available_name", "__contains__")
                if guards_store:
                    run.check(
                        "C16.R1", good, qual, norm(sub),
                        f"membership test that guards a store uses the raw "
                        f"key '{ast.unparse(sub.left)}': a clash differing "
                        f"only in case is not detected", loc(fmod, sub))
                elif not good:
                    run.note("C16.R1", f"{qual}: '{norm(sub)}' tests the "
                             f"map with a raw key (can only miss, i.e. a "
                             f"false rejection) {loc(fmod, sub)}")
            # raw-key deletes are notes
            if isinstance(sub, ast.Delete):
                for tgt in sub.targets:
                    if isinstance(tgt, ast.Subscript) and \
                            attr_chain_ends(tgt.value, "_symbols") and \
                            not is_normalised(tgt.slice, func):
                        run.note("C16.R1", f"{qual}: '{norm(sub)}' deletes "
                                 f"with a raw key (KeyError for a "
                                 f"mixed-case name; cannot break "
                                 f"uniqueness) {loc(fmod, sub)}")
    run.floor("stores into _symbols", stores, 1)


# ----------------------------------------------------------------------
# (relpath, function) -> reason.  Confirmed by reading on the pinned tree.
EXTERNAL_WRITERS = {
    ("src/psyclone/domain/gocean/go_symbol_table.py",
     "GOSymbolTable.create_from_table"):
        "builds a GOSymbolTable from an existing table by shallow-copying "
        "the three maps (keys already normalised)",
    ("src/psyclone/domain/gocean/transformations/"
     "raise_psyir_2_gocean_kern_trans.py",
     "RaisePSyIR2GOceanKernTrans.apply"):
        "pops the metadata DataTypeSymbol with a normalised key "
        "(remove() does not support it, TODO #898)",
    ("src/psyclone/domain/lfric/transformations/"
     "raise_psyir_2_lfric_kern_trans.py",
     "RaisePSyIR2LFRicKernTrans.apply"):
        "same as the GOcean raise transformation",
    ("src/psyclone/domain/common/transformations/"
     "alg_invoke_2_psy_call_trans.py",
     "AlgInvoke2PSyCallTrans.remove_imported_symbols"):
        "pops a functor DataTypeSymbol with a normalised key",
    ("src/psyclone/domain/gocean/transformations/gocean_opencl_trans.py",
     "GOOpenCLTrans._insert_kernel_code_in_opencl_file"):
        "deletes the 'go_wp' precision symbol from the *copied* kernel "
        "table (lower-case constant key, guarded by `in`)",
    ("src/psyclone/domain/lfric/transformations/"
     "lfric_alg_invoke_2_psy_call_trans.py",
     "LFRicAlgInvoke2PSyCallTrans.apply"):
        "deletes an unused DataTypeSymbol (raw key: note under R1)",
    ("src/psyclone/domain/lfric/algorithm/psyir/lfric_kernel_functor.py",
     "LFRicBuiltinFunctor.lower_to_language_level"):
        "deletes the builtin's DataTypeSymbol inside try/except KeyError",
    ("src/psyclone/psyir/transformations/hoist_local_arrays_trans.py",
     "HoistLocalArraysTrans.apply"):
        "deletes the hoisted DataSymbols and their tags after they were "
        "added to the container table",
    ("src/psyclone/psyir/frontend/fparser2.py",
     "_find_or_create_psyclone_internal_cmp"):
        "tags an *existing* routine symbol found by name in the same table "
        "(tags_dict store; tag uniqueness checked by the preceding "
        "lookup_with_tag)",
}


def qualname(fcls, func):
    return (fcls.name + "." if fcls else "") + func.name


def check_who_writes(idx, run):
    seen = 0
    writers = {}
    for fmod, fcls, func in idx.functions_iter():
        if fmod.relpath == ST_MOD:
            continue
        qual = qualname(fcls, func)
        for sub in ast.walk(func):
            hit = None
            if isinstance(sub, (ast.Assign, ast.AugAssign, ast.Delete)):
                if isinstance(sub, ast.Assign):
                    tgts = sub.targets
                elif isinstance(sub, ast.Delete):
                    tgts = sub.targets
                else:
                    tgts = [sub.target]
                for tgt in tgts:
                    base = tgt.value if isinstance(tgt, ast.Subscript) \
                        else tgt
                    if isinstance(base, ast.Attribute) and (
                            base.attr in MAPS or
                            base.attr in ("symbols_dict", "tags_dict")):
                        # `self._tags = ...` in an unrelated class that
                        # happens to have an attribute of that name
                        owner = ast.unparse(base.value)
                        if owner == "self" and not (
                                fcls and idx.is_subclass(fcls,
                                                         "SymbolTable")):
                            continue
                        hit = sub
            elif isinstance(sub, ast.Call) and \
                    isinstance(sub.func, ast.Attribute) and \
                    sub.func.attr in ("pop", "popitem", "clear", "update",
                                      "setdefault", "append", "insert",
                                      "remove", "extend", "move_to_end") and \
                    isinstance(sub.func.value, ast.Attribute) and \
                    (sub.func.value.attr in MAPS or
                     sub.func.value.attr in ("symbols_dict", "tags_dict")):
                owner = ast.unparse(sub.func.value.value)
                if owner == "self" and not (
                        fcls and idx.is_subclass(fcls, "SymbolTable")):
                    continue
                hit = sub
            if hit is None:
                continue
            seen += 1
            key = (fmod.relpath, qual)
            allowed = key in EXTERNAL_WRITERS
            writers.setdefault(key, []).append(norm(hit))
            run.check(
                "C16.R2", allowed, qual, norm(hit),
                f"'{norm(hit)}' changes a symbol table's internal maps "
                f"from outside symbol_table.py and is not in the reviewed "
                f"table: the table's invariants are no longer guaranteed "
                f"by its own methods", loc(fmod, hit),
                sample={"rule": "C16.R2", "writer": qual, "stmt": norm(hit),
                        "ok": allowed})
    run.floor("external writers of symbol-table maps", seen, 6)
    run.extra["external_writers"] = {f"{k[0]}::{k[1]}": v
                                     for k, v in writers.items()}


# ----------------------------------------------------------------------
def check_scoped_lookup(idx, run):
    mod = idx.module(ST_MOD)
    cls = idx.get_class(ST_CLS)
    for meth, mapname in (("get_symbols", "symbols_dict"),
                          ("get_tags", "tags_dict")):
        func = cls.methods.get(meth)
        if func is None:
            raise AnalysisError(f"SymbolTable.{meth} not found")
        run.count("scoping functions analysed")
        whiles = [s for s in func.body if isinstance(s, ast.While)]
        ok_start = ok_guard = ok_adv = False
        detail = ""
        if len(whiles) == 1:
            loop = whiles[0]
            cur = ast.unparse(loop.test)
            # `current = self` before the loop
            for stmt in func.body:
                if isinstance(stmt, ast.Assign) and \
                        ast.unparse(stmt.targets[0]) == cur and \
                        ast.unparse(stmt.value) == "self":
                    ok_start = True
            fors = [s for s in loop.body if isinstance(s, ast.For)]
            for forl in fors:
                if f"{cur}.{mapname}" not in ast.unparse(forl.iter) and \
                        f"{cur}._{mapname.split('_')[0]}" not in \
                        ast.unparse(forl.iter):
                    continue
                # body: if key not in acc: acc[key] = value
                for stmt in forl.body:
                    if isinstance(stmt, ast.If) and \
                            isinstance(stmt.test, ast.Compare) and \
                            isinstance(stmt.test.ops[0], ast.NotIn) and \
                            len(stmt.body) == 1 and \
                            isinstance(stmt.body[0], ast.Assign):
                        tgt = stmt.body[0].targets[0]
                        if isinstance(tgt, ast.Subscript) and \
                                ast.unparse(tgt.slice) == \
                                ast.unparse(stmt.test.left) and \
                                ast.unparse(tgt.value) == \
                                ast.unparse(stmt.test.comparators[0]):
                            ok_guard = True
                # no unguarded store into the accumulator
                for stmt in forl.body:
                    if isinstance(stmt, ast.Assign) and isinstance(
                            stmt.targets[0], ast.Subscript):
                        ok_guard = False
                        detail = "unguarded store: an outer scope's " \
                                 "symbol would overwrite the inner one"
            for stmt in loop.body:
                if isinstance(stmt, ast.Assign) and \
                        ast.unparse(stmt.targets[0]) == cur and \
                        "parent_symbol_table(scope_limit)" in \
                        ast.unparse(stmt.value) and \
                        ast.unparse(stmt.value).startswith(cur + "."):
                    ok_adv = True
        run.check("C16.R3", ok_start, f"SymbolTable.{meth}", "starts at self",
                  "the scope walk does not start from this table",
                  loc(mod, func))
        run.check("C16.R3", ok_guard, f"SymbolTable.{meth}",
                  "inner scope wins",
                  "a name already found in an inner scope can be replaced "
                  "by the one of an outer scope " + detail, loc(mod, func))
        run.check("C16.R3", ok_adv, f"SymbolTable.{meth}",
                  "advances to the enclosing scope",
                  "the walk does not advance through parent_symbol_table("
                  "scope_limit)", loc(mod, func))
    # lookup indexes get_symbols(scope_limit) with a normalised key
    func = cls.methods.get("lookup")
    if func is None:
        raise AnalysisError("SymbolTable.lookup not found")
    found = False
    for sub in ast.walk(func):
        if isinstance(sub, ast.Subscript) and isinstance(sub.value, ast.Call) \
                and ast.unparse(sub.value.func) == "self.get_symbols":
            found = True
            good = is_normalised(sub.slice, func) and \
                [ast.unparse(a) for a in sub.value.args] == ["scope_limit"]
            run.check("C16.R3", good, "SymbolTable.lookup",
                      "normalised scoped index",
                      "lookup does not index the scoped map with a "
                      "normalised key / drops scope_limit", loc(mod, sub))
    if not found:
        raise AnalysisError("lookup no longer indexes get_symbols(...)")
    # lookup_with_tag
    func = cls.methods.get("lookup_with_tag")
    if func is not None:
        good = any(isinstance(s, ast.Subscript) and
                   isinstance(s.value, ast.Call) and
                   ast.unparse(s.value.func) == "self.get_tags" and
                   [ast.unparse(a) for a in s.value.args] == ["scope_limit"]
                   for s in ast.walk(func))
        run.check("C16.R3", good, "SymbolTable.lookup_with_tag",
                  "scoped tag index", "lookup_with_tag does not use the "
                  "scoped tag map", loc(mod, func))
    # parent_symbol_table: nearest ancestor with a symbol table
    func = cls.methods.get("parent_symbol_table")
    if func is None:
        raise AnalysisError("parent_symbol_table not found")
    good = False
    for loop in [s for s in ast.walk(func) if isinstance(s, ast.While)]:
        test = ast.unparse(loop.test)
        body = loop.body
        if "is not scope_limit" in test and ".parent" in test and \
                len(body) >= 2 and isinstance(body[0], ast.Assign) and \
                ast.unparse(body[0].value).endswith(".parent") and \
                isinstance(body[1], ast.If) and \
                "hasattr" in ast.unparse(body[1].test) and \
                isinstance(body[1].body[0], ast.Return) and \
                ast.unparse(body[1].body[0].value).endswith(
                    ".symbol_table"):
            good = True
    run.check("C16.R3", good, "SymbolTable.parent_symbol_table",
              "nearest enclosing scope",
              "parent_symbol_table does not return the table of the "
              "nearest ancestor below scope_limit", loc(mod, func))


# ----------------------------------------------------------------------
def check_fresh_name(idx, run):
    mod = idx.module(ST_MOD)
    cls = idx.get_class(ST_CLS)
    func = cls.methods.get("next_available_name")
    if func is None:
        raise AnalysisError("next_available_name not found")
    txt_if = None
    # symbols = self._symbols if shadowing else self.get_symbols()
    src_ok = False
    for stmt in ast.walk(func):
        if isinstance(stmt, ast.If) and ast.unparse(stmt.test) == \
                "shadowing":
            tb = [ast.unparse(s) for s in stmt.body]
            fb = [ast.unparse(s) for s in stmt.orelse]
            if any(t.endswith("= self._symbols") for t in tb) and \
                    any(f.endswith("= self.get_symbols()") for f in fb):
                src_ok = True
                txt_if = stmt
        if isinstance(stmt, ast.IfExp) and ast.unparse(stmt.test) == \
                "shadowing" and ast.unparse(stmt.body) == "self._symbols" \
                and ast.unparse(stmt.orelse) == "self.get_symbols()":
            src_ok = True
    run.check("C16.R4", src_ok, "SymbolTable.next_available_name",
              "exclusion set covers enclosing scopes",
              "without shadowing the excluded names must come from "
              "get_symbols() (this table and all ancestors); with "
              "shadowing from this table", loc(mod, txt_if or func))
    # other_table names are united into the set tested by the loop
    whiles = [s for s in ast.walk(func) if isinstance(s, ast.While)]
    if len(whiles) != 1:
        raise AnalysisError("next_available_name: expected one while loop")
    loop = whiles[0]
    test = loop.test
    # the loop test is one membership test or a disjunction of them
    members = []
    shape_ok = True
    for part in (test.values if isinstance(test, ast.BoolOp) and
                 isinstance(test.op, ast.Or) else [test]):
        if isinstance(part, ast.Compare) and len(part.ops) == 1 and \
                isinstance(part.ops[0], ast.In):
            members.append(part)
        else:
            shape_ok = False
    if not members or not shape_ok:
        raise AnalysisError("next_available_name: the search loop test is "
                            "not a (disjunction of) membership test(s)")
    good_test = all(is_normalised(m.left, func) for m in members)
    run.check("C16.R4", good_test, "SymbolTable.next_available_name",
              "candidate tested normalised",
              "the candidate name is compared with a set of (normalised) "
              "names without being normalised itself, so a clash differing "
              "in case is missed", loc(mod, loop))

    # where do the tested collections come from? (transitive local defs)
    def sources(expr, depth=0):
        out = {ast.unparse(expr)}
        if depth > 5:
            return out
        for name in {n.id for n in ast.walk(expr)
                     if isinstance(n, ast.Name)}:
            for stmt in ast.walk(func):
                if isinstance(stmt, ast.Assign) and any(
                        isinstance(t, ast.Name) and t.id == name
                        for t in stmt.targets):
                    out |= sources(stmt.value, depth + 1)
        return out
    src = set()
    for mem in members:
        src |= sources(mem.comparators[0])
    alltxt = " ".join(sorted(src))
    has_self = "self._symbols" in alltxt and "self.get_symbols()" in alltxt
    other_ok = ("other_table.symbols_dict" in alltxt or
                "other_table._symbols" in alltxt or
                "other_table.get_symbols" in alltxt)
    run.check("C16.R4", has_self and other_ok,
              "SymbolTable.next_available_name", "other_table excluded",
              "the names tested by the search loop do not include this "
              "table (with or without ancestors) and the supplied "
              "other_table", loc(mod, func))
    # progress: candidate re-assigned from a counter incremented in the loop
    body_txt = [ast.unparse(s) for s in loop.body]
    first = members[0].left
    cand = ast.unparse(first.args[0]) if isinstance(first, ast.Call) and \
        first.args else ast.unparse(first)
    counter = None
    for stmt in loop.body:
        if isinstance(stmt, ast.AugAssign) and isinstance(stmt.op, ast.Add):
            counter = ast.unparse(stmt.target)
    progress = counter is not None and any(
        t.startswith(cand + " =") and counter in t for t in body_txt)
    run.check("C16.R4", progress, "SymbolTable.next_available_name",
              "loop makes progress",
              "the candidate is not rebuilt from an incremented counter: "
              "the search loop may not terminate", loc(mod, loop))
    rets = [s for s in func.body if isinstance(s, ast.Return)]
    run.check("C16.R4", bool(rets) and ast.unparse(rets[-1].value) == cand,
              "SymbolTable.next_available_name", "returns the candidate",
              "the returned name is not the tested candidate",
              loc(mod, func))
    # new_symbol: constructs with the returned name and adds it
    func = cls.methods.get("new_symbol")
    if func is None:
        raise AnalysisError("new_symbol not found")
    avail = None
    for stmt in ast.walk(func):
        if isinstance(stmt, ast.Assign) and isinstance(stmt.value, ast.Call) \
                and ast.unparse(stmt.value.func) == \
                "self.next_available_name":
            avail = ast.unparse(stmt.targets[0])
            args = [ast.unparse(a) for a in stmt.value.args] + \
                [f"{k.arg}={ast.unparse(k.value)}"
                 for k in stmt.value.keywords]
            good = "shadowing" in " ".join(args)
            run.check("C16.R4", good, "SymbolTable.new_symbol",
                      "shadowing forwarded",
                      "new_symbol does not forward its shadowing argument",
                      loc(mod, stmt))
    ctor_ok = add_ok = False
    symvar = None
    for stmt in ast.walk(func):
        if isinstance(stmt, ast.Assign) and isinstance(stmt.value, ast.Call) \
                and ast.unparse(stmt.value.func) == "symbol_type" and \
                stmt.value.args and \
                ast.unparse(stmt.value.args[0]) == avail:
            ctor_ok = True
            symvar = ast.unparse(stmt.targets[0])
    for stmt in ast.walk(func):
        if isinstance(stmt, ast.Call) and ast.unparse(stmt.func) == \
                "self.add" and stmt.args and \
                ast.unparse(stmt.args[0]) == symvar:
            add_ok = True
    run.check("C16.R4", avail is not None and ctor_ok and add_ok,
              "SymbolTable.new_symbol", "adds under the fresh name",
              "new_symbol does not create the symbol under exactly the "
              "name returned by next_available_name and add() it",
              loc(mod, func))


# ----------------------------------------------------------------------
STATE_METHODS = {"add", "remove", "rename_symbol", "merge", "swap",
                 "_add_container_symbols_from_table",
                 "_add_symbols_from_table", "_handle_symbol_clash",
                 "specify_argument_list", "new_symbol", "find_or_create",
                 "find_or_create_tag", "copy_properties", "specialise",
                 "attach", "detach", "resolve_imports"}


def classify_node(cnode, fref, eff):
    """-> set of kinds among 'mut', 'amut', 'raise', 'mayraise'."""
    kinds = set()
    node = cnode.ast
    if isinstance(node, ast.Raise):
        kinds.add("raise")
    exprs = header_exprs(cnode)
    if isinstance(node, (ast.Assign, ast.AugAssign, ast.Delete)) and \
            cnode.kind == "stmt":
        if isinstance(node, ast.Assign):
            tgts = node.targets
        elif isinstance(node, ast.Delete):
            tgts = node.targets
        else:
            tgts = [node.target]
        for tgt in tgts:
            base = tgt.value if isinstance(tgt, ast.Subscript) else tgt
            if isinstance(base, ast.Attribute) and (
                    base.attr in MAPS or base.attr in
                    ("_name", "_node", "_symbol_table", "interface",
                     "wildcard_import")):
                kinds.add("mut")
    for call in calls_at(cnode):
        if not isinstance(call.func, ast.Attribute):
            continue
        meth = call.func.attr
        recv = ast.unparse(call.func.value)
        if isinstance(call.func.value, ast.Attribute) and \
                call.func.value.attr in MAPS and meth in (
                    "pop", "popitem", "clear", "update", "setdefault",
                    "append", "remove", "insert", "extend"):
            kinds.add("mut")
            continue
        if meth in STATE_METHODS and (recv == "self" or "table" in recv or
                                      recv.startswith("symbol")):
            dry = any(k.arg == "dry_run" and
                      isinstance(k.value, ast.Constant) and k.value.value
                      for k in call.keywords)
            if dry:
                kinds.add("mayraise")
            else:
                kinds.add("amut")
            continue
        targets, ok = eff.resolve(fref, call)
        for tgt in targets:
            if eff.may_raise(tgt):
                kinds.add("mayraise")
    return kinds


def check_atomic(idx, run, eff):
    mod = idx.module(ST_MOD)
    cls = idx.get_class(ST_CLS)
    for meth in PUBLIC_MUTATORS:
        func = cls.methods.get(meth)
        if func is None:
            if meth in ("add", "remove", "rename_symbol", "merge", "swap",
                        "new_symbol"):
                raise AnalysisError(f"SymbolTable.{meth} not found")
            continue
        run.count("public mutators analysed")
        fref = FuncRef(mod, cls, func)
        cfg = CFG(func)
        kinds = {n.id: classify_node(n, fref, eff) for n in cfg.stmt_nodes()}
        changers = [n for n in cfg.stmt_nodes()
                    if kinds[n.id] & {"mut", "amut"}]
        bad = []
        for chg in changers:
            after = set()
            for nxt, _lab in chg.succ:
                after |= cfg.reachable(start=nxt)
            for nid in after:
                other = cfg.nodes[nid]
                if other.ast is None:
                    continue
                if nid == chg.id and "amut" not in kinds[nid]:
                    # a plain store repeated by a loop cannot raise
                    continue
                if kinds.get(nid, set()) & {"raise", "mayraise", "amut"}:
                    bad.append((chg, other))
        discharged = []
        remaining = []
        for chg, other in bad:
            reason = discharge(meth, func, cfg, chg, other)
            (discharged if reason else remaining).append(
                (chg, other, reason))
        for chg, other, reason in discharged:
            run.ob("C16.R5", True,
                   {"rule": "C16.R5", "method": meth,
                    "after": norm(chg.ast), "then": norm(other.ast),
                    "discharged_by": reason})
        seen = set()
        for chg, other, _ in remaining:
            key = (norm(chg.ast), norm(other.ast))
            if key in seen:
                continue
            seen.add(key)
            run.check(
                "C16.R5", False, f"SymbolTable.{meth}",
                f"{key[0]} -> {key[1]}",
                f"'{key[1]}' may raise after '{key[0]}' already changed "
                f"the table: a rejected {meth}() would not leave the table "
                f"as it was", loc(mod, other.ast),
                path=f"{meth}: {loc(mod, chg.ast)} -> {loc(mod, other.ast)}")
        if not remaining:
            run.ob("C16.R5", True, {"rule": "C16.R5", "method": meth,
                                    "state_changes": len(changers),
                                    "raise_after_change": 0})


def check_dry_run(idx, run):
    """R5b: check_for_clashes() (and through it merge()'s atomicity) relies
    on rename_symbol(..., dry_run=True) raising exactly when the real
    rename would: no refusal may be reachable after the dry-run exit."""
    mod = idx.module(ST_MOD)
    cls = idx.get_class(ST_CLS)
    func = cls.methods.get("rename_symbol")
    if func is None:
        raise AnalysisError("rename_symbol not found")
    cfg = CFG(func)
    tests = [n for n in cfg.stmt_nodes() if n.kind == "test" and
             isinstance(n.ast, ast.If) and
             ast.unparse(n.ast.test) == "dry_run"]
    if len(tests) != 1:
        raise AnalysisError("rename_symbol: expected exactly one "
                            "`if dry_run:` test")
    tnode = tests[0]
    returns = all(isinstance(s, ast.Return) for s in tnode.ast.body)
    run.check("C16.R5", returns, "SymbolTable.rename_symbol",
              "dry run changes nothing", "the dry-run branch does more than "
              "return", loc(mod, tnode.ast))
    after = set()
    for nxt, lab in tnode.succ:
        if lab == "false":
            after |= cfg.reachable(start=nxt)
    late = [cfg.nodes[i] for i in after
            if isinstance(cfg.nodes[i].ast, ast.Raise) and
            cfg.nodes[i].kind == "stmt"]
    run.check(
        "C16.R5", not late, "SymbolTable.rename_symbol",
        "dry run sees every refusal",
        f"'{norm(late[0].ast)[:80] if late else ''}' can refuse a real "
        f"rename but is placed after the dry-run exit: "
        f"check_for_clashes() would accept a merge that later fails "
        f"half-way, leaving both tables modified",
        loc(mod, late[0].ast) if late else loc(mod, func))
    # check_for_clashes must use the dry run for both tables
    cfunc = cls.methods.get("check_for_clashes")
    dry = [c for c in ast.walk(cfunc) if isinstance(c, ast.Call) and
           isinstance(c.func, ast.Attribute) and
           c.func.attr == "rename_symbol"]
    ok = len(dry) >= 2 and all(
        any(k.arg == "dry_run" and isinstance(k.value, ast.Constant) and
            k.value.value is True for k in c.keywords) for c in dry) and \
        {ast.unparse(c.func.value) for c in dry} == {"self", "other_table"}
    run.check("C16.R5", ok, "SymbolTable.check_for_clashes",
              "renameability probed by dry run on both tables",
              "check_for_clashes no longer probes rename_symbol(dry_run="
              "True) on this table and on the other table",
              loc(mod, cfunc))


def guard_raises_before(func, cfg, before_node, cond_pred):
    """Is there an `if <cond>: raise` whose test satisfies cond_pred and
    which dominates before_node?"""
    dom = cfg.dominators()
    for node in cfg.stmt_nodes():
        if node.kind == "test" and isinstance(node.ast, ast.If) and \
                cond_pred(node.ast.test) and \
                any(isinstance(s, ast.Raise) for s in node.ast.body):
            if node.id in dom.get(before_node.id, set()):
                return True
    return False


def discharge(meth, func, cfg, chg, other):
    """Structurally checked reasons why `other` cannot raise after `chg`."""
    otxt = norm(other.ast)
    ctxt = norm(chg.ast)
    if meth == "rename_symbol" and otxt.startswith("self.add("):
        # add(symbol) raises only if not a Symbol or the key is taken; both
        # are excluded by dominating guards on the same values
        arg = ast.unparse(other.ast.value.args[0])
        newname = None
        for sub in ast.walk(func):
            if isinstance(sub, ast.Assign) and \
                    ast.unparse(sub.targets[0]) == f"{arg}._name":
                newname = ast.unparse(sub.value)
        if newname is None:
            return None
        g1 = guard_raises_before(
            func, cfg, chg, lambda t: ast.unparse(t) ==
            f"not isinstance({arg}, Symbol)")
        g2 = guard_raises_before(
            func, cfg, chg, lambda t: ast.unparse(t) ==
            f"self._normalize({newname}) in self._symbols")
        only_tagless = not other.ast.value.keywords and \
            len(other.ast.value.args) == 1
        if g1 and g2 and only_tagless:
            return ("add() preconditions (is a Symbol; normalised new name "
                    "not in the map; no tag) are established by dominating "
                    "raise-guards before the delete")
        return None
    if meth == "rename_symbol" and ctxt.startswith("del ") and \
            ("_name =" in otxt):
        return None
    if meth == "swap" and ctxt.startswith("self.remove(") and \
            otxt.startswith("self.add("):
        old = ast.unparse(chg.ast.value.args[0])
        new = ast.unparse(other.ast.value.args[0])
        g1 = guard_raises_before(
            func, cfg, chg, lambda t: ast.unparse(t) ==
            f"not isinstance({new}, Symbol)")
        g2 = guard_raises_before(
            func, cfg, chg, lambda t: ast.unparse(t) ==
            f"not self._has_same_name({old}, {new})")
        if g1 and g2 and len(other.ast.value.args) == 1 and \
                not other.ast.value.keywords:
            return ("add(new) cannot raise: new is a Symbol (guard) and its "
                    "key equals the key just freed by remove(old) "
                    "(_has_same_name guard); no tag is passed")
        return None
    if meth == "merge":
        # everything after check_for_clashes relies on it
        dom = cfg.dominators()
        chk = [n for n in cfg.stmt_nodes() if any(
            ast.unparse(c.func) == "self.check_for_clashes" and
            [ast.unparse(a) for a in c.args] == ["other_table"] and
            [(k.arg, ast.unparse(k.value)) for k in c.keywords] ==
            [("symbols_to_skip", "symbols_to_skip")]
            for c in calls_at(n))]
        if chk and all(chk[0].id in dom.get(n.id, set())
                       for n in (chg, other)):
            skip_ok = True
            for call in calls_at(other):
                if ast.unparse(call.func) == "self._add_symbols_from_table":
                    skip_ok = [(k.arg, ast.unparse(k.value))
                               for k in call.keywords] == \
                        [("symbols_to_skip", "symbols_to_skip")]
            if skip_ok:
                return ("check_for_clashes(other_table, symbols_to_skip) "
                        "dominates both phases of the merge (its "
                        "sufficiency is an assumption of this check)")
        return None
    if meth in ("find_or_create", "find_or_create_tag", "new_symbol"):
        return None
    return None


# ----------------------------------------------------------------------
def check_merge_once(idx, run):
    mod = idx.module(ST_MOD)
    cls = idx.get_class(ST_CLS)
    func = cls.methods.get("_add_symbols_from_table")
    if func is None:
        raise AnalysisError("_add_symbols_from_table not found")
    fors = [s for s in func.body if isinstance(s, ast.For)]
    good_iter = len(fors) == 1 and ast.unparse(fors[0].iter) in (
        "other_table.symbols", "other_table._symbols.values()",
        "other_table.symbols_dict.values()")
    run.check("C16.R6", good_iter, "SymbolTable._add_symbols_from_table",
              "iterates over all symbols of the other table",
              "merge no longer walks every symbol of the other table",
              loc(mod, func))
    if not fors:
        return
    loop = fors[0]
    var = ast.unparse(loop.target)
    # skip condition: exactly symbols_to_skip or ContainerSymbol
    skips = [s for s in loop.body if isinstance(s, ast.If) and any(
        isinstance(b, ast.Continue) for b in s.body)]
    skip_txt = [ast.unparse(s.test) for s in skips]
    want = {f"{var} in symbols_to_skip or isinstance({var}, "
            f"ContainerSymbol)",
            f"isinstance({var}, ContainerSymbol) or {var} in "
            f"symbols_to_skip"}
    run.check("C16.R6", len(skips) == 1 and skip_txt[0] in want,
              "SymbolTable._add_symbols_from_table", "skips exactly the "
              "skip-list and containers",
              f"the merge loop skips on '{skip_txt}' - symbols other than "
              f"those in symbols_to_skip / ContainerSymbols would be "
              f"dropped, or skipped ones merged", loc(mod, loop))
    # one add per non-skipped symbol: try: self.add(var) except KeyError:
    # self._handle_symbol_clash(var, other_table)
    adds = [c for c in ast.walk(loop) if isinstance(c, ast.Call) and
            ast.unparse(c.func) == "self.add"]
    trys = [s for s in loop.body if isinstance(s, ast.Try)]
    shape = len(adds) == 1 and len(trys) == 1 and \
        [ast.unparse(a) for a in adds[0].args] == [var] and \
        len(trys[0].handlers) == 1 and \
        ast.unparse(trys[0].handlers[0].type) == "KeyError" and \
        any(isinstance(c, ast.Call) and ast.unparse(c.func) ==
            "self._handle_symbol_clash" and
            [ast.unparse(a) for a in c.args] == [var, "other_table"]
            for c in ast.walk(trys[0].handlers[0]))
    run.check("C16.R6", shape, "SymbolTable._add_symbols_from_table",
              "add-or-resolve-clash exactly once",
              "each non-skipped symbol must be add()ed once, a KeyError "
              "being resolved by _handle_symbol_clash(sym, other_table)",
              loc(mod, loop))
    # _handle_symbol_clash: every path either returns in the two
    # same-entity cases or reaches exactly one self.add(old_sym)
    func = cls.methods.get("_handle_symbol_clash")
    if func is None:
        raise AnalysisError("_handle_symbol_clash not found")
    cfg = CFG(func)
    arg = func.args.args[1].arg
    npaths = 0
    for path in cfg.paths():
        last = path[-1][0]
        if last is cfg.raise_exit:
            continue
        npaths += 1
        nadds = 0
        early = False
        fresh = True
        for node, label in path:
            if node.ast is None:
                continue
            for call in calls_at(node):
                if ast.unparse(call.func) == "self.add" and \
                        [ast.unparse(a) for a in call.args] == [arg]:
                    # an add that raised (edge 'exc') does not count
                    if label != "exc":
                        nadds += 1
                if ast.unparse(call.func) == "self.next_available_name":
                    kws = {k.arg: ast.unparse(k.value)
                           for k in call.keywords}
                    if kws.get("other_table") != "other_table":
                        fresh = False
            if isinstance(node.ast, ast.Return) and node.kind == "stmt":
                early = True
        if early and nadds == 0:
            # allowed only under the two documented conditions
            conds = [ast.unparse(n.ast.test) for n, lab in path
                     if n.kind == "test" and lab == "true" and
                     isinstance(n.ast, ast.If)]
            okc = any("is_import" in c for c in conds) or \
                any("is_unresolved" in c for c in conds)
            run.check("C16.R6", okc, "SymbolTable._handle_symbol_clash",
                      "return without add only for same-entity cases",
                      f"a path returns without adding the symbol under "
                      f"conditions {conds}", loc(mod, func))
        else:
            run.check("C16.R6", nadds == 1 and fresh,
                      "SymbolTable._handle_symbol_clash",
                      "exactly one add on a renaming path",
                      f"a normal path performs {nadds} add({arg}) calls or "
                      f"picks the new name without excluding other_table",
                      loc(mod, func))
    run.floor("_handle_symbol_clash normal paths", npaths, 3)
    # merge: calls the two phases in order
    func = cls.methods.get("merge")
    calls = [ast.unparse(c.func) for c in sorted(
        (c for c in ast.walk(func) if isinstance(c, ast.Call)),
        key=lambda c: (c.lineno, c.col_offset))]
    want = ["self.check_for_clashes",
            "self._add_container_symbols_from_table",
            "self._add_symbols_from_table"]
    pos = [calls.index(w) if w in calls else -1 for w in want]
    run.check("C16.R6", all(p >= 0 for p in pos) and pos == sorted(pos),
              "SymbolTable.merge", "phase order",
              "merge must check for clashes, then containers, then the "
              "remaining symbols", loc(mod, func))



GUARDED = [
    ("psyclone.psyir.symbols.symbol_table.SymbolTable", m) for m in (
        "add", "rename_symbol", "remove", "swap_symbol_properties",
        "check_for_clashes", "specify_argument_list", "_validate_arg_list",
        "lookup", "lookup_with_tag", "attach", "new_symbol",
        "find_or_create_tag", "merge", "_handle_symbol_clash")]

def check(idx, run):
    from sa.guards import check_guards
    check_guards(idx, run, "C16.R6", GUARDED)
    run.explanation = (
        "R1 def-use: keys stored into / tested against the name map come "
        "from _normalize; R2 who-may-write scan of the three maps; R3/R4 "
        "shape of the scoped lookup and fresh-name algorithms; R5 CFG "
        "reachability 'nothing that may raise after the first state "
        "change' per public mutator with interprocedural may-raise "
        "summaries (three structurally-checked discharges: rename_symbol "
        "del->add, swap remove->add, merge after check_for_clashes); R6 "
        "path enumeration of _handle_symbol_clash (exactly one add per "
        "non-returning path).")
    eff = Effects(idx)
    check_normalised_keys(idx, run)
    check_who_writes(idx, run)
    check_scoped_lookup(idx, run)
    check_fresh_name(idx, run)
    check_atomic(idx, run, eff)
    check_dry_run(idx, run)
    check_merge_once(idx, run)
    run.assumptions = [
        "dict / OrderedDict semantics",
        "check_for_clashes is sufficient for the renames performed later "
        "in merge (only domination and argument agreement are checked)",
        "resolve_imports / copy_external_import are outside the property's "
        "operation list"]
