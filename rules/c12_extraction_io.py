"""C12 - extraction regions record every input and output they need
(the structural clauses only).

R1 outputs      get_output_parameters adds *every* signature of the region
                for which is_written() holds - no other filter; is_written
                covers every access type that modifies (WRITE, READWRITE,
                INC, READINC, SUM).
R2 inputs       get_input_parameters adds every signature except those whose
                first access is a plain WRITE - no other filter - and both
                lists are computed from one access summary of the whole node
                list; ExtractNode passes these lists on unchanged.
R3 write-first  leaving a variable out of the inputs is only sound when the
                first write is unconditional and covers what is read later:
                the decision must look at more than the type of the first
                access (it does not: known findings C12-a, C12-b).
That the access summary itself is complete is C11; replaying a region is not
decided.
"""
import ast
from sa.index import AnalysisError, loc

LEVEL = "other"
MANIFEST = {
    "level": "other",
    "text": "The two functions that turn the access summary of a region "
            "into its input and output lists are reduced to their filter: "
            "the set of conditions under which a signature is *not* added. "
            "Outputs: only 'never written'. Inputs: only 'first access is a "
            "WRITE'. The write-first test is then inspected for what it "
            "consults (first access type only), which decides, for every "
            "region, that conditionally or partially written variables are "
            "dropped from the inputs (recorded as known findings with the "
            "confirmed failing input). The plumbing into ExtractNode is "
            "checked by def-use.",
    "note": "Decides the filter structure, not the replay: completeness of "
            "the access summary is C11's subject, non-local variables "
            "reached through the call tree and the driver generation are "
            "not analysed.",
    "technique": "filter extraction (per-iteration path enumeration) + "
                 "consulted-facts inspection + def-use",
}
CTU = "psyclone.psyir.tools.call_tree_utils.CallTreeUtils"
SVAI = "psyclone.core.single_variable_access_info.SingleVariableAccessInfo"
AT = "psyclone.core.access_type.AccessType"


def filter_of(func, adder):
    """-> (loop, list of (test text, branch leading to the add)) for the
    single loop of `func` that calls read_write_info.<adder>"""
    loops = [s for s in func.body if isinstance(s, ast.For)]
    loops = [l for l in loops if any(
        isinstance(c, ast.Call) and isinstance(c.func, ast.Attribute) and
        c.func.attr == adder for c in ast.walk(l))]
    if len(loops) != 1:
        raise AnalysisError(f"{func.name}: the loop calling {adder} was not "
                            f"found")
    loop = loops[0]
    guards = []

    def walk(stmts, trail):
        for stmt in stmts:
            if isinstance(stmt, ast.If):
                txt = " ".join(ast.unparse(stmt.test).split())
                walk(stmt.body, trail + [(txt, True)])
                walk(stmt.orelse, trail + [(txt, False)])
            elif isinstance(stmt, ast.Continue):
                guards.append(("skip", list(trail)))
            elif isinstance(stmt, ast.Expr) and isinstance(
                    stmt.value, ast.Call) and isinstance(
                        stmt.value.func, ast.Attribute) and \
                    stmt.value.func.attr == adder:
                guards.append(("add", list(trail)))
            elif isinstance(stmt, (ast.For, ast.While, ast.Try, ast.With)):
                raise AnalysisError(f"{func.name}: unexpected compound "
                                    f"statement in the filter loop")
    walk(loop.body, [])
    return loop, guards


def enum_members(idx):
    cls = idx.get_class(AT)
    out = []
    for stmt in cls.node.body:
        if isinstance(stmt, ast.Assign) and isinstance(stmt.targets[0],
                                                       ast.Name) and \
                isinstance(stmt.value, ast.Constant) and \
                stmt.targets[0].id.isupper():
            out.append(stmt.targets[0].id)
    return cls, out


def list_of(idx, cls, name, depth=0):
    func = cls.methods.get(name)
    if func is None:
        raise AnalysisError(f"AccessType.{name} not found")
    ret = [s for s in ast.walk(func) if isinstance(s, ast.Return)]
    out = []

    def collect(node):
        if isinstance(node, ast.List):
            for elt in node.elts:
                out.append(ast.unparse(elt).split(".")[-1])
        elif isinstance(node, ast.BinOp) and isinstance(node.op, ast.Add):
            collect(node.left)
            collect(node.right)
        elif isinstance(node, ast.Call) and isinstance(node.func,
                                                       ast.Attribute) and \
                depth < 3:
            out.extend(list_of(idx, cls, node.func.attr, depth + 1))
        else:
            raise AnalysisError(f"AccessType.{name}: cannot evaluate "
                                f"'{ast.unparse(node)}'")
    collect(ret[0].value)
    return out



PREDICATES = [
    ("psyclone.psyir.nodes.call.Call", "is_pure", True),
]

def check(idx, run):
    run.explanation = __doc__
    from sa.guards import check_predicates
    check_predicates(idx, run, "C12.R1", PREDICATES)
    cls = idx.get_class(CTU)
    mod = cls.module
    # R1 outputs
    ofunc = cls.methods.get("get_output_parameters")
    ifunc = cls.methods.get("get_input_parameters")
    bfunc = cls.methods.get("get_in_out_parameters")
    if not (ofunc and ifunc and bfunc):
        raise AnalysisError("CallTreeUtils.get_*_parameters not found")
    loop, guards = filter_of(ofunc, "add_write")
    run.check("C12.R1", ast.unparse(loop.iter) ==
              "variables_info.all_signatures",
              "CallTreeUtils.get_output_parameters",
              "all signatures of the region are considered",
              f"the output loop runs over '{ast.unparse(loop.iter)}'",
              loc(mod, loop))
    adds = [g for kind, g in guards if kind == "add"]
    skips = [g for kind, g in guards if kind == "skip"]
    okw = len(adds) == 1 and not skips and len(adds[0]) == 1 and \
        adds[0][0][1] is True and adds[0][0][0] in (
            "variables_info.is_written(signature)",
            "variables_info[signature].is_written()")
    run.check("C12.R1", okw, "CallTreeUtils.get_output_parameters",
              "the only filter is 'is written'",
              f"a signature becomes an output under {adds} and is skipped "
              f"under {skips}: every variable the region may modify has to "
              f"be an output, nothing else may be filtered",
              loc(mod, loop), sample={"rule": "C12.R1", "adds": str(adds),
                                      "skips": str(skips), "ok": okw})
    atcls, members = enum_members(idx)
    run.floor("AccessType members", len(members), 6)
    writes = set(list_of(idx, atcls, "all_write_accesses"))
    reads = set(list_of(idx, atcls, "all_read_accesses"))
    modifying = {m for m in members if m not in ("READ", "UNKNOWN")}
    reading = {m for m in members if m not in ("WRITE", "SUM", "UNKNOWN")}
    run.check("C12.R1", modifying <= writes, "AccessType.all_write_accesses",
              "every modifying access type counts as a write",
              f"{sorted(modifying - writes)} modify their argument but are "
              f"not in all_write_accesses(): such variables would not be "
              f"outputs", loc(atcls.module, atcls.methods[
                  "all_write_accesses"]))
    run.check("C12.R1", reading <= reads, "AccessType.all_read_accesses",
              "every reading access type counts as a read",
              f"{sorted(reading - reads)} read their argument but are not "
              f"in all_read_accesses()", loc(atcls.module, atcls.methods[
                  "all_read_accesses"]))
    scls = idx.get_class(SVAI)
    wfunc = scls.methods.get("is_written")
    wtxt = " ".join(ast.unparse(wfunc).split()) if wfunc else ""
    run.check("C12.R1", "AccessType.all_write_accesses()" in wtxt and
              "any(" in wtxt and "self._accesses" in wtxt,
              "SingleVariableAccessInfo.is_written",
              "written = some access of a modifying type",
              "is_written no longer means 'any access is one of "
              "all_write_accesses()'", loc(scls.module, wfunc or scls.node))
    # R2 inputs
    loop, guards = filter_of(ifunc, "add_read")
    run.check("C12.R2", ast.unparse(loop.iter) ==
              "variables_info.all_signatures",
              "CallTreeUtils.get_input_parameters",
              "all signatures of the region are considered",
              f"the input loop runs over '{ast.unparse(loop.iter)}'",
              loc(mod, loop))
    adds = [g for kind, g in guards if kind == "add"]
    skips = [g for kind, g in guards if kind == "skip"]
    okr = len(adds) == 1 and not skips and len(adds[0]) == 1 and \
        adds[0][0] in (("not variables_info[signature].is_written_first()",
                        True),
                       ("variables_info[signature].is_written_first()",
                        False))
    run.check("C12.R2", okr, "CallTreeUtils.get_input_parameters",
              "the only filter is 'written first'",
              f"a signature becomes an input under {adds} and is skipped "
              f"under {skips}: only a variable whose incoming value cannot "
              f"be read may be left out", loc(mod, loop),
              sample={"rule": "C12.R2", "adds": str(adds),
                      "skips": str(skips), "ok": okr})
    # one summary for both
    btxt = " ".join(ast.unparse(bfunc).split())
    summ = [s for s in bfunc.body if isinstance(s, ast.Assign) and
            "VariablesAccessInfo(node_list" in ast.unparse(s.value)]
    name = ast.unparse(summ[0].targets[0]) if summ else "?"
    run.check("C12.R2", bool(summ) and
              f"self.get_input_parameters(read_write_info, node_list, "
              f"{name})" in btxt and
              f"self.get_output_parameters(read_write_info, node_list, "
              f"{name})" in btxt, "CallTreeUtils.get_in_out_parameters",
              "inputs and outputs from one summary of the whole node list",
              "inputs and outputs are no longer computed from the same "
              "access summary of the complete node list",
              loc(mod, bfunc))
    ecls = idx.get_class("psyclone.psyir.nodes.extract_node.ExtractNode")
    nsites = 0
    for mname in ("gen_code", "lower_to_language_level"):
        func = ecls.methods.get(mname)
        if func is None:
            continue
        nsites += 1
        txt = " ".join(ast.unparse(func).split())
        run.check("C12.R2", "ctu.get_in_out_parameters(self" in txt and
                  "'pre_var_list': self._read_write_info.read_list" in txt
                  and "'post_var_list': self._read_write_info.write_list"
                  in txt, f"ExtractNode.{mname}",
                  "inputs written before, outputs after the region",
                  "the extraction node no longer hands the computed input "
                  "list to the pre-region and the output list to the "
                  "post-region data", loc(ecls.module, func))
    run.floor("ExtractNode code-generation sites", nsites, 1)
    # who hands a pre-computed list to the node (it then never recomputes:
    # the list is stale as soon as the region is transformed again)
    PRECOMPUTED_REVIEWED = {
        "LFRicExtractTrans": "needs the non-local symbols of the call tree, "
                             "which the node cannot compute itself",
    }
    npre = 0
    for pcls in idx.all_subclasses(idx.get_class("ExtractTrans"),
                                   include_self=True):
        for fname, func in pcls.methods.items():
            for st in ast.walk(func):
                if isinstance(st, ast.Assign) and isinstance(
                        st.targets[0], ast.Subscript) and \
                        "'read_write_info'" in ast.unparse(st.targets[0]):
                    npre += 1
                    run.check(
                        "C12.R2", pcls.name in PRECOMPUTED_REVIEWED,
                        f"{pcls.name}.{fname}",
                        "input / output lists are computed when the code is "
                        "written",
                        f"{pcls.name}.{fname} stores a read/write list "
                        f"computed at apply time in the options of the "
                        f"extraction node; the node then never recomputes "
                        f"it, so a transformation applied to the region "
                        f"afterwards (new loop bounds, fused kernels) "
                        f"changes what is read without changing what is "
                        f"recorded", loc(pcls.module, st))
    run.extra["precomputed_lists"] = npre
    # the work list that follows calls into other modules: an entry may only
    # be skipped when an identical one (including its access information)
    # was handled before
    rfunc = cls.methods.get("_resolve_calls_and_unknowns")
    if rfunc is not None:
        loops = [w for w in ast.walk(rfunc) if isinstance(w, ast.While)]
        for loop in loops:
            pops = [a for a in loop.body if isinstance(a, ast.Assign) and
                    ".pop(" in ast.unparse(a.value)]
            unpack = [a for a in loop.body if isinstance(a, ast.Assign) and
                      isinstance(a.targets[0], ast.Tuple) and pops and
                      ast.unparse(a.value) == ast.unparse(pops[0].targets[0])]
            if pops and isinstance(pops[0].targets[0], ast.Tuple):
                unpack = [pops[0]]      # popped and unpacked in one go
            skips = [st for st in loop.body if isinstance(st, ast.If) and
                     isinstance(st.test, ast.Compare) and
                     isinstance(st.test.ops[0], ast.In) and
                     any(isinstance(b, ast.Continue) for b in st.body)
                     and isinstance(st.test.comparators[0], ast.Name)]
            if not (pops and unpack and skips):
                continue
            item = ast.unparse(pops[0].targets[0])
            comps = [ast.unparse(e) for e in unpack[0].targets[0].elts]
            for st in skips:
                setname = st.test.comparators[0].id
                adds = [c for c in ast.walk(loop) if isinstance(c, ast.Call)
                        and ast.unparse(c.func) == f"{setname}.add"]
                if not adds:
                    continue
                keytxt = ast.unparse(st.test.left)
                key_names = {n.id for n in ast.walk(st.test.left)
                             if isinstance(n, ast.Name)}
                # expand a key built in a local variable
                for a in loop.body:
                    if isinstance(a, ast.Assign) and ast.unparse(
                            a.targets[0]) == keytxt:
                        key_names |= {n.id for n in ast.walk(a.value)
                                      if isinstance(n, ast.Name)}
                dropped = []
                if item not in key_names:
                    for comp in comps:
                        if comp in key_names:
                            continue
                        used = any(isinstance(n, ast.Name) and n.id == comp
                                   and isinstance(n.ctx, ast.Load)
                                   for b in loop.body for n in ast.walk(b)
                                   if b is not unpack[0])
                        if used:
                            dropped.append(comp)
                run.check(
                    "C12.R2", not dropped,
                    "CallTreeUtils._resolve_calls_and_unknowns",
                    "work-list entries are only skipped when identical",
                    f"an outstanding non-local symbol is skipped when "
                    f"'{keytxt}' was seen before, although {dropped} of the "
                    f"entry still decide(s) what is recorded: a module "
                    f"variable written in one routine and read in another "
                    f"is recorded from the first routine processed only",
                    loc(mod, st))
    # R3 what the write-first test consults
    ffunc = scls.methods.get("is_written_first")
    if ffunc is None:
        raise AnalysisError("is_written_first not found")
    ftxt = " ".join(ast.unparse(ffunc).split())
    run.check("C12.R3", "self._accesses[0].access_type == AccessType.WRITE"
              in ftxt, "SingleVariableAccessInfo.is_written_first",
              "only a plain WRITE as first access excludes",
              "the write-first test no longer requires the first access to "
              "be a plain WRITE (READWRITE / INC read the incoming value)",
              loc(scls.module, ffunc))
    used = {n.attr for n in ast.walk(ffunc) if isinstance(n, ast.Attribute)}
    used |= {ast.unparse(c.func).split(".")[-1] for c in ast.walk(ffunc)
             if isinstance(c, ast.Call)}
    iused = {n.attr for n in ast.walk(ifunc) if isinstance(n, ast.Attribute)}
    cond_facts = {"ancestor", "IfBlock", "is_conditional", "conditional",
                  "WhileLoop", "is_unconditional"}
    extent_facts = {"component_indices", "indices", "is_full_range",
                    "shape", "is_array", "get_signature_and_indices",
                    "covers"}
    facts = used | iused
    run.check(
        "C12.R3", bool(facts & cond_facts),
        "SingleVariableAccessInfo.is_written_first",
        "a conditional first write does not exclude the variable",
        "a variable is left out of the region's inputs because its first "
        "access is a write, without looking at whether that write is "
        "executed on every path: `if (flag) t = 1.0; c(1) = t` reports no "
        "input t although the incoming t is read when flag is false",
        loc(scls.module, ffunc))
    run.check(
        "C12.R3", bool(facts & extent_facts),
        "SingleVariableAccessInfo.is_written_first",
        "a partial first write does not exclude the array",
        "an array is left out of the region's inputs because its first "
        "access is a write, without comparing the elements written with "
        "those read later: `a(1) = 0.0; b(1) = a(2)` reports no input a "
        "although the incoming a(2) is read", loc(scls.module, ffunc))
    run.assumptions = ["the access summary is complete (C11)"]
