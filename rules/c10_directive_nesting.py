"""C10 - directive trees produced by accepted transformations are valid:
the writer refuses invalid nesting.

R1 constraint-table   every directive class enforces its nesting rule
                      (MRO-resolved validate_global_constraints, matched
                      semantically: ancestor class set, polarity, excluding).
R2 checked-before-emit the rule runs before anything is emitted: the PSyIR
                      visitor validates each node by default, and every
                      directive gen_code validates before its first
                      parent.add(DirectiveGen(...)).
R3 collapse-siblings  every loop directive that carries a collapse count
                      checks, per level, `is a Loop` and `only child`.
R4 exclusion-inheritance a transformation that re-binds excluded_node_types
                      keeps what it would otherwise inherit.
"""
import ast
from sa.index import AnalysisError, loc, norm, const_value
from sa.cfg import CFG, calls_at

LEVEL = "other"
MANIFEST = {
    "level": "other",
    "text": "A frozen table of nesting requirements (one row per directive "
            "class, confirmed against the OpenMP/OpenACC rules quoted in "
            "the property) is matched semantically against the "
            "MRO-resolved validate_global_constraints of each class; a "
            "dominance rule shows that validation precedes emission in "
            "every gen_code and in the PSyIR visitor (whose default flows "
            "from check_global_constraints=True); the collapse validation "
            "of sibling loop directives is cross-checked; exclusion tuples "
            "must not shrink in subclasses. These are facts about the "
            "writer for every tree, whatever sequence of transformations "
            "built it.",
    "note": "Acceptance by a real compiler and clause syntax are not "
            "decided. Config.backend_checks_enabled can switch the visitor "
            "check off (documented user option).",
    "technique": "semantic pattern matching of guard-and-raise obligations "
                 "over MRO-resolved methods + CFG dominance + sibling "
                 "cross-check + MRO-resolved constant tuples + refusal-weakening check against the reviewed guard snapshot",
}

# class -> list of requirements
#   ("need", {ancestor classes}, excluding-or-None)
#   ("forbid", {ancestor classes})
#   ("super",)  must chain to the base-class check
TABLE = {
    "OMPDoDirective": [("need", {"OMPParallelDirective"},
                        "OMPParallelDoDirective"), ("single_loop",),
                       ("collapse",), ("super",)],
    "OMPParallelDoDirective": [("forbid", {"OMPParallelDirective"}),
                               ("single_loop",), ("collapse",)],
    "OMPTaskwaitDirective": [("need", {"OMPParallelDirective"},
                              "OMPParallelDoDirective"), ("super",)],
    "OMPSerialDirective": [("need", {"OMPParallelDirective"},
                            "OMPParallelDoDirective"),
                           ("forbid", {"OMPSerialDirective"}), ("super",)],
    "OMPSingleDirective": [("need", {"OMPParallelDirective"},
                            "OMPParallelDoDirective"),
                           ("forbid", {"OMPSerialDirective"})],
    "OMPMasterDirective": [("need", {"OMPParallelDirective"},
                            "OMPParallelDoDirective"),
                           ("forbid", {"OMPSerialDirective"})],
    "OMPParallelDirective": [("forbid", {"OMPParallelDirective"})],
    "OMPTaskloopDirective": [("need", {"OMPSerialDirective"}, None),
                             ("super",)],
    "OMPLoopDirective": [("need", {"OMPTargetDirective",
                                   "OMPParallelDirective"}, None),
                         ("single_loop",), ("collapse",), ("super",)],
    "OMPTeamsDistributeParallelDoDirective": [
        ("forbid", {"OMPParallelDirective"}), ("single_loop",),
        ("collapse",)],
    "ACCLoopDirective": [("need", {"ACCParallelDirective",
                                   "ACCKernelsDirective"}, None),
                         ("collapse",), ("super",)],
    "OMPDeclareTargetDirective": [("first_child_of_routine",), ("super",)],
    "OMPTaskDirective": [("need", {"OMPSingleDirective"}, None)],
    "DynamicOMPTaskDirective": [("need", {"OMPSingleDirective"}, None)],
}


def resolve_vgc(idx, cls):
    res = idx.find_method(cls, "validate_global_constraints")
    if res is None:
        raise AnalysisError(f"{cls.name}: validate_global_constraints not "
                            f"found")
    return res


def class_set(idx, mod, node):
    """names in `X` or `(X, Y)`"""
    if isinstance(node, ast.Tuple):
        return {ast.unparse(e).split(".")[-1] for e in node.elts}
    return {ast.unparse(node).split(".")[-1]}


def guards_in(idx, owner, func, depth=0):
    """Collect (kind, classes, excluding) guards that raise GenerationError,
    following calls to other methods of self and explicit base-class calls.
    Also returns flags: chains_super, helper names called."""
    guards = []
    helpers = set()
    chains = False
    mod = owner.module
    for stmt in ast.walk(func):
        if isinstance(stmt, ast.If) and any(
                isinstance(b, ast.Raise) and "GenerationError" in
                ast.unparse(b) for b in stmt.body):
            test = stmt.test
            neg = False
            inner = test
            if isinstance(inner, ast.UnaryOp) and isinstance(inner.op,
                                                             ast.Not):
                neg = True
                inner = inner.operand
            if isinstance(inner, ast.Compare) and len(inner.ops) == 1 and \
                    isinstance(inner.ops[0], ast.IsNot) and \
                    isinstance(inner.comparators[0], ast.Constant) and \
                    inner.comparators[0].value is None:
                inner = inner.left
            calls = []
            # `not (A or B)`: both alternatives
            alts = inner.values if isinstance(inner, ast.BoolOp) and \
                isinstance(inner.op, ast.Or) else [inner]
            for alt in alts:
                if isinstance(alt, ast.Call) and \
                        ast.unparse(alt.func) == "self.ancestor" and alt.args:
                    excl = None
                    for kword in alt.keywords:
                        if kword.arg == "excluding":
                            excl = ast.unparse(kword.value).split(".")[-1]
                    calls.append((class_set(idx, mod, alt.args[0]), excl))
            for classes, excl in calls:
                guards.append(("need" if neg else "forbid", classes, excl))
            ttxt = ast.unparse(test)
            if "isinstance(self.parent, Routine)" in ttxt and \
                    "self.parent.children[0] is not self" in ttxt:
                guards.append(("first_child_of_routine", None, None))
    for call in [c for c in ast.walk(func) if isinstance(c, ast.Call)]:
        name = ast.unparse(call.func)
        if name in ("super().validate_global_constraints",) or \
                (name.startswith("super(") and
                 name.endswith(".validate_global_constraints")):
            chains = True
            nxt = idx.find_method(owner, "validate_global_constraints",
                                  after=owner)
            if name.startswith("super(") and "," in name:
                # super(X, self): continue after X in the MRO
                start = name[len("super("):].split(",")[0].strip()
                for kls in idx.mro(owner):
                    if kls.name == start:
                        nxt = idx.find_method(
                            owner, "validate_global_constraints", after=kls)
            if nxt and depth < 6:
                sub = guards_in(idx, nxt[0], nxt[1], depth + 1)
                guards += sub[0]
                helpers |= sub[1]
        elif name.endswith(".validate_global_constraints") and \
                not name.startswith("self.") and call.args and \
                ast.unparse(call.args[0]) == "self":
            base = idx.by_simple.get(name.split(".")[0], [None])[0]
            if base is not None and depth < 6 and \
                    "validate_global_constraints" in base.methods:
                sub = guards_in(
                    idx, base, base.methods["validate_global_constraints"],
                    depth + 1)
                guards += sub[0]
                helpers |= sub[1]
        elif name.startswith("self._") and not call.args:
            helpers.add(name[5:])
    return guards, helpers, chains


def perfect_nest_check(func):
    """Does `func` contain the collapse walk with both tests?
    -> (has_walk, checks_loop, checks_only_child)"""
    has_walk = checks_loop = only_child = False
    for stmt in ast.walk(func):
        if isinstance(stmt, ast.For) and "collapse" in \
                ast.unparse(stmt.iter):
            has_walk = True
            for sub in ast.walk(stmt):
                if isinstance(sub, ast.If) and any(
                        isinstance(b, ast.Raise) for b in sub.body):
                    txt = ast.unparse(sub.test)
                    if "isinstance(cursor, Loop)" in txt:
                        checks_loop = True
                    if "len(cursor.parent.children) != 1" in txt or \
                            "len(cursor.parent.children) > 1" in txt:
                        only_child = True
    return has_walk, checks_loop, only_child


def check_table(idx, run):
    seen = 0
    for cname, reqs in sorted(TABLE.items()):
        cands = idx.by_simple.get(cname, [])
        if not cands:
            run.note("C10.R1", f"class {cname} not present (skipped)")
            continue
        cls = cands[0]
        owner, func = resolve_vgc(idx, cls)
        mod = owner.module
        seen += 1
        guards, helpers, chains = guards_in(idx, owner, func)
        helper_funcs = []
        for hname in helpers:
            res = idx.find_method(cls, hname)
            if res:
                helper_funcs.append(res[1])
        for req in reqs:
            where = loc(mod, func)
            if req[0] in ("need", "forbid"):
                want_cls, want_excl = req[1], (req[2] if len(req) > 2
                                               else None)
                ok = any(g[0] == req[0] and g[1] == want_cls and
                         (req[0] == "forbid" or g[2] == want_excl)
                         for g in guards)
                what = "must be inside" if req[0] == "need" else \
                    "must not be inside"
                run.check(
                    "C10.R1", ok, f"{cname}.validate_global_constraints",
                    f"{what} {sorted(want_cls)}"
                    + (f" excluding {want_excl}" if want_excl else ""),
                    f"{cname} {what} {sorted(want_cls)}"
                    + (f" (a {want_excl} does not count)" if want_excl
                       else "")
                    + f", but the MRO-resolved validate_global_constraints "
                    f"({owner.name}) has no guard that raises "
                    f"GenerationError for it; found "
                    f"{[(g[0], sorted(g[1] or []), g[2]) for g in guards]}",
                    where)
            elif req[0] == "first_child_of_routine":
                ok = any(g[0] == "first_child_of_routine" for g in guards)
                run.check("C10.R1", ok,
                          f"{cname}.validate_global_constraints",
                          "first child of a Routine",
                          f"{cname} must be the first child of a Routine",
                          where)
            elif req[0] == "single_loop":
                txt = ast.unparse(func) + "".join(ast.unparse(h)
                                                  for h in helper_funcs)
                ok = "_validate_single_loop" in helpers or (
                    "len(self.dir_body.children) != 1" in txt and
                    "isinstance(self.dir_body.children[0], Loop)" in txt)
                run.check("C10.R1", ok,
                          f"{cname}.validate_global_constraints",
                          "exactly one Loop child",
                          f"{cname} must contain exactly one loop", where)
            elif req[0] == "collapse":
                pass  # R3
            elif req[0] == "super":
                run.check("C10.R1", chains,
                          f"{cname}.validate_global_constraints",
                          "chains to the base-class constraints",
                          f"{owner.name}.validate_global_constraints does "
                          f"not call super(): constraints of the base "
                          f"classes (e.g. no CodeBlock inside an OpenACC "
                          f"region) are skipped", where)
    run.floor("directive classes with a nesting rule", seen, 12)


def check_collapse(idx, run):
    """R3: all loop directives with a collapse count validate a perfect
    nest."""
    carriers = []
    for cls in idx.classes.values():
        if not idx.is_subclass(cls, "Directive"):
            continue
        init = cls.methods.get("__init__")
        if init is None:
            continue
        if any(isinstance(s, ast.Assign) and
               ast.unparse(s.targets[0]) == "self._collapse"
               for s in ast.walk(init)) or any(
                   a.arg == "collapse" for a in init.args.args +
                   init.args.kwonlyargs):
            carriers.append(cls)
    # include subclasses that inherit the attribute
    names = set()
    for cls in carriers:
        for sub in idx.all_subclasses(cls):
            names.add(sub.qname)
    run.floor("loop directives with a collapse count", len(names), 4)
    for qname in sorted(names):
        cls = idx.classes[qname]
        owner, func = resolve_vgc(idx, cls)
        guards, helpers, chains = guards_in(idx, owner, func)
        funcs = [func]
        for hname in helpers:
            res = idx.find_method(cls, hname)
            if res:
                funcs.append(res[1])
        # also base-class bodies reached through super()
        for kls in idx.mro(cls):
            if "validate_global_constraints" in kls.methods and chains:
                funcs.append(kls.methods["validate_global_constraints"])
        has_walk = loopchk = only = False
        for fn in funcs:
            got = perfect_nest_check(fn)
            has_walk |= got[0]
            loopchk |= got[1]
            only |= got[2]
        run.check(
            "C10.R3", has_walk and loopchk and only,
            f"{cls.name}.validate_global_constraints",
            "collapse(n) needs n perfectly nested loops",
            f"{cls.name} carries a collapse count but its constraint check "
            + ("does not look at the loop nest at all"
               if not has_walk else
               "does not require each collapsed loop to be the only child "
               "of its parent" if loopchk and not only else
               "does not require each level to be a Loop")
            + ": `collapse(2)` on an imperfect nest (outer loop body = "
            "[inner loop, assignment]) is emitted although OMPDoDirective "
            "refuses the same tree", loc(owner.module, func),
            sample={"rule": "C10.R3", "class": cls.name,
                    "walk": has_walk, "is_loop": loopchk,
                    "only_child": only})


def check_before_emit(idx, run):
    # the visitor
    vcls = idx.get_class("psyclone.psyir.backend.visitor.PSyIRVisitor")
    vmod = vcls.module
    visit = vcls.methods.get("_visit")
    init = vcls.methods.get("__init__")
    if not (visit and init):
        raise AnalysisError("PSyIRVisitor._visit/__init__ not found")
    cfg = CFG(visit)
    val = [n for n in cfg.stmt_nodes() if any(
        ast.unparse(c.func) == "node.validate_global_constraints"
        for c in calls_at(n))]
    ok = False
    if val:
        # conditional only on self._validate_nodes ...
        gtxt = [ast.unparse(s.test) for s in ast.walk(visit)
                if isinstance(s, ast.If) and any(
                    x is val[0].ast for b in s.body + s.orelse
                    for x in ast.walk(b))]
        ok = gtxt in (["self._validate_nodes"], [])
        # ... and on every path that reaches the dispatch
        dom = cfg.dominators()
        tests = [n for n in cfg.stmt_nodes() if n.kind == "test" and
                 isinstance(n.ast, ast.If) and
                 ast.unparse(n.ast.test) == "self._validate_nodes"]
        # dispatch (eval / getattr call) after it
        disp = [n for n in cfg.stmt_nodes() if any(
            ast.unparse(c.func) in ("eval", "getattr", "node_method")
            for c in calls_at(n))]
        anchor = tests[0] if tests else val[0]
        ok = ok and bool(disp) and all(
            anchor.id in dom.get(d.id, set()) for d in disp)
    run.check("C10.R2", ok, "PSyIRVisitor._visit",
              "constraints checked before a node is written",
              "the visitor no longer calls node.validate_global_"
              "constraints() (guarded only by the check_global_constraints "
              "option) before dispatching to the node writer",
              loc(vmod, visit))
    # default True and stored
    defaults = dict(zip([a.arg for a in init.args.args][-len(
        init.args.defaults):], init.args.defaults))
    dflt = defaults.get("check_global_constraints")
    stored = any(isinstance(s, ast.Assign) and
                 ast.unparse(s.targets[0]) == "self._validate_nodes" and
                 ast.unparse(s.value) == "check_global_constraints"
                 for s in ast.walk(init))
    run.check("C10.R2", isinstance(dflt, ast.Constant) and dflt.value is True
              and stored, "PSyIRVisitor.__init__",
              "checking is on by default",
              "check_global_constraints no longer defaults to True / is "
              "not stored in _validate_nodes", loc(vmod, init))
    fw = idx.get_class("psyclone.psyir.backend.fortran.FortranWriter")
    finit = fw.methods.get("__init__")
    fdefaults = dict(zip([a.arg for a in finit.args.args][-len(
        finit.args.defaults):], finit.args.defaults))
    fd = fdefaults.get("check_global_constraints")
    passes = any(isinstance(c, ast.Call) and
                 ast.unparse(c.func) == "super().__init__" and
                 "check_global_constraints" in
                 [ast.unparse(a) for a in c.args] +
                 [ast.unparse(k.value) for k in c.keywords]
                 for c in ast.walk(finit))
    run.check("C10.R2", isinstance(fd, ast.Constant) and fd.value is True
              and passes, "FortranWriter.__init__",
              "checking is on by default in the Fortran writer",
              "FortranWriter no longer passes check_global_constraints="
              "True to the visitor by default", loc(fw.module, finit))
    # config default
    cfgmod = idx.module("src/psyclone/configuration.py")
    ok = False
    for sub in ast.walk(cfgmod.tree):
        if isinstance(sub, ast.Assign) and ast.unparse(sub.targets[0]) == \
                "self._backend_checks_enabled" and \
                isinstance(sub.value, ast.Constant):
            ok = sub.value.value is True
            break
    run.check("C10.R2", ok, "Config.__init__",
              "backend checks enabled by default",
              "Config._backend_checks_enabled no longer defaults to True",
              loc(cfgmod, cfgmod.tree.body[0]))
    # legacy gen_code: validate before the first DirectiveGen
    count = 0
    for cls in idx.classes.values():
        if not idx.is_subclass(cls, "Directive") or \
                "gen_code" not in cls.methods:
            continue
        func = cls.methods["gen_code"]
        emits = [c for c in ast.walk(func) if isinstance(c, ast.Call) and
                 ast.unparse(c.func).endswith("DirectiveGen")]
        if not emits:
            continue
        count += 1
        cfg = CFG(func)
        vnodes = [n for n in cfg.stmt_nodes() if any(
            ast.unparse(c.func) in (
                "self.validate_global_constraints",
                "super().gen_code") or
            ast.unparse(c.func).endswith(".validate_global_constraints")
            for c in calls_at(n))]
        enodes = [n for n in cfg.stmt_nodes() if any(
            c in emits for c in calls_at(n))]
        dom = cfg.dominators()
        ok = bool(vnodes) and all(
            any(v.id in dom.get(e.id, set()) for v in vnodes)
            for e in enodes)
        run.check("C10.R2", ok, f"{cls.name}.gen_code",
                  "validate dominates the first emitted directive",
                  f"{cls.name}.gen_code emits a directive on a path that "
                  f"has not called validate_global_constraints()",
                  loc(cls.module, func))
    run.floor("directive gen_code methods that emit", count, 8)


# Reviewed omissions from an inherited exclusion tuple.
EXCLUSION_OMISSIONS = {
    "ACCLoopTrans": {
        "CodeBlock": "still refused at generation time by "
                     "ACCRegionDirective.validate_global_constraints "
                     "(walk((PSyDataNode, CodeBlock)) -> GenerationError)",
        "HaloExchange": "ACCLoopTrans targets a single Loop node; a halo "
                        "exchange cannot be inside an LFRic/GOcean loop",
    },
}


def excluded_tuple(idx, cls):
    """(owner class, set of names) of the MRO-resolved tuple"""
    res = idx.find_attr(cls, "excluded_node_types")
    if res is None:
        return None
    owner, val = res
    try:
        names = const_value(idx, owner.module, val)
    except AnalysisError:
        return None
    return owner, {str(n).split(".")[-1] for n in names}


def check_exclusions(idx, run, rule="C10.R4", only=None):
    base = idx.get_class("psyclone.psyGen.Transformation")
    count = 0
    for cls in idx.all_subclasses(base):
        if "excluded_node_types" not in cls.attrs:
            continue
        if only is not None and not only(cls):
            continue
        # what it would inherit
        inherited = None
        for kls in idx.mro(cls)[1:]:
            if "excluded_node_types" in kls.attrs:
                try:
                    inherited = (kls, {str(n).split(".")[-1] for n in
                                       const_value(idx, kls.module,
                                                   kls.attrs[
                                                       "excluded_node_types"
                                                   ])})
                except AnalysisError:
                    inherited = None
                break
        if inherited is None or not inherited[1]:
            continue
        try:
            own = {str(n).split(".")[-1] for n in const_value(
                idx, cls.module, cls.attrs["excluded_node_types"])}
        except AnalysisError:
            run.note(rule, f"{cls.name}.excluded_node_types is not a "
                     f"literal tuple")
            continue
        count += 1
        dropped = inherited[1] - own
        reviewed = EXCLUSION_OMISSIONS.get(cls.name, {})
        for name in sorted(dropped):
            if name in reviewed:
                run.ob(rule, True, {"rule": rule, "class": cls.name,
                                    "dropped": name,
                                    "reviewed": reviewed[name]})
                continue
            run.check(
                rule, False, f"{cls.name}.excluded_node_types",
                f"drops {name}",
                f"{cls.name} re-binds excluded_node_types and thereby "
                f"drops '{name}', which {inherited[0].name} excludes: "
                f"regions containing a {name} node are now accepted",
                loc(cls.module, cls.attrs["excluded_node_types"]))
        if not dropped:
            run.ob(rule, True, {"rule": rule, "class": cls.name,
                                "keeps": sorted(inherited[1])})
    return count



def GUARDED(idx):
    """every generation-time constraint check of the directive classes and
    the validate() of the directive-creating transformations"""
    out = []
    names = ("validate_global_constraints", "_validate_collapse_value",
             "_validate_single_loop", "_encloses_omp_directive")
    for rel in ("src/psyclone/psyir/nodes/omp_directives.py",
                "src/psyclone/psyir/nodes/acc_directives.py"):
        mod = idx.module(rel)
        for cls in mod.classes.values():
            for name in names:
                if name in cls.methods:
                    out.append((cls.qname, name))
    for tname in ("ParallelRegionTrans", "OMPSingleTrans", "OMPParallelTrans",
                  "ACCParallelTrans", "ACCLoopTrans", "OMPTaskloopTrans",
                  "OMPTargetTrans", "ACCKernelsTrans", "ACCEnterDataTrans",
                  "ACCRoutineTrans", "OMPDeclareTargetTrans",
                  "OMPTaskTrans", "OMPTaskwaitTrans", "ACCUpdateTrans"):
        try:
            cls = idx.get_class(tname)
        except Exception:      # pylint: disable=broad-except
            continue
        if "validate" in cls.methods:
            out.append((tname, "validate"))
    return sorted(set(out))

def check(idx, run):
    run.explanation = __doc__
    from sa.guards import check_guards
    check_guards(idx, run, "C10.R5", GUARDED)
    check_table(idx, run)
    check_collapse(idx, run)
    check_before_emit(idx, run)
    n = check_exclusions(idx, run, "C10.R4", only=lambda c: not (
        idx.is_subclass(c, "PSyDataTrans")))
    run.floor("re-bound exclusion tuples", n, 3)
    run.assumptions = ["acceptance by an OpenMP/OpenACC compiler is not "
                       "decided", "clause syntax is not decided"]
