"""C22 (second sentence only) - after each loop the recorded halo state of a
written field is no cleaner than what the loop computed.

R1 marking   decision table of LFRicLoop.gen_mark_halos_clean_dirty over
             (max_depth, literal_depth, dirty_outer, vector): set_dirty() is
             emitted unless the loop computed to the maximum depth with a
             clean outer level; set_clean(d) only with
             d = depth - [dirty_outer] (> 0); every vector component gets the
             same calls; all modified fields are covered.
R2 write-info HaloWriteAccess._compute_from_field: dirty_outer <=> continuous
             field, cell-column loop, halo loop bound; depth from the loop's
             halo depth (doubled for the fine mesh of an inter-grid kernel).
That every *reader* finds its halo clean (placement of halo exchanges) is NOT
decided.
"""
import ast
import itertools
from sa.index import AnalysisError, loc

LEVEL = "other"
MANIFEST = {
    "level": "other",
    "text": "The code that marks halos clean / dirty after a loop is "
            "turned into a decision table over the abstract write state "
            "(maximum-depth flag, literal depth 0/1/2+, dirty outer level, "
            "vector / scalar field) by evaluating its guards on every "
            "combination and collecting the emitted calls symbolically; the "
            "table is compared with 'clean depth = computed depth minus "
            "one if the outer level holds partial sums'. Exhaustive over "
            "that finite domain.",
    "note": "Only the second sentence of the property is decided. That "
            "every kernel reading a halo finds it clean depends on the "
            "placement of halo exchanges (data dependences between schedule "
            "nodes, integer depth arithmetic in LFRicHaloExchange.required) "
            "over all invokes and transformation histories: a "
            "model-checking task, not a fact visible in the source's shape.",
    "technique": "decision-table extraction by guard evaluation over a "
                 "finite abstract domain",
}


class NeedChoice(Exception):
    pass


def run_all(body, facts):
    """-> list of (free choices, emitted calls) over every valuation of the
    tests that are not write-state facts"""
    results = []
    todo = [dict(facts)]
    while todo:
        cur = todo.pop()
        out = []
        try:
            run_block(body, cur, {}, out)
        except NeedChoice as need:
            if len([k for k in cur if str(k).startswith("?")]) > 6:
                raise AnalysisError("halo marking: too many unmodelled "
                                    "tests")
            for val in (False, True):
                nxt = dict(cur)
                nxt[need.args[0]] = val
                todo.append(nxt)
            continue
        extra = {k[1:]: v for k, v in cur.items()
                 if str(k).startswith("?")}
        results.append((extra, out))
    return results


def run_block(stmts, facts, env, out, per_component=False):
    for stmt in stmts:
        if isinstance(stmt, ast.If):
            val = cond(stmt.test, facts, env)
            run_block(stmt.body if val else stmt.orelse, facts, env, out,
                      per_component)
        elif isinstance(stmt, ast.For):
            it = ast.unparse(stmt.iter)
            if "vector_size" in it:
                run_block(stmt.body, facts, env, out, True)
            else:
                raise AnalysisError(f"unexpected loop over {it}")
        elif isinstance(stmt, ast.Assign) and isinstance(stmt.targets[0],
                                                         ast.Name):
            name = stmt.targets[0].id
            txt = ast.unparse(stmt.value)
            if txt == "hwa.literal_depth":
                env[name] = ("L", 0)
            elif "max_halo_depth_mesh" in txt:
                env[name] = ("MAX", 0)
            elif "CallGen" in txt:
                env[name] = ("call", call_kind(stmt.value, env))
            else:
                env[name] = ("?", txt)
        elif isinstance(stmt, ast.AugAssign) and isinstance(stmt.target,
                                                            ast.Name):
            base = env.get(stmt.target.id)
            rhs = ast.unparse(stmt.value)
            if base and base[0] in ("L", "MAX"):
                if isinstance(stmt.op, ast.Sub) and rhs == "1":
                    env[stmt.target.id] = (base[0], base[1] - 1)
                elif isinstance(stmt.op, ast.Add) and rhs == "'-1'":
                    env[stmt.target.id] = (base[0], base[1] - 1)
                else:
                    raise AnalysisError(f"unexpected depth update "
                                        f"'{ast.unparse(stmt)}'")
        elif isinstance(stmt, ast.Expr) and isinstance(stmt.value, ast.Call):
            call = stmt.value
            if ast.unparse(call.func) == "parent.add":
                arg = call.args[0]
                if isinstance(arg, ast.Name):
                    kind = env[arg.id][1]
                else:
                    kind = call_kind(arg, env)
                out.append((kind, per_component))


def call_kind(node, env):
    txt = ast.unparse(node)
    if "set_dirty()" in txt:
        return ("dirty",)
    if "set_clean(" in txt:
        for name, val in env.items():
            if val[0] in ("L", "MAX") and "{" + name + "}" in txt:
                return ("clean",) + val
        return ("clean", "?", 0)
    return ("other", txt[:40])


def cond(test, facts, env):
    txt = " ".join(ast.unparse(test).split())
    if txt == "not hwa.max_depth or hwa.dirty_outer":
        return (not facts["max"]) or facts["outer"]
    if txt == "hwa.literal_depth":
        return facts["lit"] > 0
    if txt == "hwa.max_depth":
        return facts["max"]
    if txt == "hwa.dirty_outer":
        return facts["outer"]
    if txt == "field.vector_size > 1":
        return facts["vector"]
    if txt == "halo_depth > 0":
        base = env.get("halo_depth")
        if base and base[0] == "L":
            return facts["lit"] + base[1] > 0
    if isinstance(test, ast.Constant):
        return bool(test.value)
    # generic boolean structure over the same atoms
    if isinstance(test, ast.BoolOp):
        vals = [cond(v, facts, env) for v in test.values]
        return all(vals) if isinstance(test.op, ast.And) else any(vals)
    if isinstance(test, ast.UnaryOp) and isinstance(test.op, ast.Not):
        return not cond(test.operand, facts, env)
    key = "?" + txt
    if key not in facts:
        raise NeedChoice(key)    # a free boolean: both values are explored
    return facts[key]


def eval_outer(node, disc, space, halo):
    txt = " ".join(ast.unparse(node).split())
    if isinstance(node, ast.BoolOp):
        vals = [eval_outer(v, disc, space, halo) for v in node.values]
        return all(vals) if isinstance(node.op, ast.And) else any(vals)
    if isinstance(node, ast.UnaryOp) and isinstance(node.op, ast.Not):
        return not eval_outer(node.operand, disc, space, halo)
    if txt == "field.discontinuous":
        return disc
    if isinstance(node, ast.Compare) and len(node.ops) == 1:
        left = ast.unparse(node.left)
        right = node.comparators[0]
        if left == "loop.iteration_space" and isinstance(right, ast.Constant):
            eq = space == right.value
            return eq if isinstance(node.ops[0], ast.Eq) else not eq
        if left == "loop.upper_bound_name" and \
                "HALO_ACCESS_LOOP_BOUNDS" in ast.unparse(right):
            return halo if isinstance(node.ops[0], ast.In) else not halo
    raise AnalysisError(f"dirty_outer depends on '{txt}', which the rule "
                        f"does not model")


def depth_exec(stmts, halo, lit, fine, env=None):
    env = {} if env is None else env

    def val(node):
        txt = " ".join(ast.unparse(node).split())
        if isinstance(node, ast.Constant):
            return node.value
        if isinstance(node, ast.Name) and node.id in env:
            return env[node.id]
        if txt == "loop.upper_bound_halo_depth":
            return lit
        if txt.startswith("loop.upper_bound_name in") and \
                "HALO_ACCESS_LOOP_BOUNDS" in txt:
            return halo
        if txt in ("call.is_intergrid and field.mesh == 'gh_fine'",
                   "field.mesh == 'gh_fine' and call.is_intergrid"):
            return fine
        if isinstance(node, ast.BinOp) and isinstance(node.op, ast.Mult):
            return val(node.left) * val(node.right)
        if isinstance(node, ast.UnaryOp) and isinstance(node.op, ast.Not):
            return not val(node.operand)
        raise AnalysisError(f"written depth depends on '{txt}', which the "
                            f"rule does not model")
    for stmt in stmts:
        if isinstance(stmt, ast.If):
            depth_exec(stmt.body if val(stmt.test) else stmt.orelse,
                       halo, lit, fine, env)
        elif isinstance(stmt, ast.Assign) and isinstance(stmt.targets[0],
                                                         ast.Name) and \
                stmt.targets[0].id in ("depth", "max_depth"):
            env[stmt.targets[0].id] = val(stmt.value)
        elif isinstance(stmt, ast.AugAssign) and isinstance(stmt.target,
                                                            ast.Name) and \
                stmt.target.id in ("depth", "max_depth"):
            if not isinstance(stmt.op, ast.Mult):
                raise AnalysisError("unexpected update of depth")
            env[stmt.target.id] = env[stmt.target.id] * val(stmt.value)
    return env


def check(idx, run):
    run.explanation = __doc__
    cls = idx.get_class("psyclone.domain.lfric.lfric_loop.LFRicLoop")
    func = cls.methods.get("gen_mark_halos_clean_dirty")
    if func is None:
        raise AnalysisError("gen_mark_halos_clean_dirty not found")
    mod = cls.module
    cons = "LFRicLoop.gen_mark_halos_clean_dirty"
    loops = [s for s in ast.walk(func) if isinstance(s, ast.For) and
             any("HaloWriteAccess(" in ast.unparse(b) for b in s.body)]
    if len(loops) != 1:
        raise AnalysisError("the loop over modified fields was not found")
    loop = loops[0]
    it_defs = [s for s in ast.walk(func) if isinstance(s, ast.Assign) and
               ast.unparse(s.targets[0]) == ast.unparse(loop.iter)]
    src = ast.unparse(it_defs[0].value) if it_defs else ast.unparse(
        loop.iter)
    run.check("C22.R1", "self.unique_modified_args('gh_field')" in src,
              cons, "all modified fields are marked",
              f"the marking loop iterates over '{src}', not over every "
              f"modified field of the loop", loc(mod, loop))
    body = [s for s in loop.body if not (isinstance(s, ast.Assign) and
                                         "HaloWriteAccess(" in
                                         ast.unparse(s.value))]
    ncomb = 0
    for mx, lit, outer, vector in itertools.product(
            [False, True], [0, 1, 2], [False, True], [False, True]):
        if mx and lit:
            continue   # a literal depth excludes the maximum-depth flag
        ncomb += 1
        facts = {"max": mx, "lit": lit, "outer": outer, "vector": vector}
        for extra, out in run_all(body, facts):
            kinds = [k for k, _pc in out]
            dirty = any(k[0] == "dirty" for k in kinds)
            cleans = [k for k in kinds if k[0] == "clean"]
            want_dirty = (not mx) or outer
            detail = f"max_depth={mx} literal_depth={lit} dirty_outer={outer} " \
                     f"vector={vector}" + (f" {extra}" if extra else "")
            # the property bounds the recorded state from one side only:
            # marking dirty more often, or clean less deep, is safe
            run.check("C22.R1", dirty or not want_dirty, cons,
                      f"set_dirty [{detail}]",
                      f"with {detail} set_dirty() is not emitted; the halo "
                      f"must be marked dirty unless the loop computed the "
                      f"whole halo with a clean outer level", loc(mod, loop),
                      sample={"rule": "C22.R1", "state": facts,
                              "calls": [str(k) for k in kinds],
                              "ok": dirty or not want_dirty})
            # clean depth
            if lit:
                ok = all(c[1] == "L" and 0 < lit + c[2] <=
                         lit - (1 if outer else 0) for c in cleans)
            elif mx:
                ok = all(c[1] == "MAX" and c[2] <= (-1 if outer else 0)
                         for c in cleans)
            else:
                ok = not cleans
            run.check("C22.R1", ok, cons, f"set_clean depth [{detail}]",
                      f"with {detail} the clean marking is {cleans}; the "
                      f"recorded clean depth must not exceed the computed "
                      f"depth minus one when the outer level holds partial "
                      f"sums, and nothing may be marked clean when no halo "
                      f"was computed", loc(mod, loop))
            # a clean marking must follow the dirty marking
            order = [k[0] for k in kinds if k[0] in ("dirty", "clean")]
            run.check("C22.R1", "dirty" not in order[order.index("clean"):]
                      if "clean" in order else True, cons,
                      f"set_clean after set_dirty [{detail}]",
                      "set_dirty() is emitted after set_clean(): the halo "
                      "computed redundantly is marked dirty again (safe) - "
                      "or, read the other way, the order no longer says what "
                      "is clean", loc(mod, loop))
            # vector fields: every component must be marked dirty
            run.check("C22.R1", all(pc == vector for k, pc in out
                                    if k[0] == "dirty"), cons,
                      f"every vector component marked dirty [{detail}]",
                      "a vector field is not marked dirty component by "
                      "component (or a scalar field is)", loc(mod, loop))
    run.floor("write-state combinations", ncomb, 16)
    # R2 write info
    hcls = idx.get_class("psyclone.dynamo0p3.HaloWriteAccess")
    hfunc = hcls.methods.get("_compute_from_field")
    if hfunc is None:
        raise AnalysisError("HaloWriteAccess._compute_from_field not found")
    hmod = hcls.module
    hcons = "HaloWriteAccess._compute_from_field"
    # dirty_outer: evaluate the assigned expression on every combination of
    # (discontinuous, iteration space, halo bound)
    outer = [s for s in ast.walk(hfunc) if isinstance(s, ast.Assign) and
             ast.unparse(s.targets[0]) == "self._dirty_outer"]
    if len(outer) != 1:
        raise AnalysisError("the assignment to self._dirty_outer was not "
                            "found (or is no longer unique)")
    for disc, space, halo in itertools.product(
            [False, True], ["cell_column", "dof", "colour"], [False, True]):
        got = eval_outer(outer[0].value, disc, space, halo)
        want = (not disc) and space == "cell_column" and halo
        run.check("C22.R2", bool(got) == want, hcons,
                  f"dirty_outer [discontinuous={disc} space={space} "
                  f"halo_bound={halo}]",
                  f"for discontinuous={disc}, iteration space '{space}', "
                  f"halo loop bound={halo} the outer written level is "
                  f"recorded {'dirty' if got else 'clean'}; it holds partial "
                  f"sums exactly for a continuous field written by a "
                  f"cell-column loop running into the halo",
                  loc(hmod, outer[0]))
    # depth / max_depth: abstract execution over (halo bound, literal depth,
    # intergrid fine)
    final = [s for s in ast.walk(hfunc) if isinstance(s, ast.Call) and
             ast.unparse(s.func).endswith("set_by_value")]
    if len(final) != 1:
        raise AnalysisError("HaloDepth.set_by_value call not found")
    body = [s for s in hfunc.body]
    for halo, lit, fine in itertools.product([False, True], [0, 1, 3],
                                             [False, True]):
        env = depth_exec(body, halo, lit, fine)
        args = [ast.unparse(a) for a in final[0].args]
        maxv = env.get(args[1], args[1])
        depv = env.get(args[3], args[3])
        want_max = halo and lit == 0
        want_dep = (lit if halo else 0) * (2 if fine else 1)
        run.check("C22.R2", maxv == want_max and depv == want_dep, hcons,
                  f"written depth [halo_bound={halo} literal={lit} "
                  f"intergrid_fine={fine}]",
                  f"with halo loop bound={halo}, literal depth {lit}, "
                  f"fine mesh of an inter-grid kernel={fine} the write is "
                  f"recorded as max_depth={maxv}, depth={depv}; expected "
                  f"max_depth={want_max}, depth={want_dep}",
                  loc(hmod, final[0]))
    txt = " ".join(ast.unparse(hfunc).split())
    run.check("C22.R2", "all_write_accesses()" in txt, hcons,
              "applies to every write access",
              "the write information is no longer computed for all write "
              "accesses", loc(hmod, hfunc))
    run.exhaustive = True
    run.assumptions = ["placement of halo exchanges is not decided"]
