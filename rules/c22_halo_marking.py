"""C22 (second sentence only) - after each loop the recorded halo state of a
written field is no cleaner than what the loop computed.

R1 marking   decision table of LFRicLoop.gen_mark_halos_clean_dirty over
             (max_depth, literal_depth, dirty_outer, vector): set_dirty() is
             emitted unless the loop computed to the maximum depth with a
             clean outer level; set_clean(d) only with
             d = depth - [dirty_outer] (> 0); every vector component gets the
             same calls; all modified fields are covered.
R3 required    decision table of LFRicHaloExchange.required(): over all
             abstract (writer state, reader depth entries, annexed setting)
             the exchange is declared "not required" only when the writer
             provably cleaned what every reader accesses.
R4 depth       the depth passed to the exchange is the maximum over every
             aggregated read entry (PSyIR and string form).
R2 write-info HaloWriteAccess._compute_from_field: dirty_outer <=> continuous
             field, cell-column loop, halo loop bound; depth from the loop's
             halo depth (doubled for the fine mesh of an inter-grid kernel).
Where exchanges are placed (which reader depends on which writer) is NOT
decided.
"""
import ast
import itertools
from sa.index import AnalysisError, loc

LEVEL = "other"
MANIFEST = {
    "level": "other",
    "text": "Three decision procedures of the halo logic are turned into "
            "decision tables by abstract execution of their bodies over a "
            "finite domain and compared with a one-sided oracle: (1) the "
            "code that marks halos clean / dirty after a loop (write state: "
            "maximum-depth flag, literal depth 0/1/2+, dirty outer level, "
            "vector / scalar) never records more than 'computed depth minus "
            "one if the outer level holds partial sums'; (2) "
            "LFRicHaloExchange.required() answers 'not required' only when "
            "the writer provably cleaned what every reader accesses (writer "
            "state x one or two reader-depth entries x annexed setting, "
            "~10^4 evaluations); (3) the exchanged depth covers every "
            "aggregated read entry. Tests that are not part of the modelled "
            "state are explored as free booleans.",
    "note": "Which reader depends on which writer (the placement of "
            "exchanges through the schedule's dependence analysis), "
            "asynchronous exchanges and the run-time is_dirty tests are NOT "
            "decided.",
    "technique": "decision-table extraction by abstract execution of the "
                 "function bodies over a finite abstract domain",
}


class NeedChoice(Exception):
    pass


def run_all(body, facts):
    """-> list of (free choices, emitted calls) over every valuation of the
    tests that are not write-state facts"""
    results = []
    todo = [dict(facts)]
    while todo:
        cur = todo.pop()
        out = []
        try:
            run_block(body, cur, {}, out)
        except NeedChoice as need:
            if len([k for k in cur if str(k).startswith("?")]) > 6:
                raise AnalysisError("halo marking: too many unmodelled "
                                    "tests")
            for val in (False, True):
                nxt = dict(cur)
                nxt[need.args[0]] = val
                todo.append(nxt)
            continue
        extra = {k[1:]: v for k, v in cur.items()
                 if str(k).startswith("?")}
        results.append((extra, out))
    return results


def run_block(stmts, facts, env, out, per_component=False):
    for stmt in stmts:
        if isinstance(stmt, ast.If):
            val = cond(stmt.test, facts, env)
            run_block(stmt.body if val else stmt.orelse, facts, env, out,
                      per_component)
        elif isinstance(stmt, ast.For):
            it = ast.unparse(stmt.iter)
            if "vector_size" in it:
                run_block(stmt.body, facts, env, out, True)
            else:
                raise AnalysisError(f"unexpected loop over {it}")
        elif isinstance(stmt, ast.Assign) and isinstance(stmt.targets[0],
                                                         ast.Name):
            name = stmt.targets[0].id
            txt = ast.unparse(stmt.value)
            if txt == "hwa.literal_depth":
                env[name] = ("L", 0)
            elif "max_halo_depth_mesh" in txt:
                env[name] = ("MAX", 0)
            elif "CallGen" in txt:
                env[name] = ("call", call_kind(stmt.value, env))
            else:
                env[name] = ("?", txt)
        elif isinstance(stmt, ast.AugAssign) and isinstance(stmt.target,
                                                            ast.Name):
            base = env.get(stmt.target.id)
            rhs = ast.unparse(stmt.value)
            if base and base[0] in ("L", "MAX"):
                if isinstance(stmt.op, ast.Sub) and rhs == "1":
                    env[stmt.target.id] = (base[0], base[1] - 1)
                elif isinstance(stmt.op, ast.Add) and rhs == "'-1'":
                    env[stmt.target.id] = (base[0], base[1] - 1)
                else:
                    raise AnalysisError(f"unexpected depth update "
                                        f"'{ast.unparse(stmt)}'")
        elif isinstance(stmt, ast.Expr) and isinstance(stmt.value, ast.Call):
            call = stmt.value
            if ast.unparse(call.func) == "parent.add":
                arg = call.args[0]
                if isinstance(arg, ast.Name):
                    kind = env[arg.id][1]
                else:
                    kind = call_kind(arg, env)
                out.append((kind, per_component))


def call_kind(node, env):
    txt = ast.unparse(node)
    if "set_dirty()" in txt:
        return ("dirty",)
    if "set_clean(" in txt:
        for name, val in env.items():
            if val[0] in ("L", "MAX") and "{" + name + "}" in txt:
                return ("clean",) + val
        return ("clean", "?", 0)
    return ("other", txt[:40])


def cond(test, facts, env):
    txt = " ".join(ast.unparse(test).split())
    if txt == "not hwa.max_depth or hwa.dirty_outer":
        return (not facts["max"]) or facts["outer"]
    if txt == "hwa.literal_depth":
        return facts["lit"] > 0
    if txt == "hwa.max_depth":
        return facts["max"]
    if txt == "hwa.dirty_outer":
        return facts["outer"]
    if txt == "field.vector_size > 1":
        return facts["vector"]
    if txt == "halo_depth > 0":
        base = env.get("halo_depth")
        if base and base[0] == "L":
            return facts["lit"] + base[1] > 0
    if isinstance(test, ast.Constant):
        return bool(test.value)
    # generic boolean structure over the same atoms
    if isinstance(test, ast.BoolOp):
        vals = [cond(v, facts, env) for v in test.values]
        return all(vals) if isinstance(test.op, ast.And) else any(vals)
    if isinstance(test, ast.UnaryOp) and isinstance(test.op, ast.Not):
        return not cond(test.operand, facts, env)
    key = "?" + txt
    if key not in facts:
        raise NeedChoice(key)    # a free boolean: both values are explored
    return facts[key]


def eval_outer(node, disc, space, halo):
    txt = " ".join(ast.unparse(node).split())
    if isinstance(node, ast.BoolOp):
        vals = [eval_outer(v, disc, space, halo) for v in node.values]
        return all(vals) if isinstance(node.op, ast.And) else any(vals)
    if isinstance(node, ast.UnaryOp) and isinstance(node.op, ast.Not):
        return not eval_outer(node.operand, disc, space, halo)
    if txt == "field.discontinuous":
        return disc
    if isinstance(node, ast.Compare) and len(node.ops) == 1:
        left = ast.unparse(node.left)
        right = node.comparators[0]
        if left == "loop.iteration_space" and isinstance(right, ast.Constant):
            eq = space == right.value
            return eq if isinstance(node.ops[0], ast.Eq) else not eq
        if left == "loop.upper_bound_name" and \
                "HALO_ACCESS_LOOP_BOUNDS" in ast.unparse(right):
            return halo if isinstance(node.ops[0], ast.In) else not halo
    raise AnalysisError(f"dirty_outer depends on '{txt}', which the rule "
                        f"does not model")


def depth_exec(stmts, halo, lit, fine, env=None):
    env = {} if env is None else env

    def val(node):
        txt = " ".join(ast.unparse(node).split())
        if isinstance(node, ast.Constant):
            return node.value
        if isinstance(node, ast.Name) and node.id in env:
            return env[node.id]
        if txt == "loop.upper_bound_halo_depth":
            return lit
        if txt.startswith("loop.upper_bound_name in") and \
                "HALO_ACCESS_LOOP_BOUNDS" in txt:
            return halo
        if txt in ("call.is_intergrid and field.mesh == 'gh_fine'",
                   "field.mesh == 'gh_fine' and call.is_intergrid"):
            return fine
        if isinstance(node, ast.BinOp) and isinstance(node.op, ast.Mult):
            return val(node.left) * val(node.right)
        if isinstance(node, ast.UnaryOp) and isinstance(node.op, ast.Not):
            return not val(node.operand)
        raise AnalysisError(f"written depth depends on '{txt}', which the "
                            f"rule does not model")
    for stmt in stmts:
        if isinstance(stmt, ast.If):
            depth_exec(stmt.body if val(stmt.test) else stmt.orelse,
                       halo, lit, fine, env)
        elif isinstance(stmt, ast.Assign) and isinstance(stmt.targets[0],
                                                         ast.Name) and \
                stmt.targets[0].id in ("depth", "max_depth"):
            env[stmt.targets[0].id] = val(stmt.value)
        elif isinstance(stmt, ast.AugAssign) and isinstance(stmt.target,
                                                            ast.Name) and \
                stmt.target.id in ("depth", "max_depth"):
            if not isinstance(stmt.op, ast.Mult):
                raise AnalysisError("unexpected update of depth")
            env[stmt.target.id] = env[stmt.target.id] * val(stmt.value)
    return env



PREDICATES = [
    ('psyclone.domain.lfric.lfric_loop.LFRicLoop', '_halo_read_access', False),
]

def check(idx, run):
    run.explanation = __doc__
    from sa.guards import check_predicates
    check_predicates(idx, run, "C22.R5", PREDICATES)
    cls = idx.get_class("psyclone.domain.lfric.lfric_loop.LFRicLoop")
    func = cls.methods.get("gen_mark_halos_clean_dirty")
    if func is None:
        raise AnalysisError("gen_mark_halos_clean_dirty not found")
    mod = cls.module
    cons = "LFRicLoop.gen_mark_halos_clean_dirty"
    loops = [s for s in ast.walk(func) if isinstance(s, ast.For) and
             any("HaloWriteAccess(" in ast.unparse(b) for b in s.body)]
    if len(loops) != 1:
        raise AnalysisError("the loop over modified fields was not found")
    loop = loops[0]
    it_defs = [s for s in ast.walk(func) if isinstance(s, ast.Assign) and
               ast.unparse(s.targets[0]) == ast.unparse(loop.iter)]
    src = ast.unparse(it_defs[0].value) if it_defs else ast.unparse(
        loop.iter)
    run.check("C22.R1", "self.unique_modified_args('gh_field')" in src,
              cons, "all modified fields are marked",
              f"the marking loop iterates over '{src}', not over every "
              f"modified field of the loop", loc(mod, loop))
    body = [s for s in loop.body if not (isinstance(s, ast.Assign) and
                                         "HaloWriteAccess(" in
                                         ast.unparse(s.value))]
    ncomb = 0
    for mx, lit, outer, vector in itertools.product(
            [False, True], [0, 1, 2], [False, True], [False, True]):
        if mx and lit:
            continue   # a literal depth excludes the maximum-depth flag
        ncomb += 1
        facts = {"max": mx, "lit": lit, "outer": outer, "vector": vector}
        for extra, out in run_all(body, facts):
            kinds = [k for k, _pc in out]
            dirty = any(k[0] == "dirty" for k in kinds)
            cleans = [k for k in kinds if k[0] == "clean"]
            want_dirty = (not mx) or outer
            detail = f"max_depth={mx} literal_depth={lit} dirty_outer={outer} " \
                     f"vector={vector}" + (f" {extra}" if extra else "")
            # the property bounds the recorded state from one side only:
            # marking dirty more often, or clean less deep, is safe
            run.check("C22.R1", dirty or not want_dirty, cons,
                      f"set_dirty [{detail}]",
                      f"with {detail} set_dirty() is not emitted; the halo "
                      f"must be marked dirty unless the loop computed the "
                      f"whole halo with a clean outer level", loc(mod, loop),
                      sample={"rule": "C22.R1", "state": facts,
                              "calls": [str(k) for k in kinds],
                              "ok": dirty or not want_dirty})
            # clean depth
            if lit:
                ok = all(c[1] == "L" and 0 < lit + c[2] <=
                         lit - (1 if outer else 0) for c in cleans)
            elif mx:
                ok = all(c[1] == "MAX" and c[2] <= (-1 if outer else 0)
                         for c in cleans)
            else:
                ok = not cleans
            run.check("C22.R1", ok, cons, f"set_clean depth [{detail}]",
                      f"with {detail} the clean marking is {cleans}; the "
                      f"recorded clean depth must not exceed the computed "
                      f"depth minus one when the outer level holds partial "
                      f"sums, and nothing may be marked clean when no halo "
                      f"was computed", loc(mod, loop))
            # a clean marking must follow the dirty marking
            order = [k[0] for k in kinds if k[0] in ("dirty", "clean")]
            run.check("C22.R1", "dirty" not in order[order.index("clean"):]
                      if "clean" in order else True, cons,
                      f"set_clean after set_dirty [{detail}]",
                      "set_dirty() is emitted after set_clean(): the halo "
                      "computed redundantly is marked dirty again (safe) - "
                      "or, read the other way, the order no longer says what "
                      "is clean", loc(mod, loop))
            # vector fields: every component must be marked dirty
            run.check("C22.R1", all(pc == vector for k, pc in out
                                    if k[0] == "dirty"), cons,
                      f"every vector component marked dirty [{detail}]",
                      "a vector field is not marked dirty component by "
                      "component (or a scalar field is)", loc(mod, loop))
    run.floor("write-state combinations", ncomb, 16)
    # R2 write info
    hcls = idx.get_class("psyclone.dynamo0p3.HaloWriteAccess")
    hfunc = hcls.methods.get("_compute_from_field")
    if hfunc is None:
        raise AnalysisError("HaloWriteAccess._compute_from_field not found")
    hmod = hcls.module
    hcons = "HaloWriteAccess._compute_from_field"
    # dirty_outer: evaluate the assigned expression on every combination of
    # (discontinuous, iteration space, halo bound)
    outer = [s for s in ast.walk(hfunc) if isinstance(s, ast.Assign) and
             ast.unparse(s.targets[0]) == "self._dirty_outer"]
    if len(outer) != 1:
        raise AnalysisError("the assignment to self._dirty_outer was not "
                            "found (or is no longer unique)")
    for disc, space, halo in itertools.product(
            [False, True], ["cell_column", "dof", "colour"], [False, True]):
        got = eval_outer(outer[0].value, disc, space, halo)
        want = (not disc) and space == "cell_column" and halo
        run.check("C22.R2", bool(got) == want, hcons,
                  f"dirty_outer [discontinuous={disc} space={space} "
                  f"halo_bound={halo}]",
                  f"for discontinuous={disc}, iteration space '{space}', "
                  f"halo loop bound={halo} the outer written level is "
                  f"recorded {'dirty' if got else 'clean'}; it holds partial "
                  f"sums exactly for a continuous field written by a "
                  f"cell-column loop running into the halo",
                  loc(hmod, outer[0]))
    # depth / max_depth: abstract execution over (halo bound, literal depth,
    # intergrid fine)
    final = [s for s in ast.walk(hfunc) if isinstance(s, ast.Call) and
             ast.unparse(s.func).endswith("set_by_value")]
    if len(final) != 1:
        raise AnalysisError("HaloDepth.set_by_value call not found")
    body = [s for s in hfunc.body]
    for halo, lit, fine in itertools.product([False, True], [0, 1, 3],
                                             [False, True]):
        env = depth_exec(body, halo, lit, fine)
        args = [ast.unparse(a) for a in final[0].args]
        maxv = env.get(args[1], args[1])
        depv = env.get(args[3], args[3])
        want_max = halo and lit == 0
        want_dep = (lit if halo else 0) * (2 if fine else 1)
        run.check("C22.R2", maxv == want_max and depv == want_dep, hcons,
                  f"written depth [halo_bound={halo} literal={lit} "
                  f"intergrid_fine={fine}]",
                  f"with halo loop bound={halo}, literal depth {lit}, "
                  f"fine mesh of an inter-grid kernel={fine} the write is "
                  f"recorded as max_depth={maxv}, depth={depv}; expected "
                  f"max_depth={want_max}, depth={want_dep}",
                  loc(hmod, final[0]))
    txt = " ".join(ast.unparse(hfunc).split())
    run.check("C22.R2", "all_write_accesses()" in txt, hcons,
              "applies to every write access",
              "the write information is no longer computed for all write "
              "accesses", loc(hmod, hfunc))
    check_required(idx, run)
    check_depth_expression(idx, run)
    run.exhaustive = True
    run.assumptions = ["where halo exchanges are placed (dependence between "
                       "schedule nodes) is not decided"]


# ----------------------------------------------------------------------
# R3: the decision "is this halo exchange required?"
class _Obj:
    def __init__(self, **kw):
        self.__dict__.update(kw)

    def __repr__(self):
        return "(" + ", ".join(f"{k}={v}" for k, v in
                               self.__dict__.items()) + ")"


class _Return(Exception):
    pass


def _ev(node, env):
    if isinstance(node, ast.Constant):
        return node.value
    if isinstance(node, ast.Name):
        if node.id in env:
            return env[node.id]
        raise AnalysisError(f"required(): unknown name '{node.id}'")
    if isinstance(node, ast.Tuple):
        return tuple(_ev(e, env) for e in node.elts)
    if isinstance(node, ast.Attribute):
        txt = ast.unparse(node)
        if txt.endswith("compute_annexed_dofs") and "Config" in txt:
            return env["@annexed"]
        base = _ev(node.value, env)
        if isinstance(base, _Obj) and node.attr in base.__dict__:
            return getattr(base, node.attr)
        raise AnalysisError(f"required(): cannot evaluate '{txt}'")
    if isinstance(node, ast.Subscript):
        base = _ev(node.value, env)
        return base[_ev(node.slice, env)]
    if isinstance(node, ast.ListComp) and len(node.generators) == 1 and \
            isinstance(node.generators[0].target, ast.Name):
        gen = node.generators[0]
        out = []
        for item in _ev(gen.iter, env):
            sub = dict(env)
            sub[gen.target.id] = item
            if all(_ev(c, sub) for c in gen.ifs):
                out.append(_ev(node.elt, sub))
        return out
    if isinstance(node, ast.Call):
        ftxt = ast.unparse(node.func)
        if ftxt == "len":
            return len(_ev(node.args[0], env))
        if ftxt == "str" and len(node.args) == 1:
            val = _ev(node.args[0], env)
            return ("expr", id(val)) if isinstance(val, _Obj) else str(val)
        if ftxt.endswith(".psyir_expression") and not node.args:
            val = _ev(node.func.value, env)
            if isinstance(val, _Obj):
                return ("expr", id(val))
        if ftxt == "IntrinsicCall.create" and "MAX" in \
                ast.unparse(node.args[0]):
            return ("MAX", tuple(_ev(node.args[1], env)))
        if ftxt.endswith(".join") and len(node.args) == 1:
            return ("JOIN", tuple(_ev(node.args[0], env)))
        if ftxt.endswith("_compute_halo_read_depth_info"):
            return env["@reads"]
        if ftxt.endswith("_compute_halo_write_info"):
            return env["@clean"]
        raise AnalysisError(f"required(): call '{ftxt}' is not modelled")
    if isinstance(node, ast.BoolOp):
        if isinstance(node.op, ast.And):
            val = True
            for v in node.values:
                val = _ev(v, env)
                if not val:
                    return val
            return val
        val = False
        for v in node.values:
            val = _ev(v, env)
            if val:
                return val
        return val
    if isinstance(node, ast.UnaryOp) and isinstance(node.op, ast.Not):
        return not _ev(node.operand, env)
    if isinstance(node, ast.BinOp):
        left, right = _ev(node.left, env), _ev(node.right, env)
        if isinstance(node.op, ast.Sub):
            return left - right
        if isinstance(node.op, ast.Add):
            if isinstance(left, tuple) or isinstance(right, tuple):
                # 'max(' + ','.join(list) + ')'
                parts = [x for x in (left, right) if isinstance(x, tuple)]
                strs = [x for x in (left, right) if isinstance(x, str)]
                if len(parts) == 1 and parts[0][0] in ("JOIN", "MAXSTR"):
                    txt = "".join(strs)
                    if "max(" in txt or parts[0][0] == "MAXSTR":
                        return ("MAXSTR", parts[0][1])
                    return ("JOIN", parts[0][1]) if txt == ")" else \
                        parts[0]
            return left + right
    if isinstance(node, ast.Compare) and len(node.ops) == 1:
        left, right = _ev(node.left, env), _ev(node.comparators[0], env)
        op = node.ops[0]
        table = {ast.Eq: lambda: left == right,
                 ast.NotEq: lambda: left != right,
                 ast.Lt: lambda: left < right, ast.LtE: lambda: left <= right,
                 ast.Gt: lambda: left > right, ast.GtE: lambda: left >= right,
                 ast.Is: lambda: left is right,
                 ast.IsNot: lambda: left is not right}
        if type(op) in table:
            return table[type(op)]()
    raise AnalysisError(f"required(): cannot evaluate "
                        f"'{ast.unparse(node)[:60]}'")


def _exec(stmts, env):
    for st in stmts:
        if isinstance(st, ast.Expr):
            continue
        if isinstance(st, ast.Assign) and isinstance(st.targets[0], ast.Name):
            env[st.targets[0].id] = _ev(st.value, env)
        elif isinstance(st, ast.AugAssign) and isinstance(st.target,
                                                           ast.Name):
            cur = env[st.target.id]
            val = _ev(st.value, env)
            env[st.target.id] = cur - val if isinstance(st.op, ast.Sub) \
                else cur + val
        elif isinstance(st, ast.If):
            _exec(st.body if _ev(st.test, env) else st.orelse, env)
        elif isinstance(st, ast.For) and isinstance(st.target, ast.Name):
            for item in _ev(st.iter, env):
                env[st.target.id] = item
                _exec(st.body, env)
        elif isinstance(st, ast.Return):
            env["@result"] = _ev(st.value, env)
            raise _Return()
        else:
            raise AnalysisError(f"required(): statement "
                                f"'{ast.unparse(st)[:50]}' is not modelled")


def read_entries():
    """feasible abstract read-depth entries"""
    out = [_Obj(annexed_only=True, max_depth=False, max_depth_m1=False,
                var_depth=None, literal_depth=1)]
    out.append(_Obj(annexed_only=False, max_depth=True, max_depth_m1=False,
                    var_depth=None, literal_depth=0))
    out.append(_Obj(annexed_only=False, max_depth=False, max_depth_m1=True,
                    var_depth=None, literal_depth=0))
    for var in (None, "extent"):
        for lit in (0, 1, 2, 3):
            if var is None and lit == 0:
                continue
            out.append(_Obj(annexed_only=False, max_depth=False,
                            max_depth_m1=False, var_depth=var,
                            literal_depth=lit))
    return out


def provably_clean(annexed, clean, reads):
    """may the exchange be dropped?  Only when the writer provably cleaned
    at least what every reader needs."""
    if len(reads) == 1 and reads[0].annexed_only and annexed:
        return True     # annexed DoFs are always computed redundantly
    if clean is None:
        return False
    if all(r.annexed_only for r in reads) and (
            clean.max_depth or clean.literal_depth >= 1):
        # a loop into the level-1 halo computes the annexed DoFs completely
        # (only the outer halo DoFs of that level hold partial sums)
        return True
    if clean.max_depth and not clean.dirty_outer:
        return True
    if clean.max_depth:
        # clean to max-1
        return all(r.max_depth_m1 and not r.var_depth and
                   not r.literal_depth or r.annexed_only for r in reads)
    depth = clean.literal_depth - (1 if clean.dirty_outer else 0)
    if depth <= 0:
        return False
    return all(not r.max_depth and not r.max_depth_m1 and not r.var_depth
               and r.literal_depth <= depth for r in reads)


def check_required(idx, run):
    cls = idx.get_class("psyclone.dynamo0p3.LFRicHaloExchange")
    func = cls.methods.get("required")
    if func is None:
        raise AnalysisError("LFRicHaloExchange.required not found")
    mod = cls.module
    cons = "LFRicHaloExchange.required"
    cleans = [None]
    for mx, dirty, lit in itertools.product([False, True], [False, True],
                                            [0, 1, 2, 3]):
        if mx and lit:
            continue
        cleans.append(_Obj(max_depth=mx, dirty_outer=dirty,
                           literal_depth=lit))
    entries = read_entries()
    lists = [[e] for e in entries] + [
        [a, b] for a in entries for b in entries
        if not a.annexed_only and not b.annexed_only and a is not b]
    neval = 0
    bad = {}
    for annexed in (False, True):
        for clean in cleans:
            for reads in lists:
                env = {"self": _Obj(), "ignore_hex_dep": False,
                       "@annexed": annexed, "@clean": clean, "@reads": reads}
                try:
                    _exec(func.body, env)
                except _Return:
                    pass
                res = env.get("@result")
                neval += 1
                if not (isinstance(res, tuple) and len(res) == 2):
                    raise AnalysisError("required() did not return a pair")
                if res[0] is False and not provably_clean(annexed, clean,
                                                           reads):
                    kinds = "+".join(sorted({
                        "annexed" if r.annexed_only else
                        "max" if r.max_depth else
                        "max-1" if r.max_depth_m1 else
                        "variable" if r.var_depth else "literal"
                        for r in reads}))
                    if clean is None:
                        key = f"reader depth {kinds}, writer unknown"
                    else:
                        wkind = "max" if clean.max_depth else "literal"
                        key = f"reader depth {kinds}, writer cleans " \
                              f"{wkind}" \
                              f"{'-1' if clean.dirty_outer else ''}"
                    bad.setdefault(key, (annexed, clean, reads))
    run.count("required() evaluations", neval)
    run.floor("required() evaluations", neval, 1000)
    classes = ["reader depth literal, writer cleans literal",
               "reader depth max-1, writer cleans literal",
               "reader depth variable, writer cleans literal",
               "reader depth max, writer cleans literal"]
    for key in sorted(set(bad) | set(classes)):
        wit = bad.get(key)
        run.check(
            "C22.R3", wit is None, cons,
            f"the exchange is only dropped when the halo is provably clean "
            f"({key})",
            f"required() answers 'not required' for compute_annexed="
            f"{wit[0] if wit else ''}, writer state {wit[1] if wit else ''}, "
            f"reader depths {wit[2] if wit else ''}: the writer did not "
            f"provably clean what this reader accesses, so the kernel reads "
            f"a dirty halo", loc(mod, func),
            sample={"rule": "C22.R3", "class": key, "ok": wit is None})


def check_depth_expression(idx, run):
    """C22.R4: the depth that is exchanged covers every aggregated read
    entry: one entry -> that entry, several -> the maximum over all."""
    cls = idx.get_class("psyclone.dynamo0p3.LFRicHaloExchange")
    entries = read_entries()
    for mname in ("_psyir_depth_expression", "_compute_halo_depth"):
        func = cls.methods.get(mname)
        if func is None:
            raise AnalysisError(f"LFRicHaloExchange.{mname} not found")
        bad = None
        neval = 0
        lists = [[e] for e in entries] + \
            [[a, b] for a in entries for b in entries if a is not b] + \
            [[entries[2], entries[4], entries[7]],
             [entries[5], entries[2], entries[9]]]
        for reads in lists:
            env = {"self": _Obj(), "@annexed": False, "@clean": None,
                   "@reads": reads}
            try:
                _exec(func.body, env)
            except _Return:
                pass
            neval += 1
            res = env.get("@result")
            want = {("expr", id(r)) for r in reads}
            if isinstance(res, tuple) and res and res[0] in ("MAX",
                                                             "MAXSTR"):
                got = set(res[1])
            elif isinstance(res, tuple) and res and res[0] == "expr":
                got = {res}
            else:
                raise AnalysisError(f"{mname}: result {res!r} not "
                                    f"understood")
            if not want <= got and bad is None:
                bad = reads
        run.check(
            "C22.R4", bad is None, f"LFRicHaloExchange.{mname}",
            "the exchanged depth is the maximum over all read entries",
            f"for the read entries {bad} the generated depth does not "
            f"cover every entry: a reader needing a fixed depth next to one "
            f"needing max_halo_depth-1 gets an exchange that is too shallow "
            f"when the mesh halo is only as deep as the fixed depth",
            loc(cls.module, func),
            sample={"rule": "C22.R4", "method": mname, "evaluations": neval,
                    "ok": bad is None})
