"""C27 - ModuleManager.sort_modules orders dependencies first.

The function is matched against the Kahn worklist template; the template's
invariants imply the property for *every* dependency map:

  I1 (R1) the caller's map is deep-copied and never touched;
  I2 (R2) the pre-pass removes a dependency only when it is not a key;
  I3 (R3) every iteration of `while todo` appends exactly one key M to the
          result and deletes exactly that key; nothing else adds to the
          result or removes keys  => each key exactly once, termination;
  I4 (R4) without taking the for-else, M was selected by `if not dep: break`
          so its (pruned) dependency set is empty; a set only shrinks by
          the removal of the module just emitted  => a set is empty only
          when all known dependencies are already in the result;
  I5 (R5) the else path (cycle) still picks a key of todo.
"""
import ast
from sa.index import AnalysisError, loc, norm
from sa.cfg import CFG

LEVEL = "proof"
MANIFEST = {
    "level": "proof",
    "text": "sort_modules is matched, statement by statement, against the "
            "Kahn worklist template (copy-in, prune-unknown, one key "
            "emitted and deleted per iteration, ready-only selection, "
            "complete on cycles). The template invariants imply 'each "
            "module exactly once, dependencies first when acyclic, unknown "
            "ignored, cycles complete' for every dependency map of any "
            "size, where tests only sample maps. A rewrite to another "
            "algorithm is reported as ANALYSIS-ERROR, never as a pass.",
    "note": "Trusted: the template argument written in the rule's header "
            "(I1-I5 => property), dict/set semantics, copy.deepcopy. "
            "print() side effects ignored.",
    "technique": "algorithm-template matching over the AST/CFG of one "
                 "function (structural proof obligations)",
}
MM = "src/psyclone/parse/module_manager.py"


def names_in(node):
    return {n.id for n in ast.walk(node) if isinstance(n, ast.Name)}


def check(idx, run):
    cls, func = idx.own_method("ModuleManager", "sort_modules")
    mod = cls.module
    where = loc(mod, func)
    cons = "ModuleManager.sort_modules"
    param = func.args.args[1].arg
    run.count("functions analysed")
    run.trusted_base = ["CPython ast parser", "dict/set/list semantics",
                        "the argument I1-I5 => property (rule header)"]
    run.explanation = __doc__

    def ob(rule, ok, detail, msg, node=None):
        run.check(rule, ok, cons, detail, msg,
                  loc(mod, node) if node is not None else where)
        return ok

    body = [s for s in func.body
            if not (isinstance(s, ast.Expr) and
                    isinstance(s.value, ast.Constant))]
    whiles = [s for s in body if isinstance(s, ast.While)]
    if len(whiles) != 1:
        raise AnalysisError("sort_modules is no longer a single worklist "
                            "loop (different algorithm): template does not "
                            "apply")
    loop = whiles[0]
    todo = ast.unparse(loop.test)
    if not isinstance(loop.test, ast.Name):
        raise AnalysisError(f"worklist test '{todo}' is not a plain "
                            f"container")
    # ---- R1 copy-in ----------------------------------------------------
    copies = [s for s in body if isinstance(s, ast.Assign) and
              ast.unparse(s.targets[0]) == todo]
    ok = len(copies) == 1 and faithful_copy(copies[0].value, param)
    ob("C27.R1", ok, "worklist is a faithful deep copy of the argument",
       f"the worklist '{todo}' is not built as an unmodified deep copy of "
       f"'{param}' (copy.deepcopy, or a comprehension copying every set "
       f"unchanged): either the caller's sets would be modified or "
       f"dependencies are dropped / added while copying",
       copies[0] if copies else None)
    touched = []
    for sub in ast.walk(func):
        if isinstance(sub, (ast.Assign, ast.AugAssign, ast.Delete)):
            tgts = sub.targets if not isinstance(sub, ast.AugAssign) \
                else [sub.target]
            for tgt in tgts:
                if param in names_in(tgt):
                    touched.append(sub)
        if isinstance(sub, ast.Call) and isinstance(sub.func, ast.Attribute) \
                and param in names_in(sub.func.value) and sub.func.attr in (
                    "pop", "remove", "clear", "update", "discard", "add",
                    "popitem", "setdefault"):
            touched.append(sub)
    ob("C27.R1", not touched, "argument never mutated",
       f"'{param}' itself is modified", touched[0] if touched else None)
    # result list
    rets = [s for s in body if isinstance(s, ast.Return)]
    if len(rets) != 1 or not isinstance(rets[0].value, ast.Name):
        raise AnalysisError("sort_modules: expected a single 'return <list>'")
    result = rets[0].value.id
    inits = [s for s in body if isinstance(s, ast.Assign) and
             ast.unparse(s.targets[0]) == result]
    ob("C27.R3", len(inits) == 1 and ast.unparse(inits[0].value) == "[]" and
       body.index(inits[0]) < body.index(loop) and body[-1] is rets[0],
       "result starts empty and is returned after the loop",
       "the result list is not initialised empty before the loop / not "
       "returned after it")
    # ---- R2 prune-unknown ---------------------------------------------
    prepass = [s for s in body if isinstance(s, ast.For) and
               body.index(s) < body.index(loop)]
    removes_pre = []
    for forl in prepass:
        for sub in ast.walk(forl):
            if isinstance(sub, ast.Call) and isinstance(
                    sub.func, ast.Attribute) and sub.func.attr in (
                        "remove", "discard", "pop", "clear",
                        "difference_update", "intersection_update"):
                removes_pre.append((forl, sub))
            if isinstance(sub, (ast.Delete,)):
                removes_pre.append((forl, sub))
    ok_all = True
    for forl, rem in removes_pre:
        good = False
        if isinstance(rem, ast.Call) and rem.func.attr in ("remove",
                                                           "discard") \
                and len(rem.args) == 1:
            dep = ast.unparse(rem.args[0])
            # find the enclosing inner loop body and require an earlier
            # `if dep in todo: continue` at the same level, or an enclosing
            # `if dep not in todo:`
            good = guarded_not_in(forl, rem, dep, todo)
        ok_all = ok_all and good
        ob("C27.R2", good, f"prune exactly the unknown: {norm(rem)}",
           f"'{norm(rem)}' is not executed exactly when the dependency is "
           f"not a key of the map (guard must be `{{dep}} in {todo}` -> "
           f"skip): either a real ordering constraint is removed or an "
           f"unknown dependency survives and its user is never 'ready'",
           rem)
    if not removes_pre:
        run.note("C27.R2", "no pre-pass removal found: unknown "
                 "dependencies are not pruned (a module depending on an "
                 "unknown one is then never 'ready')")
        ob("C27.R2", False, "unknown dependencies pruned",
           "no pre-pass removes dependencies that are not keys: such "
           "modules can only be emitted through the cycle path, in "
           "arbitrary order")
    # the pre-pass must not touch keys or the result
    for forl in prepass:
        bad = [s for s in ast.walk(forl) if
               (isinstance(s, ast.Delete) and todo in names_in(s)) or
               (isinstance(s, ast.Call) and
                isinstance(s.func, ast.Attribute) and
                ast.unparse(s.func.value) in (todo, result) and
                s.func.attr in ("pop", "append", "clear", "popitem"))]
        ob("C27.R2", not bad, "pre-pass leaves keys and result alone",
           "the pre-pass removes keys or adds results",
           bad[0] if bad else forl)
    # ---- R3 one-per-iteration -------------------------------------------
    top = loop.body
    appends = [s for s in top if isinstance(s, ast.Expr) and
               isinstance(s.value, ast.Call) and
               ast.unparse(s.value.func) == f"{result}.append"]
    dels = [s for s in top if isinstance(s, ast.Delete) and
            len(s.targets) == 1 and
            isinstance(s.targets[0], ast.Subscript) and
            ast.unparse(s.targets[0].value) == todo]
    pops = [s for s in top if isinstance(s, ast.Expr) and
            isinstance(s.value, ast.Call) and
            ast.unparse(s.value.func) == f"{todo}.pop"]
    nkey = len(dels) + len(pops)
    ok3 = len(appends) == 1 and nkey == 1
    chosen = ast.unparse(appends[0].value.args[0]) if appends else "?"
    if ok3:
        delkey = ast.unparse(dels[0].targets[0].slice) if dels else \
            ast.unparse(pops[0].value.args[0])
        ok3 = delkey == chosen and isinstance(appends[0].value.args[0],
                                              ast.Name)
    ob("C27.R3", ok3, "one append and one delete of the same key per "
       "iteration (top level of the loop body)",
       f"each iteration must append exactly one module and delete exactly "
       f"that key; found {len(appends)} top-level append(s) and {nkey} "
       f"top-level key removal(s)", loop)
    # no other result growth / key removal anywhere in the function
    others = []
    for sub in ast.walk(func):
        if isinstance(sub, ast.Call) and isinstance(sub.func, ast.Attribute):
            recv = ast.unparse(sub.func.value)
            if recv == result and sub.func.attr in (
                    "append", "extend", "insert", "remove", "pop", "clear",
                    "sort", "reverse") and not (
                        appends and sub is appends[0].value):
                others.append(sub)
            if recv == todo and sub.func.attr in (
                    "pop", "popitem", "clear", "update", "setdefault") and \
                    not (pops and sub is pops[0].value):
                others.append(sub)
        if isinstance(sub, ast.Delete) and todo in names_in(sub) and not (
                dels and sub is dels[0]):
            others.append(sub)
        if isinstance(sub, (ast.Assign, ast.AugAssign)):
            tgts = sub.targets if isinstance(sub, ast.Assign) \
                else [sub.target]
            for tgt in tgts:
                if isinstance(tgt, ast.Subscript) and \
                        ast.unparse(tgt.value) in (todo, result):
                    others.append(sub)
                if isinstance(tgt, ast.Name) and tgt.id in (todo, result) \
                        and sub not in copies and sub not in inits:
                    others.append(sub)
    ob("C27.R3", not others, "nothing else changes result or keys",
       f"'{norm(others[0]) if others else ''}' also changes the result "
       f"list or the key set", others[0] if others else None)
    # no continue/break at the while level
    def level_jumps(stmts):
        out = []
        for stmt in stmts:
            if isinstance(stmt, (ast.Continue, ast.Break)):
                out.append(stmt)
            elif isinstance(stmt, (ast.For, ast.While)):
                out += level_jumps(stmt.orelse)
            elif isinstance(stmt, ast.If):
                out += level_jumps(stmt.body) + level_jumps(stmt.orelse)
            elif isinstance(stmt, ast.Try):
                out += level_jumps(stmt.body) + level_jumps(stmt.orelse) + \
                    level_jumps(stmt.finalbody)
                for hnd in stmt.handlers:
                    out += level_jumps(hnd.body)
            elif isinstance(stmt, ast.With):
                out += level_jumps(stmt.body)
        return out
    jumps = level_jumps(top)
    ob("C27.R3", not jumps and not loop.orelse,
       "no continue/break skips the append/delete",
       "a continue/break at the level of the worklist loop can skip the "
       "append or the delete", jumps[0] if jumps else loop)
    # ---- R4 ready-only ---------------------------------------------------
    sel = [s for s in top if isinstance(s, ast.For) and
           appends and top.index(s) < top.index(appends[0])]
    if len(sel) != 1:
        raise AnalysisError("selection loop before the append not found "
                            "(different algorithm)")
    sel = sel[0]
    sel_ok = False
    depvar = None
    if isinstance(sel.target, ast.Tuple) and len(sel.target.elts) == 2 and \
            ast.unparse(sel.iter) == f"{todo}.items()" and \
            ast.unparse(sel.target.elts[0]) == chosen:
        depvar = ast.unparse(sel.target.elts[1])
        if len(sel.body) == 1 and isinstance(sel.body[0], ast.If) and \
                not sel.body[0].orelse and \
                len(sel.body[0].body) == 1 and \
                isinstance(sel.body[0].body[0], ast.Break):
            test = ast.unparse(sel.body[0].test)
            sel_ok = test in (f"not {depvar}", f"len({depvar}) == 0",
                              f"{depvar} == set()")
    ob("C27.R4", sel_ok, "selection breaks only on an empty dependency set",
       "the selection loop must iterate over todo.items() and stop at the "
       "first module whose dependency set is empty; another condition "
       "emits modules before their dependencies", sel)
    ob("C27.R5", bool(sel.orelse), "cycle path present",
       "without an else branch a dependency cycle would emit an arbitrary "
       "last-visited module silently (or loop forever)", sel)
    # between selection and append `chosen` is not re-assigned
    between = top[top.index(sel) + 1: top.index(appends[0])] if appends \
        else []
    reass = [s for s in between for n in ast.walk(s)
             if isinstance(n, ast.Name) and n.id == chosen and
             isinstance(n.ctx, ast.Store)]
    ob("C27.R4", not reass, "selected module reaches the append unchanged",
       f"'{chosen}' is re-assigned between the selection and the append",
       reass[0] if reass else None)
    # post-append removal: for dep in todo.values(): if M in dep:
    # dep.remove(M)
    post = [s for s in top if isinstance(s, ast.For) and appends and
            top.index(s) > top.index(appends[0])]
    post_ok = False
    extra_removals = []
    for forl in post:
        if ast.unparse(forl.iter) != f"{todo}.values()":
            continue
        var = ast.unparse(forl.target)
        for stmt in forl.body:
            txt = ast.unparse(stmt)
            if txt in (f"if {chosen} in {var}:\n    {var}.remove({chosen})",
                       f"{var}.discard({chosen})"):
                post_ok = True
    for sub in ast.walk(loop):
        if isinstance(sub, ast.Call) and isinstance(sub.func, ast.Attribute) \
                and sub.func.attr in ("remove", "discard", "clear", "pop",
                                      "difference_update") and \
                ast.unparse(sub.func.value) not in (todo, result):
            if not (len(sub.args) == 1 and
                    ast.unparse(sub.args[0]) == chosen):
                extra_removals.append(sub)
    ob("C27.R4", post_ok, "emitted module removed from all remaining sets",
       "after emitting a module it must be removed from every remaining "
       "dependency set, otherwise its dependants never become ready",
       post[0] if post else loop)
    ob("C27.R4", not extra_removals,
       "dependency sets shrink only by the emitted module",
       f"'{norm(extra_removals[0]) if extra_removals else ''}' removes "
       f"something other than the module just emitted from a dependency "
       f"set", extra_removals[0] if extra_removals else None)
    # ---- R5 cycle-complete ------------------------------------------------
    else_ok = False
    for stmt in sel.orelse:
        if isinstance(stmt, ast.Assign) and \
                ast.unparse(stmt.targets[0]) == chosen:
            src = ast.unparse(stmt.value)
            # value must be drawn from the keys of todo
            srcvar = stmt.value
            if isinstance(srcvar, ast.Subscript) and \
                    isinstance(srcvar.value, ast.Name):
                defs = [s for s in sel.orelse if isinstance(s, ast.Assign)
                        and ast.unparse(s.targets[0]) == srcvar.value.id]
                src = " ".join(ast.unparse(d.value) for d in defs)
            else_ok = (f"{todo}.keys()" in src or f"in {todo}" in src or
                       f"iter({todo})" in src or f"min({todo}" in src or
                       f"sorted({todo}" in src)
    ob("C27.R5", else_ok, "cycle path selects a key of the worklist",
       "on a cycle the chosen module must still be a key of the worklist "
       "(otherwise the delete fails or a module is emitted twice)",
       sel.orelse[0] if sel.orelse else sel)
    run.extra["roles"] = {"param": param, "todo": todo, "result": result,
                          "chosen": chosen, "depvar": depvar}
    # callers rely on the order: who calls sort_modules
    callers = 0
    for fmod, fcls, fn in idx.functions_iter():
        for sub in ast.walk(fn):
            if isinstance(sub, ast.Call) and \
                    isinstance(sub.func, ast.Attribute) and \
                    sub.func.attr == "sort_modules":
                callers += 1
    run.extra["callers_of_sort_modules"] = callers


def faithful_copy(value, param):
    """copy.deepcopy(param)  or  {k: set(v) for k, v in param.items()}
    (also v.copy() / copy.copy(v) / set(v) / frozenset-free variants)."""
    txt = ast.unparse(value)
    if txt in (f"copy.deepcopy({param})", f"deepcopy({param})"):
        return True
    comp = value
    if isinstance(comp, ast.Call) and ast.unparse(comp.func) in (
            "dict", "OrderedDict") and len(comp.args) == 1:
        comp = comp.args[0]
    if isinstance(comp, (ast.DictComp, ast.GeneratorExp, ast.ListComp)) \
            and len(comp.generators) == 1 and not comp.generators[0].ifs:
        gen = comp.generators[0]
        if ast.unparse(gen.iter) != f"{param}.items()" or \
                not isinstance(gen.target, ast.Tuple) or \
                len(gen.target.elts) != 2:
            return False
        kname = ast.unparse(gen.target.elts[0])
        vname = ast.unparse(gen.target.elts[1])
        if isinstance(comp, ast.DictComp):
            key, val = comp.key, comp.value
        elif isinstance(comp.elt, ast.Tuple) and len(comp.elt.elts) == 2:
            key, val = comp.elt.elts
        else:
            return False
        return ast.unparse(key) == kname and ast.unparse(val) in (
            f"set({vname})", f"{vname}.copy()", f"copy.copy({vname})",
            f"copy.deepcopy({vname})")
    return False


def guarded_not_in(forl, rem, dep, todo):
    """Is the removal reachable only when `dep in todo` is false?"""
    # locate the statement list containing the removal
    def search(stmts, guards):
        for pos, stmt in enumerate(stmts):
            if any(sub is rem for sub in ast.walk(stmt)):
                if isinstance(stmt, ast.Expr) and stmt.value is rem:
                    # earlier sibling `if dep in todo: continue`
                    for prev in stmts[:pos]:
                        if isinstance(prev, ast.If) and \
                                ast.unparse(prev.test) == f"{dep} in {todo}" \
                                and prev.body and isinstance(
                                    prev.body[-1], (ast.Continue,
                                                    ast.Break)) and \
                                not prev.orelse:
                            return True
                    return any(g == f"{dep} not in {todo}" for g in guards)
                if isinstance(stmt, ast.If):
                    cond = ast.unparse(stmt.test)
                    if any(sub is rem for s in stmt.body
                           for sub in ast.walk(s)):
                        return search(stmt.body, guards + [cond])
                    neg = cond.replace(" in ", " not in ") \
                        if " not in " not in cond else cond
                    return search(stmt.orelse, guards + [neg])
                if isinstance(stmt, (ast.For, ast.While)):
                    return search(stmt.body, guards)
                return False
        return False
    return search(forl.body, [])
