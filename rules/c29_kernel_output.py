"""C29 - transformed-kernel output never clobbers other kernels.

Protocol shape of CodedKern.rename_and_write / _rename_psyir / _new_name:
R1 excl-create       files are only created with os.open(..., flags) where
                     flags contains O_CREAT and O_EXCL; no open(path, 'w').
R2 write-own-fd      only the descriptor returned by that os.open is written
                     and closed; nothing is written on the EEXIST path;
                     'multiple' retries with a new index, 'single' only
                     reads, compares and raises on a difference.
R3 name-agreement    file name and module / routine names are built from the
                     same suffix with the same "_mod" predicate; the PSy
                     layer's name fields are updated.
R4 publish-atomic    typestate: a path other runs may read by name must not
                     be observable before its content is complete.
"""
import ast
from sa.index import AnalysisError, loc, norm
from sa.cfg import CFG, calls_at

LEVEL = "other"
MANIFEST = {
    "level": "other",
    "text": "Structural protocol check of the one function that creates "
            "kernel files: exclusive creation flags, write only through "
            "the descriptor obtained by the exclusive create, nothing "
            "written on the already-exists path (CFG reachability from the "
            "handler), fresh index per retry, read-compare-raise for the "
            "'single' scheme, and def-use agreement between the file name "
            "and the names stored in the PSyIR / PSy layer, including "
            "agreement of the two '_mod' suffix predicates. A typestate "
            "rule reports that the file is visible before it has content. "
            "These necessary conditions hold on every path, which no "
            "sampled interleaving can show.",
    "note": "No interleavings are explored (that needs a scheduler); the "
            "rule decides the protocol shape only. POSIX O_CREAT|O_EXCL "
            "atomicity is trusted.",
    "technique": "CFG reachability + def-use + typestate rule over "
                 "rename_and_write / _rename_psyir / _new_name + refusal-weakening check against the reviewed guard snapshot",
}
PG = "src/psyclone/psyGen.py"
WRITE_MODES = ("w", "a", "x", "+")


def flag_names(node):
    """Names in an `os.O_A | os.O_B` expression."""
    if isinstance(node, ast.BinOp) and isinstance(node.op, ast.BitOr):
        return flag_names(node.left) | flag_names(node.right)
    if isinstance(node, ast.Attribute):
        return {node.attr}
    if isinstance(node, ast.Name):
        return {node.id}
    return {"?"}


def suffix_predicate(test, var):
    """Classify `<var>[.lower()].endswith(X)` -> ('ci'|'cs', X-expr-text)"""
    if isinstance(test, ast.Call) and isinstance(test.func, ast.Attribute) \
            and test.func.attr == "endswith" and len(test.args) == 1:
        recv = test.func.value
        arg = test.args[0]
        if isinstance(recv, ast.Name) and recv.id == var:
            return "cs", ast.unparse(arg)
        if isinstance(recv, ast.Call) and isinstance(recv.func,
                                                     ast.Attribute) and \
                recv.func.attr in ("lower", "upper", "casefold") and \
                ast.unparse(recv.func.value) == var:
            return "ci", ast.unparse(arg)
    return None



GUARDED = [
    ("psyclone.psyGen.CodedKern", "rename_and_write"),
    ("psyclone.psyGen.CodedKern", "_rename_psyir"),
]

def check(idx, run):
    run.explanation = __doc__
    from sa.guards import check_guards
    check_guards(idx, run, "C29.R5", GUARDED)
    cls, func = idx.own_method("psyclone.psyGen.CodedKern",
                               "rename_and_write")
    mod = cls.module
    cons = "CodedKern.rename_and_write"
    cfg = CFG(func)
    run.count("functions analysed")

    # ---- R1 ------------------------------------------------------------
    opens = []
    for node in cfg.stmt_nodes():
        for call in calls_at(node):
            name = ast.unparse(call.func)
            if name == "os.open":
                opens.append((node, call))
                flags = flag_names(call.args[1]) if len(call.args) > 1 \
                    else {"?"}
                ok = {"O_CREAT", "O_EXCL"} <= flags and "O_TRUNC" not in \
                    flags and "?" not in flags
                run.check(
                    "C29.R1", ok, cons, "os.open flags",
                    f"kernel file is created with flags {sorted(flags)}: "
                    f"without O_CREAT|O_EXCL two runs can both 'create' "
                    f"the same file and one overwrites the other",
                    loc(mod, call))
            elif name == "open" or name.endswith(".open") and \
                    name != "os.open":
                mode = None
                if len(call.args) > 1:
                    mode = call.args[1]
                for kword in call.keywords:
                    if kword.arg == "mode":
                        mode = kword.value
                mtxt = mode.value if isinstance(mode, ast.Constant) else \
                    ("r" if mode is None else "?")
                ok = not any(c in str(mtxt) for c in WRITE_MODES) and \
                    mtxt != "?"
                run.check(
                    "C29.R1", ok, cons, f"open(..., {mtxt!r})",
                    f"builtin open() with mode {mtxt!r} creates or "
                    f"truncates a kernel file without the exclusive-create "
                    f"protocol", loc(mod, call))
            elif name in ("os.rename", "os.replace", "shutil.copy",
                          "shutil.move", "shutil.copyfile", "os.remove",
                          "os.unlink", "os.truncate"):
                run.check("C29.R1", False, cons, name,
                          f"{name} can replace or remove a file another "
                          f"run relies on", loc(mod, call))
    excl = [(n, c) for n, c in opens if len(c.args) > 1 and
            {"O_CREAT", "O_EXCL"} <= flag_names(c.args[1])]
    if len(opens) != 1 and not (run.findings and excl):
        raise AnalysisError(f"expected exactly one os.open in "
                            f"rename_and_write, found {len(opens)}")
    onode, ocall = (excl or opens)[0]
    # descriptor variable
    if not (isinstance(onode.ast, ast.Assign) and
            isinstance(onode.ast.targets[0], ast.Name)):
        raise AnalysisError("os.open result is not bound to a variable")
    fdvar = onode.ast.targets[0].id

    # ---- R2 ------------------------------------------------------------
    writes = []
    for node in cfg.stmt_nodes():
        for call in calls_at(node):
            name = ast.unparse(call.func)
            if name in ("os.write", "os.close", "os.fsync"):
                writes.append((node, call))
                ok = call.args and ast.unparse(call.args[0]) == fdvar
                run.check("C29.R2", ok, cons, f"{name} descriptor",
                          f"{name} does not use the descriptor returned by "
                          f"the exclusive create", loc(mod, call))
    run.check("C29.R2", any(ast.unparse(c.func) == "os.write"
                            for _, c in writes), cons, "content written",
              "the created file is never written", loc(mod, func))
    # handler of the try around os.open
    handlers = [tgt for tgt, lab in onode.succ if lab == "exc" and
                tgt.kind == "except"]
    if not handlers:
        raise AnalysisError("os.open is not inside a try with a handler: "
                            "the EEXIST path cannot be identified")
    hnode = handlers[0]
    caught = ast.unparse(hnode.ast.type) if hnode.ast.type is not None \
        else "<all>"
    run.check("C29.R2", "OSError" in caught or "FileExistsError" in caught
              or caught == "<all>", cons, "EEXIST handled",
              f"the handler around os.open catches {caught}, not OSError",
              loc(mod, hnode.ast))
    # nodes reachable from the handler without a new successful os.open
    reach = cfg.reachable(start=hnode, avoid=lambda n: n is onode)
    bad = [n for n, c in writes if n.id in reach and
           ast.unparse(c.func) == "os.write"]
    # a write guarded by `if not fd: ... else: write` is fine only if the
    # descriptor is falsy on the handler path: fd must not be assigned on it
    fd_assigned = [n for n in cfg.stmt_nodes() if n.id in reach and
                   isinstance(n.ast, ast.Assign) and n.kind == "stmt" and
                   any(isinstance(t, ast.Name) and t.id == fdvar
                       for t in n.ast.targets)]
    guarded = []
    for wnode in bad:
        # write statements sit under the false branch of `if not fd`
        dom = cfg.dominators().get(wnode.id, set())
        tests = [cfg.nodes[i] for i in dom if cfg.nodes[i].kind == "test"
                 and isinstance(cfg.nodes[i].ast, ast.If)]
        okg = False
        for tnode in tests:
            ttxt = ast.unparse(tnode.ast.test)
            if ttxt in (f"not {fdvar}", f"{fdvar} is None"):
                in_else = any(s is wnode.ast or any(
                    x is wnode.ast for x in ast.walk(s))
                    for s in tnode.ast.orelse)
                okg = okg or in_else
            if ttxt in (fdvar, f"{fdvar} is not None"):
                in_body = any(any(x is wnode.ast for x in ast.walk(s))
                              for s in tnode.ast.body)
                okg = okg or in_body
        guarded.append(okg)
    # fd initialised falsy before the loop
    inits = [s for s in ast.walk(func) if isinstance(s, ast.Assign) and
             any(isinstance(t, ast.Name) and t.id == fdvar
                 for t in s.targets) and s is not onode.ast]
    falsy_init = bool(inits) and all(
        isinstance(s.value, ast.Constant) and not s.value.value
        for s in inits)
    ok = (not bad) or (all(guarded) and not fd_assigned and falsy_init)
    run.check(
        "C29.R2", ok, cons, "nothing written on the already-exists path",
        "a write is reachable from the EEXIST handler without a new "
        "successful exclusive create (and is not guarded by the descriptor "
        "being set): an existing file of another run / kernel would be "
        "overwritten", loc(mod, bad[0].ast) if bad else loc(mod, func))
    # handler body: 'single' -> break, else continue
    hbody = hnode.ast.body
    htxt = [norm(s) for s in hbody]
    breaks = [s for s in ast.walk(hnode.ast) if isinstance(s, ast.Break)]
    conts = [s for s in ast.walk(hnode.ast) if isinstance(s, ast.Continue)]
    single_guard = any(
        isinstance(s, ast.If) and "kernel_naming" in ast.unparse(s.test) and
        "single" in ast.unparse(s.test) and
        any(isinstance(b, ast.Break) for b in s.body) for s in hbody)
    run.check("C29.R2", single_guard and len(breaks) == 1 and
              len(conts) >= 1, cons, "handler: single->break, else retry",
              f"the EEXIST handler must stop only for the 'single' scheme "
              f"and retry otherwise; found {htxt}", loc(mod, hnode.ast))
    # retry uses a fresh index: counter incremented in the loop before open,
    # and the file name depends on it
    loops = [s for s in ast.walk(func) if isinstance(s, ast.While) and
             any(x is ocall for x in ast.walk(s))]
    if len(loops) != 1:
        raise AnalysisError("retry loop around os.open not found")
    loop = loops[0]
    counters = [s for s in loop.body if isinstance(s, ast.AugAssign) and
                isinstance(s.op, ast.Add) and s.lineno < ocall.lineno and
                isinstance(s.value, ast.Constant) and
                isinstance(s.value.value, int) and s.value.value > 0]
    cname = ast.unparse(counters[0].target) if counters else None
    path_arg = ocall.args[0]
    pnames = {n.id for n in ast.walk(path_arg) if isinstance(n, ast.Name)}
    # chase local definitions inside the loop body
    dep = set(pnames)
    for _ in range(4):
        for s in loop.body:
            if isinstance(s, (ast.Assign, ast.AugAssign)):
                tgt = s.targets[0] if isinstance(s, ast.Assign) else s.target
                if isinstance(tgt, ast.Name) and tgt.id in dep:
                    dep |= {n.id for n in ast.walk(s.value)
                            if isinstance(n, ast.Name)}
    run.check("C29.R2", cname is not None and cname in dep, cons,
              "fresh name per retry",
              "the retry loop does not derive the file name from a counter "
              "incremented on every iteration: the same existing name "
              "would be retried forever or reused", loc(mod, loop))
    # loop test is the descriptor (exits only with a descriptor or break)
    run.check("C29.R2", ast.unparse(loop.test) in (f"not {fdvar}",
                                                   f"{fdvar} is None"),
              cons, "loop until created",
              "the retry loop does not run until a descriptor was "
              "obtained", loc(mod, loop))
    # compare branch: reads and raises GenerationError on difference
    cmp_ok = False
    for node in cfg.stmt_nodes():
        if node.kind == "test" and isinstance(node.ast, ast.If) and \
                ast.unparse(node.ast.test) in (f"not {fdvar}",
                                               f"{fdvar} is None"):
            body = node.ast.body
            reads = [c for s in body for c in ast.walk(s)
                     if isinstance(c, ast.Call) and
                     ast.unparse(c.func) == "open"]
            raises = [r for s in body for r in ast.walk(s)
                      if isinstance(r, ast.Raise)]
            cmps = [c for s in body for c in ast.walk(s)
                    if isinstance(c, ast.If) and
                    isinstance(c.test, ast.Compare) and
                    isinstance(c.test.ops[0], ast.NotEq)]
            cmp_ok = bool(reads) and bool(raises) and bool(cmps) and \
                "GenerationError" in ast.unparse(raises[0])
    run.check("C29.R2", cmp_ok, cons, "single: read, compare, raise",
              "with an existing file the 'single' scheme must read it, "
              "compare with the new kernel and raise GenerationError on a "
              "difference", loc(mod, func))

    # ---- R3 ------------------------------------------------------------
    # new_name = old_base + new_suffix + "_mod.f90"
    name_defs = [s for s in loop.body if isinstance(s, ast.Assign) and
                 isinstance(s.targets[0], ast.Name) and
                 s.targets[0].id in pnames]
    sfx_var = None
    base_var = None
    ext_ok = False
    for s in name_defs:
        parts = []
        cur = s.value
        while isinstance(cur, ast.BinOp) and isinstance(cur.op, ast.Add):
            parts.insert(0, cur.right)
            cur = cur.left
        parts.insert(0, cur)
        if len(parts) == 3 and isinstance(parts[2], ast.Constant):
            ext_ok = parts[2].value == "_mod.f90"
            base_var = ast.unparse(parts[0])
            sfx_var = ast.unparse(parts[1])
    run.check("C29.R3", ext_ok and sfx_var is not None, cons,
              "file name = base + suffix + '_mod.f90'",
              "the file name is no longer base + suffix + '_mod.f90'",
              loc(mod, loop))
    renames = [c for c in ast.walk(func) if isinstance(c, ast.Call) and
               ast.unparse(c.func) == "self._rename_psyir"]
    ok = len(renames) == 1 and [ast.unparse(a) for a in renames[0].args] == \
        [sfx_var] and renames[0].lineno > loop.lineno
    run.check("C29.R3", ok, cons, "same suffix for file and PSyIR names",
              f"_rename_psyir is not called (once, after the loop) with the "
              f"suffix '{sfx_var}' used in the file name: module name and "
              f"file name would differ", loc(mod, func))
    # predicate in rename_and_write
    pred_here = None
    for s in ast.walk(func):
        if isinstance(s, ast.If) and any(
                isinstance(b, ast.Assign) and
                ast.unparse(b.targets[0]) == base_var for b in s.body):
            # variable tested
            for var in {n.id for n in ast.walk(s.test)
                        if isinstance(n, ast.Name)}:
                got = suffix_predicate(s.test, var)
                if got:
                    pred_here = got
                    strip = [ast.unparse(b.value) for b in s.body
                             if isinstance(b, ast.Assign)]
                    run.check("C29.R3", strip == [f"{var}[:-4]"] and
                              got[1] == "'_mod'", cons,
                              "strips exactly '_mod'",
                              f"the base name strips {strip} for suffix "
                              f"{got[1]}", loc(mod, s))
    # _new_name predicate
    _, nfunc = idx.own_method("psyclone.psyGen.CodedKern", "_new_name")
    nargs = [a.arg for a in nfunc.args.args]
    pred_new = None
    for s in ast.walk(nfunc):
        if isinstance(s, ast.If):
            got = suffix_predicate(s.test, nargs[0])
            if got:
                pred_new = got
                ret = [ast.unparse(b.value) for b in s.body
                       if isinstance(b, ast.Return)]
                want = f"{nargs[0]}[:-len({nargs[2]})] + {nargs[1]} + " \
                       f"{nargs[2]}"
                run.check("C29.R3", ret == [want], "CodedKern._new_name",
                          "inserts the tag before the suffix",
                          f"_new_name returns {ret}, expected {want}",
                          loc(mod, s))
    tail = [s for s in nfunc.body if isinstance(s, ast.Return)]
    run.check("C29.R3", bool(tail) and ast.unparse(tail[-1].value) ==
              f"{nargs[0]} + {nargs[1]} + {nargs[2]}",
              "CodedKern._new_name", "appends tag and suffix otherwise",
              "_new_name's fall-through no longer appends tag + suffix",
              loc(mod, nfunc))
    if pred_here is None or pred_new is None:
        raise AnalysisError("could not extract the two '_mod' suffix "
                            "predicates")
    run.check(
        "C29.R3", pred_here[0] == pred_new[0], "CodedKern._new_name",
        "suffix predicates agree on case",
        f"rename_and_write strips '_mod' from the file name "
        f"{'case-insensitively' if pred_here[0] == 'ci' else 'case-sensitively'} "
        f"but _new_name tests the suffix "
        f"{'case-insensitively' if pred_new[0] == 'ci' else 'case-sensitively'}"
        f": for a module spelled 'X_MOD' the file X_0_mod.f90 would contain "
        f"module X_MOD_0_mod, which the PSy layer then fails to find",
        loc(mod, nfunc))
    # _rename_psyir stores
    _, rfunc = idx.own_method("psyclone.psyGen.CodedKern", "_rename_psyir")
    sfx = rfunc.args.args[1].arg
    newvars = {}
    for s in ast.walk(rfunc):
        if isinstance(s, ast.Assign) and isinstance(s.value, ast.Call) and \
                ast.unparse(s.value.func) == "self._new_name":
            args = [ast.unparse(a) for a in s.value.args]
            newvars[ast.unparse(s.targets[0])] = args
    mods = [v for v, a in newvars.items() if a[1:] == [sfx, "'_mod'"]]
    kerns = [v for v, a in newvars.items() if a[1:] == [sfx, "'_code'"]]
    run.check("C29.R3", len(mods) == 1 and len(kerns) == 1,
              "CodedKern._rename_psyir", "names derived via _new_name",
              "module and routine names are not both derived through "
              "_new_name(orig, suffix, '_mod' / '_code')", loc(mod, rfunc))
    stores = {}
    for s in ast.walk(rfunc):
        if isinstance(s, ast.Assign) and isinstance(s.targets[0],
                                                    ast.Attribute):
            stores[ast.unparse(s.targets[0])] = ast.unparse(s.value)
    def stored(target, var):
        val = stores.get(target, "")
        return val in (var, var + "[:]")
    ok = bool(mods) and bool(kerns) and \
        stored("self._module_name", mods[0]) and \
        stored("self.name", kerns[0]) and \
        any(stored(t, mods[0]) for t in stores if t.endswith(".name") and
            t != "self.name") and \
        any(stored(t, kerns[0]) for t in stores if t.endswith(".name") and
            t != "self.name")
    run.check("C29.R3", ok, "CodedKern._rename_psyir",
              "new names stored in kernel call, schedule and container",
              "the new module / routine names are not stored in all of "
              "self.name, self._module_name, the schedule and the "
              "container: the PSy layer would import a module that was not "
              "written", loc(mod, rfunc))
    # original module name read from the same attribute in both places
    def reads_module_name(fn):
        return any(isinstance(s, ast.Assign) and
                   ast.unparse(s.value) in ("self.module_name[:]",
                                            "self.module_name",
                                            "self._module_name[:]",
                                            "self._module_name")
                   for s in ast.walk(fn))
    run.check("C29.R3", reads_module_name(func) and
              reads_module_name(rfunc), cons,
              "both start from the kernel's module name",
              "file name and PSyIR names no longer start from the same "
              "original module name", loc(mod, func))

    # ---- R4 typestate --------------------------------------------------
    # created-under-final-name, written later, while an EEXIST branch reads
    # by name
    wnodes = [n for n, c in writes if ast.unparse(c.func) == "os.write"]
    gap = []
    if wnodes:
        between = cfg.reachable(start=onode) - {onode.id}
        # statements that execute between creation and the write on the
        # success path (approximation: nodes dominated by the open and
        # dominating the write)
        dom = cfg.dominators()
        gap = [cfg.nodes[i] for i in dom.get(wnodes[0].id, set())
               if i in between and cfg.nodes[i].ast is not None and
               cfg.nodes[i] is not wnodes[0] and
               cfg.nodes[i].kind == "stmt"]
    reader_on_exists = any(
        n.id in reach for n in cfg.stmt_nodes()
        for c in calls_at(n) if ast.unparse(c.func) == "open")
    tmp_publish = any(ast.unparse(c.func) in ("os.rename", "os.replace",
                                              "os.link")
                      for c in ast.walk(func) if isinstance(c, ast.Call))
    run.check(
        "C29.R4", not (gap and reader_on_exists and not tmp_publish), cons,
        "file visible before its content is written",
        f"the kernel file is created under its final name and written "
        f"{len(gap)} statements later (the kernel is rendered in "
        f"between), while a run that finds the name taken ('single' "
        f"scheme) reads it by name: it can read the still-empty file and "
        f"fail with a spurious GenerationError", loc(mod, ocall))
    run.assumptions = ["POSIX O_CREAT|O_EXCL is atomic",
                       "no interleavings are explored"]
