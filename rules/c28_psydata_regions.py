"""C28 - PSyData regions are entered and left in matched pairs.

R1 no-escape       no node that can transfer control out of the region is
                   accepted inside one: `Return` is in the MRO-resolved
                   exclusion tuple of every PSyData transformation; code
                   blocks (which hold EXIT / CYCLE / GO TO verbatim) are
                   either excluded or inspected; the exclusion is applied to
                   all descendants and cannot be switched off internally.
R2 paired-lowering the start call is inserted unconditionally before the
                   region body is moved out and the end call unconditionally
                   after, at the same nesting level; the optional middle calls
                   are conditioned on the same flag.
R3 unique-names    region names come from the user option or from a counter
                   that is incremented per region.
"""
import ast
from sa.index import AnalysisError, loc, norm, const_value
from sa.cfg import CFG, calls_at

LEVEL = "other"
MANIFEST = {
    "level": "other",
    "text": "For every PSyData transformation class (MRO-resolved tuples "
            "and validate chains) the nodes able to leave a region are "
            "refused; the lowering of PSyDataNode is checked by CFG "
            "dominance / post-dominance to insert PreStart before and "
            "PostEnd after the body on every path; name generation uses an "
            "incremented counter. This is a statement about all region "
            "placements and all programs, decided from the shape of the "
            "validation and lowering code.",
    "note": "Run-time call order and STOP / error exits inside called "
            "routines are not decided. CodeBlocks holding EXIT/CYCLE/GOTO "
            "are a recorded finding (C28-a).",
    "technique": "MRO-resolved constant tuples + super-chain check + CFG "
                 "dominance over the lowering method + refusal-weakening check against the reviewed guard snapshot",
}
PDT = "psyclone.psyir.transformations.psy_data_trans.PSyDataTrans"
CONTROL_STMTS = ("Exit_Stmt", "Cycle_Stmt", "Goto_Stmt", "Return_Stmt",
                 "Stop_Stmt", "Computed_Goto_Stmt")


def resolved_exclusions(idx, cls):
    res = idx.find_attr(cls, "excluded_node_types")
    if res is None:
        return None, set()
    owner, val = res
    names = const_value(idx, owner.module, val)
    return owner, {str(n).split(".")[-1] for n in names}


def inspects_codeblocks(idx, cls):
    """Does validate (MRO chain) look into CodeBlocks for control-transfer
    statements?"""
    for kls in idx.mro(cls):
        func = kls.methods.get("validate")
        if func is None:
            continue
        txt = ast.unparse(func)
        if "CodeBlock" in txt and any(st in txt for st in CONTROL_STMTS):
            return True
    return False


def check_no_escape(idx, run):
    base = idx.get_class(PDT)
    subs = idx.all_subclasses(base)
    run.floor("PSyData transformation classes", len(subs), 6)
    for cls in subs:
        owner, names = resolved_exclusions(idx, cls)
        where = loc(owner.module, owner.attrs["excluded_node_types"]) \
            if owner else loc(cls.module, cls.node)
        cons = f"{cls.name}.excluded_node_types"
        run.check(
            "C28.R1", "Return" in names, cons, "Return excluded",
            f"the exclusion tuple that {cls.name} uses (defined in "
            f"{owner.name if owner else '?'}: {sorted(names)}) does not "
            f"contain Return: a region holding a RETURN is accepted and "
            f"its end hook is skipped when the RETURN executes", where,
            sample={"rule": "C28.R1", "class": cls.name,
                    "tuple_from": owner.name if owner else None,
                    "excluded": sorted(names)})
        ok = "CodeBlock" in names or inspects_codeblocks(idx, cls)
        run.check(
            "C28.R1", ok, cons, "control transfer inside code blocks",
            f"{cls.name} accepts CodeBlock nodes without inspecting them: "
            f"EXIT, CYCLE and GO TO are kept verbatim in code blocks, so "
            f"e.g. an IF block holding EXIT inside a loop body can be "
            f"wrapped and the end hook is skipped when the branch is taken",
            where)
        # validate chain reaches RegionTrans.validate
        chain_ok = True
        missing = None
        for kls in idx.mro(cls):
            if kls.name == "RegionTrans":
                break
            func = kls.methods.get("validate")
            if func is None:
                continue
            calls = [ast.unparse(c.func) for c in ast.walk(func)
                     if isinstance(c, ast.Call)]
            if not any(c.endswith("super().validate") or
                       (c.startswith("super(") and c.endswith(").validate"))
                       for c in calls):
                chain_ok = False
                missing = kls.name
        run.check("C28.R1", chain_ok, f"{cls.name}.validate",
                  "chains to RegionTrans.validate",
                  f"{missing}.validate does not call super().validate: the "
                  f"node-type exclusion is never applied", loc(cls.module,
                                                              cls.node))
    # RegionTrans.validate applies the exclusion to all descendants
    rcls = idx.get_class("RegionTrans")
    func = rcls.methods.get("validate")
    if func is None:
        raise AnalysisError("RegionTrans.validate not found")
    txt = ast.unparse(func)
    ok = "isinstance(item, self.excluded_node_types)" in txt and \
        "child.walk(" in txt and "raise TransformationError" in txt
    run.check("C28.R1", ok, "RegionTrans.validate",
              "exclusion applied to every descendant",
              "RegionTrans.validate no longer walks all descendants of the "
              "region testing isinstance(item, self.excluded_node_types)",
              loc(rcls.module, func))
    guard = [s for s in ast.walk(func) if isinstance(s, ast.If) and
             "node-type-check" in ast.unparse(s.test)]
    okg = len(guard) == 1 and ast.unparse(guard[0].test) == \
        "options.get('node-type-check', True)"
    run.check("C28.R1", okg, "RegionTrans.validate",
              "type check on by default",
              "the node-type check is no longer on by default",
              loc(rcls.module, func))
    # consecutive siblings
    okc = "child.parent is not node_parent" in txt and \
        "prev_position + 1 != child.position" in txt
    run.check("C28.R1", okc, "RegionTrans.validate",
              "region = consecutive siblings",
              "the region is no longer required to be a run of consecutive "
              "children of one parent", loc(rcls.module, func))
    # nobody switches the check off internally for PSyData transformations
    offenders = []
    for fmod, fcls, fn in idx.functions_iter():
        for sub in ast.walk(fn):
            if isinstance(sub, ast.Dict):
                for key, val in zip(sub.keys, sub.values):
                    if isinstance(key, ast.Constant) and \
                            key.value == "node-type-check" and \
                            isinstance(val, ast.Constant) and \
                            val.value is False:
                        offenders.append((fmod, fcls, fn, sub))
            if isinstance(sub, ast.Assign) and isinstance(
                    sub.targets[0], ast.Subscript) and \
                    ast.unparse(sub.targets[0].slice) == \
                    "'node-type-check'" and isinstance(
                        sub.value, ast.Constant) and sub.value.value is False:
                offenders.append((fmod, fcls, fn, sub))
    for fmod, fcls, fn, sub in offenders:
        psy = fcls is not None and (idx.is_subclass(fcls, "PSyDataTrans")
                                    or "profil" in fmod.relpath.lower())
        run.check("C28.R1", not psy,
                  f"{fcls.name + '.' if fcls else ''}{fn.name}",
                  "node-type-check switched off",
                  "a PSyData transformation is applied with "
                  "'node-type-check': False", loc(fmod, sub))
    run.extra["node_type_check_disabled_at"] = [
        f"{m.relpath}:{s.lineno}" for m, _c, _f, s in offenders]


def check_lowering(idx, run):
    cls = idx.get_class("psyclone.psyir.nodes.psy_data_node.PSyDataNode")
    func = cls.methods.get("lower_to_language_level")
    if func is None:
        raise AnalysisError("PSyDataNode.lower_to_language_level not found")
    mod = cls.module
    cons = "PSyDataNode.lower_to_language_level"
    cfg = CFG(func)

    def nodes_with(text):
        return [n for n in cfg.stmt_nodes() if n.kind == "stmt" and
                isinstance(n.ast, ast.Assign) and
                f"'{text}'" in ast.unparse(n.ast.value) and
                "gen_type_bound_call" in ast.unparse(n.ast.value)]

    def insert_of(var):
        return [n for n in cfg.stmt_nodes() if n.kind == "stmt" and any(
            ast.unparse(c.func) == "self.parent.children.insert" and
            len(c.args) == 2 and ast.unparse(c.args[1]) == var
            for c in calls_at(n))]

    start = nodes_with("PreStart")
    end = nodes_with("PostEnd")
    if len(start) != 1 or len(end) != 1:
        raise AnalysisError("PreStart / PostEnd call construction not found "
                            "in the lowering")
    svar = ast.unparse(start[0].ast.targets[0])
    evar = ast.unparse(end[0].ast.targets[0])
    sins = insert_of(svar)
    eins = insert_of(evar)
    move = [n for n in cfg.nodes if n.kind == "for" and
            "psy_data_body.pop_all_children()" in ast.unparse(n.ast.iter)]
    if len(move) != 1:
        raise AnalysisError("the loop that moves the region body out of the "
                            "PSyDataNode was not found")
    dom = cfg.dominators()
    exit_dom = dom.get(cfg.exit.id, set())
    ok = len(sins) == 1 and sins[0].id in exit_dom and \
        sins[0].id in dom.get(move[0].id, set())
    run.check("C28.R2", ok, cons, "PreStart inserted unconditionally "
              "before the body",
              "the start hook is not inserted on every path before the "
              "region body is moved out", loc(mod, start[0].ast))
    ok = len(eins) == 1 and eins[0].id in exit_dom and \
        move[0].id in dom.get(eins[0].id, set())
    run.check("C28.R2", ok, cons, "PostEnd inserted unconditionally after "
              "the body",
              "the end hook is not inserted on every path after the region "
              "body", loc(mod, end[0].ast))
    # both into the same list, start before self / end after self
    if sins and eins:
        sc = [c for c in calls_at(sins[0])
              if ast.unparse(c.func) == "self.parent.children.insert"][0]
        ec = [c for c in calls_at(eins[0])
              if ast.unparse(c.func) == "self.parent.children.insert"][0]
        run.check("C28.R2", ast.unparse(sc.args[0]) == "self.position" and
                  ast.unparse(ec.args[0]) == "self.position + 1", cons,
                  "start before, end after, same parent",
                  f"start is inserted at {ast.unparse(sc.args[0])} and end "
                  f"at {ast.unparse(ec.args[0])} of the parent's children",
                  loc(mod, sc))
    # body children inserted before self (i.e. between start and end)
    mv_ok = any(ast.unparse(c.func) == "self.parent.children.insert" and
                ast.unparse(c.args[0]) == "self.position"
                for s in move[0].ast.body for c in ast.walk(s)
                if isinstance(c, ast.Call))
    run.check("C28.R2", mv_ok, cons, "body placed between the hooks",
              "the region body is not re-inserted at self.position",
              loc(mod, move[0].ast))
    # PreEnd and PostStart under the same flag
    pre_end = nodes_with("PreEnd")
    post_start = nodes_with("PostStart")

    def flag_of(node):
        conds = [ast.unparse(s.test) for s in ast.walk(func)
                 if isinstance(s, ast.If) and any(
                     x is node.ast for b in s.body for x in ast.walk(b))]
        return conds
    if pre_end and post_start:
        run.check("C28.R2", flag_of(pre_end[0]) == flag_of(post_start[0])
                  and flag_of(pre_end[0]) != [], cons,
                  "PreEnd and PostStart under the same condition",
                  f"PreEnd is emitted under {flag_of(pre_end[0])} but "
                  f"PostStart under {flag_of(post_start[0])}",
                  loc(mod, pre_end[0].ast))
    # legacy gen_code path: PreStart ... PostEnd in order
    gen = cls.methods.get("gen_code")
    if gen is not None:
        txt = ast.unparse(gen)
        i_start = txt.find("'PreStart'")
        i_end = txt.find("'PostEnd'")
        i_body = txt.find("child.gen_code(parent)")
        run.check("C28.R2", 0 <= i_start < i_body < i_end,
                  "PSyDataNode.gen_code", "start, body, end order",
                  "the legacy code generation no longer emits PreStart, "
                  "the body and PostEnd in that order", loc(mod, gen))


def check_names(idx, run):
    cls = idx.get_class(PDT)
    func = cls.methods.get("get_unique_region_name")
    if func is None:
        raise AnalysisError("PSyDataTrans.get_unique_region_name not found")
    mod = cls.module
    txt = ast.unparse(func)
    # counter read, incremented and used in the name
    reads = [s for s in ast.walk(func) if isinstance(s, ast.Assign) and
             "_used_kernel_names.get(" in ast.unparse(s.value)]
    ok = False
    if reads:
        var = ast.unparse(reads[0].targets[0])
        inc = any(isinstance(s, ast.Assign) and
                  "_used_kernel_names[" in ast.unparse(s.targets[0]) and
                  ast.unparse(s.value) == f"{var} + 1"
                  for s in ast.walk(func))
        used = any(isinstance(s, ast.AugAssign) and var in
                   ast.unparse(s.value) and
                   ast.unparse(s.target) == "region_name"
                   for s in ast.walk(func))
        ok = inc and used
    run.check("C28.R3", ok, "PSyDataTrans.get_unique_region_name",
              "counter incremented and part of the name",
              "automatically generated region names no longer include a "
              "per-(module, region) counter that is incremented for every "
              "region", loc(mod, func))
    # the counter must be shared by all transformation instances
    shared = "_used_kernel_names" in cls.attrs and not any(
        isinstance(st, ast.Assign) and any(
            isinstance(t, ast.Attribute) and
            ast.unparse(t) == "self._used_kernel_names"
            for t in st.targets)
        for kls in idx.all_subclasses(cls) for fn in kls.methods.values()
        for st in ast.walk(fn))
    per_class = all("self._used_kernel_names" not in ast.unparse(st)
                    for st in ast.walk(func))
    run.check("C28.R3", shared and per_class,
              "PSyDataTrans.get_unique_region_name",
              "one counter shared by all transformation instances",
              "the region-name counter is kept per transformation instance "
              "(or re-created in a constructor): two instances applied "
              "without a user-supplied name give the same 'rN' suffix to "
              "different regions of the same kernel", loc(mod, func))
    # user name only when the option is given
    run.check("C28.R3", "options.get('region_name', None)" in txt,
              "PSyDataTrans.get_unique_region_name",
              "aggregation only on request",
              "a fixed region name is used without the user asking for it",
              loc(mod, func))
    # lowering: anonymous regions are numbered by position
    ncls = idx.get_class("psyclone.psyir.nodes.psy_data_node.PSyDataNode")
    low = ncls.methods.get("lower_to_language_level")
    ltxt = ast.unparse(low)
    run.check("C28.R3", "region_idx += 1" in ltxt and
              "f'r{region_idx}'" in ltxt,
              "PSyDataNode.lower_to_language_level",
              "anonymous regions numbered by position",
              "regions without a name are no longer numbered by their "
              "position in the routine", loc(ncls.module, low))



GUARDED = [
    ('PSyDataTrans', 'validate'),
    ('RegionTrans', 'validate'),
    ('ExtractTrans', 'validate'),
]

def check_option_leaks(idx, run):
    """A region transformation never writes the name it chose into the
    dictionary its caller passed as options: get_unique_region_name takes a
    'region_name' entry as the user's request, so a script that reuses one
    dictionary would give every later region the first region's name."""
    import ast
    from rules.common_parallel import option_leaks
    leaks, returning = option_leaks(
        idx, "psyclone.psyir.transformations.psy_data_trans.PSyDataTrans")
    run.floor("PSyDataTrans methods taking options", len(leaks), 10)
    run.extra["methods_returning_the_callers_options"] = sorted(returning)
    for cls, func, stores in leaks:
        run.check("C28.R5", not stores, f"{cls.name}.{func.name}",
                  "the caller's options dictionary is not written",
                  f"{cls.name}.{func.name} writes into the dictionary the "
                  f"caller passed as options ("
                  f"{ast.unparse(stores[0])[:60] if stores else ''}): an "
                  f"automatically chosen region_name left there is taken as "
                  f"the user's request for the next region, so two regions "
                  f"share one name", loc(cls.module, stores[0] if stores
                                         else func))


def check(idx, run):
    run.explanation = __doc__
    check_option_leaks(idx, run)
    from sa.guards import check_guards
    check_guards(idx, run, "C28.R4", GUARDED)
    check_no_escape(idx, run)
    check_lowering(idx, run)
    check_names(idx, run)
    run.assumptions = ["run-time call order is not observed",
                       "STOP / error termination inside called routines is "
                       "out of scope"]
