"""C11 - variable access information covers every actual read and write.

R1 child-coverage   each reference_accesses override visits every child of
                    its node class (child accessors resolved through the
                    class's own @property definitions).
R2 rhs-before-lhs   Assignment: RHS accesses recorded before the LHS write,
                    the LHS collected separately and turned into a WRITE,
                    statement counter advanced; Loop: loop variable WRITE
                    before READ before the bounds, counter advanced after
                    the header and after each body statement.
R3 call-args-written arguments that a callee may modify are reported as
                    written: Call may use READ-only only where the callee
                    provably cannot modify arguments; intrinsic subroutines /
                    statements that write their arguments report a write.
"""
import ast
from sa.index import AnalysisError, loc, norm, const_value

LEVEL = "other"
MANIFEST = {
    "level": "other",
    "text": "Per-class coverage and ordering rules over all "
            "reference_accesses implementations: the set of children each "
            "collector visits (resolved through the class's child "
            "properties) is compared with the class's child positions, the "
            "event order of Assignment and Loop collectors is checked, and "
            "the access kinds a Call / IntrinsicCall can emit are compared "
            "with what Fortran allows the callee to do (table of intrinsic "
            "subroutines with non-intent(in) arguments, cross-checked with "
            "the repository's own intrinsic table). This is exhaustive over "
            "node classes and intrinsics rather than over sample programs.",
    "note": "Component-level precision for structures, aliasing and "
            "anything depending on program inputs are not decided; PSy-layer "
            "kernels (metadata-driven accesses) are out of scope.",
    "technique": "child-coverage set comparison + statement-order rule + "
                 "emitted-access-kind summary vs a language table",
}

# Fortran intrinsic subroutines / statements with arguments that are not
# intent(in) (F2008 13.7, 6.7): name -> positions written ('all' or indices)
WRITING_INTRINSICS = {
    "ALLOCATE": "all", "DEALLOCATE": "all", "NULLIFY": "all",
    "MOVE_ALLOC": "all", "MVBITS": [3], "RANDOM_NUMBER": [0],
    "RANDOM_SEED": "all", "CPU_TIME": [0], "DATE_AND_TIME": "all",
    "SYSTEM_CLOCK": "all", "GET_COMMAND": "all",
    "GET_COMMAND_ARGUMENT": [1, 2, 3], "GET_ENVIRONMENT_VARIABLE": [1, 2, 3],
    "EXECUTE_COMMAND_LINE": [2, 3, 4], "EVENT_QUERY": [1, 2],
}
NODES = "src/psyclone/psyir/nodes/"


def child_property_positions(idx, cls):
    """accessor name -> set of child positions ('rest:k' for children[k:])"""
    out = {}
    for kls in idx.mro(cls):
        for name, func in kls.properties.items():
            if name in out:
                continue
            rets = [s for s in ast.walk(func) if isinstance(s, ast.Return)
                    and s.value is not None]
            for ret in rets:
                val = ret.value
                if isinstance(val, ast.Subscript) and ast.unparse(
                        val.value) in ("self._children", "self.children"):
                    if isinstance(val.slice, ast.Constant):
                        out[name] = {val.slice.value}
                    elif isinstance(val.slice, ast.Slice) and \
                            val.slice.upper is None and \
                            isinstance(val.slice.lower, ast.Constant):
                        out[name] = {f"rest:{val.slice.lower.value}"}
    return out


def visited_children(idx, cls, func):
    """Which children does this collector pass to reference_accesses?
    -> set of positions / 'all' / 'rest:k'"""
    props = child_property_positions(idx, cls)
    visited = set()
    for sub in ast.walk(func):
        # for child in self.children / self._children / self.<prop>[.children]
        if isinstance(sub, ast.For):
            it = ast.unparse(sub.iter)
            if it in ("self.children", "self._children"):
                visited.add("all")
            for name, pos in props.items():
                if it in (f"self.{name}", f"self.{name}.children"):
                    visited |= pos
                if it.startswith(f"self.{name}[") and ":" in it:
                    low = it[len(f"self.{name}["):].split(":")[0]
                    base = list(pos)[0]
                    if isinstance(base, str) and low.isdigit():
                        visited.add(f"rest:{int(base.split(':')[1]) + int(low)}")
        if isinstance(sub, ast.Call) and isinstance(sub.func, ast.Attribute) \
                and sub.func.attr == "reference_accesses":
            recv = ast.unparse(sub.func.value)
            for name, pos in props.items():
                if recv == f"self.{name}":
                    visited |= pos
            if recv.startswith("super()"):
                visited.add("super")
        if isinstance(sub, ast.Call) and isinstance(sub.func, ast.Attribute) \
                and sub.func.attr == "get_signature_and_indices" and \
                ast.unparse(sub.func.value) in ("self",):
            visited.add("indices")
    return visited, props


# expected coverage per class (positions that must be visited)
EXPECTED = {
    "Assignment": {0, 1},
    "Loop": {0, 1, 2, 3},
    "IfBlock": {0, 1, 2},
    "WhileLoop": {0, 1},
    "Call": {"rest:1"},
    "IntrinsicCall": {"rest:1"},
    "Reference": {"indices"},
    "Node": {"all"},
}
COVERAGE_REASONS = {
    "Call": "child 0 is the Reference to the routine symbol, not a "
            "variable access",
    "IntrinsicCall": "child 0 is the routine reference; for inquiry "
                     "intrinsics the first argument is skipped unless "
                     "COLLECT-ARRAY-SHAPE-READS (reviewed)",
}


def check_coverage(idx, run):
    node = idx.get_class("psyclone.psyir.nodes.node.Node")
    count = 0
    for cls in idx.all_subclasses(node):
        if "reference_accesses" not in cls.methods:
            continue
        if not cls.module.relpath.startswith(NODES):
            continue   # PSy-layer kernels: metadata-driven
        func = cls.methods["reference_accesses"]
        count += 1
        visited, props = visited_children(idx, cls, func)
        want = EXPECTED.get(cls.name)
        if want is None:
            run.check("C11.R1", False, f"{cls.name}.reference_accesses",
                      "new collector not reviewed",
                      f"{cls.name} overrides reference_accesses but is not "
                      f"in the reviewed coverage table", loc(cls.module,
                                                             func))
            continue
        got = set(visited) - {"super"}
        if "rest:2" in got and "rest:1" in got:
            got.discard("rest:2")
        ok = want <= got or "all" in got
        run.check(
            "C11.R1", ok, f"{cls.name}.reference_accesses",
            f"visits children {sorted(map(str, want))}",
            f"{cls.name}.reference_accesses visits "
            f"{sorted(map(str, got))} but the node has children "
            f"{sorted(map(str, want))}: accesses in the skipped child are "
            f"never reported", loc(cls.module, func),
            sample={"rule": "C11.R1", "class": cls.name,
                    "visited": sorted(map(str, got)),
                    "expected": sorted(map(str, want)),
                    "note": COVERAGE_REASONS.get(cls.name)})
    run.floor("reference_accesses overrides in psyir/nodes", count, 7)
    # IfBlock: else body only skipped when absent
    icls = idx.get_class("psyclone.psyir.nodes.if_block.IfBlock")
    func = icls.methods["reference_accesses"]
    conds = [ast.unparse(s.test) for s in ast.walk(func)
             if isinstance(s, ast.If)]
    run.check("C11.R1", conds == ["self.else_body"],
              "IfBlock.reference_accesses", "only an absent else is skipped",
              f"children are visited under conditions {conds}",
              loc(icls.module, func))
    # IntrinsicCall: the only skip is the documented inquiry case
    ccls = idx.get_class("psyclone.psyir.nodes.intrinsic_call.IntrinsicCall")
    func = ccls.methods["reference_accesses"]
    conds = [ast.unparse(s.test) for s in ast.walk(func)
             if isinstance(s, ast.If)]
    okc = len(conds) == 1 and "is_inquiry" in conds[0] and \
        "COLLECT-ARRAY-SHAPE-READS" in conds[0]
    run.check("C11.R1", okc, "IntrinsicCall.reference_accesses",
              "only the inquiry-intrinsic array argument is skipped",
              f"arguments are skipped under {conds}", loc(ccls.module, func))


def call_order(func):
    """source-ordered list of (text of call.func, call) in a function"""
    calls = [c for c in ast.walk(func) if isinstance(c, ast.Call)]
    calls.sort(key=lambda c: (c.lineno, c.col_offset))
    return [(ast.unparse(c.func), c) for c in calls]


def check_order(idx, run):
    acls = idx.get_class("psyclone.psyir.nodes.assignment.Assignment")
    func = acls.methods["reference_accesses"]
    mod = acls.module
    cons = "Assignment.reference_accesses"
    names = [n for n, _ in call_order(func)]
    param = func.args.args[1].arg

    def pos(name, arg=None):
        for k, (n, c) in enumerate(call_order(func)):
            if n == name and (arg is None or (
                    c.args and ast.unparse(c.args[0]) == arg)):
                return k
        return -1
    fresh = [s for s in ast.walk(func) if isinstance(s, ast.Assign) and
             isinstance(s.value, ast.Call) and
             ast.unparse(s.value.func) == "VariablesAccessInfo"]
    left = ast.unparse(fresh[0].targets[0]) if fresh else None
    run.check("C11.R2", left is not None, cons,
              "LHS collected in a fresh VariablesAccessInfo",
              "the LHS is no longer collected separately (needed to turn "
              "exactly its access into a WRITE)", loc(mod, func))
    p_lhs = pos("self.lhs.reference_accesses", left)
    p_chg = pos("var_info.change_read_to_write")
    p_rhs = pos("self.rhs.reference_accesses", param)
    p_merge = pos(f"{param}.merge", left)
    p_next = pos(f"{param}.next_location")
    run.check("C11.R2", 0 <= p_lhs < p_chg, cons,
              "LHS access changed to WRITE",
              "the access of the assigned variable is not turned into a "
              "WRITE", loc(mod, func))
    run.check("C11.R2", 0 <= p_rhs < p_merge, cons,
              "RHS reads recorded before the LHS write",
              "the LHS accesses are merged before the RHS has been "
              "collected: in `a = a + 1` the write would be ordered before "
              "the read", loc(mod, func))
    run.check("C11.R2", 0 <= p_chg < p_merge, cons,
              "WRITE conversion before merging",
              "the LHS is merged before its access was changed to WRITE",
              loc(mod, func))
    run.check("C11.R2", p_next > p_merge >= 0, cons,
              "statement counter advanced after the assignment",
              "next_location() is not called after the assignment's "
              "accesses", loc(mod, func))
    # sig used for the change is the LHS signature
    run.check("C11.R2", "self.lhs.get_signature_and_indices()" in
              ast.unparse(func) and f"{left}[sig]" in ast.unparse(func),
              cons, "the WRITE is applied to the LHS signature",
              "change_read_to_write is not applied to the signature of the "
              "left-hand side", loc(mod, func))
    # Loop
    lcls = idx.get_class("psyclone.psyir.nodes.loop.Loop")
    func = lcls.methods["reference_accesses"]
    mod = lcls.module
    cons = "Loop.reference_accesses"
    order = call_order(func)
    param = func.args.args[1].arg
    adds = [(k, c) for k, (n, c) in enumerate(order)
            if n == f"{param}.add_access"]
    kinds = [ast.unparse(c.args[1]).split(".")[-1] for _k, c in adds]
    run.check("C11.R2", kinds[:2] == ["WRITE", "READ"], cons,
              "loop variable WRITE then READ",
              f"the loop variable accesses are recorded as {kinds}",
              loc(mod, func))
    first_bound = min([k for k, (n, _c) in enumerate(order)
                       if n in ("self.start_expr.reference_accesses",
                                "self.stop_expr.reference_accesses",
                                "self.step_expr.reference_accesses")] or
                      [-1])
    run.check("C11.R2", adds and first_bound > adds[1][0], cons,
              "loop variable before the bounds",
              "the loop bounds are collected before the loop variable "
              "accesses", loc(mod, func))
    nexts = [k for k, (n, _c) in enumerate(order)
             if n == f"{param}.next_location"]
    body_loop = [s for s in ast.walk(func) if isinstance(s, ast.For)]
    in_body = body_loop and any(
        isinstance(c, ast.Call) and
        ast.unparse(c.func) == f"{param}.next_location"
        for c in ast.walk(body_loop[0]))
    run.check("C11.R2", len(nexts) >= 2 and in_body, cons,
              "counter advanced after the header and each body statement",
              "next_location() is not called after the loop header and "
              "after every statement of the body", loc(mod, func))


def intrinsic_table(idx):
    """name -> is_pure from IntrinsicCall.Intrinsic"""
    ccls = idx.classes.get(
        "psyclone.psyir.nodes.intrinsic_call.IntrinsicCall.Intrinsic")
    if ccls is None:
        raise AnalysisError("IntrinsicCall.Intrinsic not found")
    out = {}
    for name, val in ccls.attrs.items():
        if isinstance(val, ast.Call) and ast.unparse(val.func) == "IAttr":
            pure = val.args[1].value if isinstance(val.args[1],
                                                   ast.Constant) else None
            out[name] = pure
    return out


def check_options_forwarded(idx, run):
    """Every temporary VariablesAccessInfo created inside a
    reference_accesses method and merged into the result is created with
    the caller's options unchanged (the options decide, e.g., whether
    array-shape inquiries count as reads)."""
    base = idx.get_class("psyclone.psyir.nodes.node.Node")
    n = 0
    for cls in idx.all_subclasses(base, include_self=True):
        func = cls.methods.get("reference_accesses")
        if func is None:
            continue
        param = func.args.args[1].arg if len(func.args.args) > 1 else None
        for stmt in ast.walk(func):
            if not (isinstance(stmt, ast.Assign) and
                    isinstance(stmt.value, ast.Call) and
                    ast.unparse(stmt.value.func) == "VariablesAccessInfo"):
                continue
            name = ast.unparse(stmt.targets[0])
            merged = any(isinstance(c, ast.Call) and
                         ast.unparse(c.func) == f"{param}.merge" and c.args
                         and ast.unparse(c.args[0]) == name
                         for c in ast.walk(func))
            collects = any(isinstance(c, ast.Call) and isinstance(
                c.func, ast.Attribute) and
                c.func.attr == "reference_accesses" and c.args and
                ast.unparse(c.args[0]) == name for c in ast.walk(func))
            if not (merged and collects):
                continue    # filled by add_access only: options play no role
            n += 1
            opts = [k for k in stmt.value.keywords if k.arg == "options"]
            ok = bool(opts) and ast.unparse(opts[0].value) == \
                f"{param}.options()"
            run.check("C11.R2", ok, f"{cls.name}.reference_accesses",
                      f"temporary '{name}' collects with the caller's "
                      f"options",
                      f"the temporary access info '{name}' that is merged "
                      f"into the result is created with "
                      f"'{ast.unparse(stmt.value)}' instead of the caller's "
                      f"options: accesses that an option asks for (e.g. "
                      f"COLLECT-ARRAY-SHAPE-READS: the array in "
                      f"b(size(a)) = 1.0) are dropped for that part of the "
                      f"statement", loc(cls.module, stmt))
    run.floor("temporaries merged into the result", n, 1)


def check_call_writes(idx, run):
    ccls = idx.get_class("psyclone.psyir.nodes.call.Call")
    func = ccls.methods["reference_accesses"]
    mod = ccls.module
    cons = "Call.reference_accesses"
    # which access kinds can be emitted for a Reference argument, and under
    # which condition
    assigns = [s for s in ast.walk(func) if isinstance(s, ast.Assign) and
               "AccessType." in ast.unparse(s.value)]
    kinds = {}
    for stmt in ast.walk(func):
        if isinstance(stmt, ast.If):
            for branch, pol in ((stmt.body, True), (stmt.orelse, False)):
                for sub in branch:
                    if isinstance(sub, ast.Assign) and "AccessType." in \
                            ast.unparse(sub.value):
                        kinds[ast.unparse(sub.value).split(".")[-1]] = \
                            (ast.unparse(stmt.test), pol)
    run.extra["call_argument_access_kinds"] = {
        k: f"{c} is {p}" for k, (c, p) in kinds.items()}
    run.check("C11.R3", "READWRITE" in kinds or "WRITE" in kinds, cons,
              "arguments of an unknown routine are reported as written",
              "a Reference passed to a call is never reported as written",
              loc(mod, func))
    if "READ" in kinds:
        cond, pol = kinds["READ"]
        stmt_test = [st.test for st in ast.walk(func)
                     if isinstance(st, ast.If) and
                     ast.unparse(st.test) == cond][0]
        # READ-only needs knowledge that the callee cannot modify arguments:
        # purity alone is not enough for subroutines
        sound = any(tok in cond for tok in ("intent", "is_function",
                                            "is_elemental_function",
                                            "argument_intents"))
        atoms = sorted(" ".join(ast.unparse(v).split()) for v in (
            stmt_test.values if isinstance(stmt_test, ast.BoolOp) and
            isinstance(stmt_test.op, ast.Or) else [stmt_test]))
        run.check(
            "C11.R3", sound, cons,
            "READ-only arguments only for callees that cannot write them "
            f"(chosen when: {' or '.join(atoms)})",
            f"every Reference argument is reported as READ when "
            f"`{cond}` is {pol}: a PURE *subroutine* may still have "
            f"intent(out) / intent(inout) dummy arguments, so "
            f"'call setit(x)' with pure setit(x) intent(out) reports x as "
            f"read only", loc(mod, func))
    # every Reference argument gets an access and its indices are visited
    txt = ast.unparse(func)
    run.check("C11.R3", "for arg in self.arguments" in txt and
              "add_access(sig, default_access, arg)" in txt and
              "idx.reference_accesses(" in txt, cons,
              "all arguments and their index expressions are visited",
              "not every argument (and index expression) of a call is "
              "collected", loc(mod, func))
    # IntrinsicCall
    icls = idx.get_class("psyclone.psyir.nodes.intrinsic_call.IntrinsicCall")
    ifunc = icls.methods["reference_accesses"]
    itxt = ast.unparse(ifunc)
    table = intrinsic_table(idx)
    present = sorted(n for n in WRITING_INTRINSICS if n in table)
    run.extra["writing_intrinsics_in_table"] = present
    emits_write = any(tok in itxt for tok in (
        "AccessType.WRITE", "AccessType.READWRITE", "change_read_to_write",
        "super().reference_accesses"))
    run.check(
        "C11.R3", emits_write or not present,
        "IntrinsicCall.reference_accesses",
        "intrinsic subroutines that write their arguments report a write",
        f"IntrinsicCall.reference_accesses only recurses into its "
        f"arguments (each Reference reports READ); the intrinsic table "
        f"contains {present}, whose arguments are defined by the call: "
        f"e.g. 'allocate(a(n))' and 'call random_number(x)' report a and x "
        f"as read only", loc(icls.module, ifunc))
    # cross-check of the frozen list with the repo's own purity column
    impure = sorted(n for n, pure in table.items() if pure is False)
    odd = [n for n in present if table.get(n) is True and n != "MVBITS"]
    run.check("C11.R3", not odd, "IntrinsicCall.Intrinsic",
              "writing intrinsics are not marked pure",
              f"{odd} write their arguments but are marked is_pure=True in "
              f"the intrinsic table", loc(icls.module, ifunc))
    run.extra["impure_intrinsics"] = impure


def check_access_store(idx, run):
    """VariablesAccessInfo.add_access / merge keep every access."""
    vcls = idx.get_class(
        "psyclone.core.variables_access_info.VariablesAccessInfo")
    mod = vcls.module
    add = vcls.methods.get("add_access")
    merge = vcls.methods.get("merge")
    if not (add and merge):
        raise AnalysisError("VariablesAccessInfo.add_access/merge not found")
    atxt = ast.unparse(add)
    run.check("C11.R2", ".add_access_with_location(" in atxt and
              "self._location" in atxt, "VariablesAccessInfo.add_access",
              "every access stored with the current location",
              "add_access no longer records the access together with the "
              "current statement location", loc(mod, add))
    mtxt = ast.unparse(merge)
    run.check("C11.R2", "all_signatures" in mtxt and
              "add_access_with_location" in mtxt or "add_access(" in mtxt,
              "VariablesAccessInfo.merge", "merge keeps every access",
              "merge no longer transfers every access of the other object",
              loc(mod, merge))



PREDICATES = [
    ("psyclone.psyir.nodes.call.Call", "is_pure", True),
]


def check_collection_is_pure(idx, run):
    """Access information has to describe the tree as it is *now*: the
    collectors (and the signature helpers they use) must not keep anything
    on the node between calls - a stored Signature goes stale when the
    symbol is renamed in place (SymbolTable.rename_symbol)."""
    base = idx.get_class("psyclone.psyir.nodes.node.Node")
    n = 0
    for cls in idx.all_subclasses(base, include_self=True):
        for meth in ("reference_accesses", "get_signature_and_indices"):
            func = cls.methods.get(meth)
            if func is None:
                continue
            n += 1
            stores = [t for st in ast.walk(func)
                      if isinstance(st, (ast.Assign, ast.AugAssign))
                      for t in (st.targets if isinstance(st, ast.Assign)
                                else [st.target])
                      if isinstance(t, ast.Attribute) and
                      isinstance(t.value, ast.Name) and t.value.id == "self"]
            run.check("C11.R2", not stores, f"{cls.name}.{meth}",
                      "nothing is cached on the node",
                      f"{cls.name}.{meth} stores "
                      f"'{ast.unparse(stores[0]) if stores else ''}' on the "
                      f"node: what it returns next time can describe a "
                      f"symbol name that no longer exists (collect, rename "
                      f"the symbol in place, collect again)",
                      loc(cls.module, stores[0] if stores else func))
    run.floor("access collectors", n, 12)

def check(idx, run):
    run.explanation = __doc__
    from sa.guards import check_predicates
    check_predicates(idx, run, "C11.R3", PREDICATES)
    check_collection_is_pure(idx, run)
    check_coverage(idx, run)
    check_order(idx, run)
    check_options_forwarded(idx, run)
    check_call_writes(idx, run)
    check_access_store(idx, run)
    run.assumptions = ["component-level precision and aliasing are not "
                       "decided", "PSy-layer kernels use metadata accesses"]
