"""C17 - symbolic comparisons agree with Fortran integer arithmetic.

R1 translation   what SymPyWriter emits per integer operator / intrinsic is
                 compared with a table of Fortran-2008 integer semantics vs
                 SymPy semantics: `/` (truncating vs rational), MOD (sign of
                 the dividend vs sign of the divisor), MIN/MAX, `**`.
                 Unknown intrinsics must become opaque functions.
R2 verdict guards never_equal may answer True only for a non-zero Integer
                 difference; equal only for Zero; solve_equal_for returns a
                 set only for FiniteSet / EmptySet.
"""
import ast
from sa.index import AnalysisError, loc, norm

LEVEL = "other"
MANIFEST = {
    "level": "other",
    "text": "The PSyIR->SymPy translation table (operators inherited from "
            "the Fortran writer, the intrinsic rename list, symbol "
            "creation) is extracted from the source and compared with a "
            "table stating, per construct, whether SymPy's meaning agrees "
            "with Fortran integer arithmetic on all integers; the verdict "
            "functions are checked by path rules to answer True only "
            "under a definite SymPy result. This decides the translation "
            "for every expression built from these constructs, not for "
            "sampled expressions.",
    "note": "SymPy's own simplification, solving and expansion are "
            "trusted. Only the listed integer constructs are judged.",
    "technique": "table extraction and comparison with a language-"
                 "semantics table + guarded-return path rule",
}
SW = "src/psyclone/psyir/backend/sympy_writer.py"
SM = "src/psyclone/core/symbolic_maths.py"

# SymPy name -> does it agree with the Fortran integer intrinsic it is used
# for, on all integers?  (F2008 13.7; SymPy reference)
INTRINSIC_ORACLE = {
    ("MAX", "Max"): (True, ""),
    ("MIN", "Min"): (True, ""),
    ("FLOOR", "floor"): (True, ""),
    ("MOD", "Mod"): (False, "Fortran MOD(a,p) = a - INT(a/p)*p has the "
                            "sign of a; SymPy Mod has the sign of p "
                            "(MOD(-7,3) = -1, Mod(-7,3) = 2)"),
    ("MOD", "floor"): (False, "not the remainder"),
}
REAL_ONLY = {"EXP", "SQRT", "TRANSPOSE", "SIGN", "ABS", "SIN", "COS", "TAN",
             "LOG", "REAL", "TANH", "ATAN", "ACOS", "ASIN"}


def check_translation(idx, run):
    mod = idx.module(SW)
    cls = idx.get_class("psyclone.psyir.backend.sympy_writer.SymPyWriter")
    init = cls.methods.get("__init__")
    if init is None:
        raise AnalysisError("SymPyWriter.__init__ not found")
    pairs = []
    for sub in ast.walk(init):
        if isinstance(sub, ast.For) and isinstance(sub.iter, ast.List):
            for elt in sub.iter.elts:
                if isinstance(elt, ast.Tuple) and len(elt.elts) == 2 and \
                        isinstance(elt.elts[1], ast.Constant):
                    pairs.append((ast.unparse(elt.elts[0]).split(".")[-1],
                                  elt.elts[1].value, elt))
    run.floor("intrinsic renames", len(pairs), 4)
    for fname, sname, node in pairs:
        if fname in REAL_ONLY and (fname, sname) not in INTRINSIC_ORACLE:
            run.ob("C17.R1", True, {"rule": "C17.R1", "intrinsic": fname,
                                    "sympy": sname,
                                    "note": "real-valued, outside the "
                                            "integer claim"})
            continue
        ent = INTRINSIC_ORACLE.get((fname, sname))
        if ent is None:
            run.check("C17.R1", False, "SymPyWriter.__init__",
                      f"{fname} -> {sname}",
                      f"the Fortran intrinsic {fname} is translated to "
                      f"SymPy '{sname}', a pair that is not in the "
                      f"reviewed semantics table", loc(mod, node))
            continue
        agrees, why = ent
        run.check(
            "C17.R1", agrees, "SymPyWriter.__init__", f"{fname} -> {sname}",
            f"Fortran {fname} is translated to SymPy {sname}, which does "
            f"not have the same value on all integers: {why}; e.g. "
            f"never_equal(mod(-7,3), -1) answers True", loc(mod, node),
            sample={"rule": "C17.R1", "fortran": fname, "sympy": sname,
                    "agrees": agrees})
    # operators: does the writer translate integer division?
    handles_div = False
    for name in ("binaryoperation_node",):
        if name in cls.methods:
            txt = ast.unparse(cls.methods[name])
            if "DIV" in txt or "floor" in txt or "'/'" in txt or \
                    "trunc" in txt.lower():
                handles_div = True
    integer_syms = any(
        isinstance(c, ast.Call) and ast.unparse(c.func).endswith("Symbol")
        and any(k.arg == "integer" for k in c.keywords)
        for fn in cls.methods.values() for c in ast.walk(fn))
    run.check(
        "C17.R1", handles_div, "SymPyWriter", "integer division",
        "SymPyWriter inherits the Fortran writer's operator handling, so "
        "`a / b` reaches SymPy as exact rational division (and symbols are "
        f"{'declared integer' if integer_syms else 'not declared integer'})"
        ": Fortran integer division truncates toward zero, so "
        "equal(n/2*2, n) answers True although the two differ for every "
        "odd n", loc(mod, cls.node))
    # SymPy symbols must stay assumption-free while `/` and MOD are handed
    # over with their real-number meaning: with integer symbols SymPy applies
    # identities (Mod(2*i+1, 2) -> 1, (2*i)/2 -> i) that Fortran's
    # truncating arithmetic does not satisfy for negative values, turning
    # "left unevaluated => not equal" into wrong "equal" verdicts.
    ASSUME = {"integer", "positive", "negative", "nonnegative", "real",
              "nonzero", "even", "odd", "rational", "finite"}
    nsym = 0
    for fn in cls.methods.values():
        for call in ast.walk(fn):
            if isinstance(call, ast.Call) and ast.unparse(
                    call.func).split(".")[-1] in ("Symbol", "symbols",
                                                  "Dummy", "Function"):
                nsym += 1
                kws = sorted(k.arg for k in call.keywords
                             if k.arg in ASSUME or k.arg is None)
                run.check(
                    "C17.R1", not kws or handles_div,
                    f"SymPyWriter.{fn.name}",
                    f"assumption-free SymPy symbol ({ast.unparse(call.func)}"
                    f"({ast.unparse(call.args[0]) if call.args else ''}))",
                    f"a SymPy symbol is created with the assumptions {kws} "
                    f"while integer division and MOD are still exported "
                    f"with their real-number meaning: SymPy then folds "
                    f"Mod(2*i+1, 2) to 1 although Fortran's MOD(-1, 2) is "
                    f"-1, so equal(mod(2*i+1,2), 1) answers True",
                    loc(mod, call))
    run.floor("SymPy symbol creations", nsym, 2)
    # SymPy identifies functions / symbols by name: two different Fortran
    # entities must get different SymPy names, i.e. the name given to the
    # SymPy object is the clash-free key under which it is stored
    nmap = 0
    for fn in cls.methods.values():
        news = {}
        for a in ast.walk(fn):
            if isinstance(a, ast.Assign) and isinstance(a.targets[0],
                                                        ast.Name) and \
                    isinstance(a.value, ast.Call) and \
                    ast.unparse(a.value.func).endswith("new_symbol") and \
                    a.value.args:
                news[a.targets[0].id] = ast.unparse(a.value.args[0])
        for a in ast.walk(fn):
            if not (isinstance(a, ast.Assign) and isinstance(
                    a.targets[0], ast.Subscript) and
                    ast.unparse(a.targets[0].value) ==
                    "self._sympy_type_map" and
                    isinstance(a.value, ast.Call) and a.value.args):
                continue
            nmap += 1
            key = ast.unparse(a.targets[0].slice)
            name = ast.unparse(a.value.args[0])
            okn = name == key or "to_language()" in name
            if key.endswith(".name") and key[:-5] in news:
                okn = okn or news[key[:-5]] == name
            run.check(
                "C17.R1", okn, f"SymPyWriter.{fn.name}",
                f"SymPy object stored under '{key}' is named like its key",
                f"the SymPy object stored under the clash-free key '{key}' "
                f"is created with the name '{name}': an array component "
                f"a%c(i) and an ordinary array a_c(i) then become the same "
                f"SymPy function, so equal('a%c(i)', 'a_c(i)') answers True",
                loc(mod, a))
    run.floor("type-map entries", nmap, 3)
    # unknown intrinsics stay opaque: the intrinsic handler renames only
    # names in the table and otherwise falls back to the generic call
    ic = cls.methods.get("intrinsiccall_node")
    if ic is None:
        raise AnalysisError("SymPyWriter.intrinsiccall_node not found")
    itxt = ast.unparse(ic)
    run.check("C17.R1", "self._intrinsic_to_str[node.intrinsic]" in itxt and
              ("super().call_node(node)" in itxt or
               "super().intrinsiccall_node(node)" in itxt or
               "KeyError" in itxt),
              "SymPyWriter.intrinsiccall_node",
              "unknown intrinsics become opaque functions",
              "intrinsics outside the rename table are no longer written "
              "as uninterpreted calls", loc(mod, ic))


def guarded_true_returns(func):
    """[(return node, [enclosing if tests])] for `return True`"""
    out = []

    def visit(stmts, guards):
        for stmt in stmts:
            if isinstance(stmt, ast.Return) and isinstance(
                    stmt.value, ast.Constant) and stmt.value.value is True:
                out.append((stmt, guards))
            elif isinstance(stmt, ast.If):
                visit(stmt.body, guards + [ast.unparse(stmt.test)])
                visit(stmt.orelse, guards + ["not " + ast.unparse(
                    stmt.test)])
            elif isinstance(stmt, ast.Try):
                visit(stmt.body, guards)
                for hnd in stmt.handlers:
                    visit(hnd.body, guards + ["except"])
            elif isinstance(stmt, (ast.For, ast.While)):
                visit(stmt.body, guards + ["loop"])
    visit(func.body, [])
    return out


def check_verdicts(idx, run):
    mod = idx.module(SM)
    cls = idx.get_class("psyclone.core.symbolic_maths.SymbolicMaths")
    # never_equal
    func = cls.methods.get("never_equal")
    if func is None:
        raise AnalysisError("SymbolicMaths.never_equal not found")
    trues = guarded_true_returns(func)
    ok = len(trues) == 1 and trues[0][1] == [
        "len(result) == 1 and isinstance(result[0], core.numbers.Integer)"]
    run.check("C17.R2", ok, "SymbolicMaths.never_equal",
              "True only for a constant integer difference",
              f"never_equal returns True under {[t[1] for t in trues]}; it "
              f"may only do so when the difference is a single (non-zero) "
              f"Integer", loc(mod, func))
    # the zero test precedes
    txt = ast.unparse(func)
    z = txt.find("core.numbers.Zero")
    i = txt.find("core.numbers.Integer")
    run.check("C17.R2", 0 <= z < i, "SymbolicMaths.never_equal",
              "zero difference excluded first",
              "a zero difference is not excluded before the Integer test "
              "(Zero is an Integer)", loc(mod, func))
    rets = [s for s in func.body if isinstance(s, ast.Return)]
    run.check("C17.R2", bool(rets) and isinstance(rets[-1].value,
                                                  ast.Constant) and
              rets[-1].value.value is False, "SymbolicMaths.never_equal",
              "default is 'may be equal'", "the fall-through verdict is not "
              "False", loc(mod, func))
    # VisitorError -> False
    hnd = [h for h in ast.walk(func) if isinstance(h, ast.ExceptHandler)]
    run.check("C17.R2", any(len(h.body) == 1 and isinstance(
        h.body[0], ast.Return) and getattr(h.body[0].value, "value",
                                           None) is False for h in hnd),
        "SymbolicMaths.never_equal", "untranslatable -> may be equal",
        "an untranslatable expression no longer yields False",
        loc(mod, func))
    # equal
    func = cls.methods.get("equal")
    etxt = ast.unparse(func)
    okq = "isinstance(diff, core.numbers.Zero)" in etxt and \
        "all((isinstance(i, core.numbers.Zero) for i in diff))" in etxt
    run.check("C17.R2", okq, "SymbolicMaths.equal",
              "equal only when the difference is Zero",
              "equal() no longer requires the simplified difference to be "
              "exactly Zero", loc(mod, func))
    # solve_equal_for
    func = cls.methods.get("solve_equal_for")
    stxt = ast.unparse(func)
    rets = [s for s in ast.walk(func) if isinstance(s, ast.Return)]
    setrets = [r for r in rets if not (isinstance(r.value, ast.Constant) and
                                       r.value.value == "independent")]
    vals = sorted(ast.unparse(r.value) for r in setrets)
    run.check("C17.R2", vals == ["set()", "set(solution)"],
              "SymbolicMaths.solve_equal_for",
              "solutions only from FiniteSet / EmptySet",
              f"solve_equal_for returns {vals}", loc(mod, func))
    run.check("C17.R2", "if not isinstance(solution, FiniteSet):" in stxt and
              "if solution is EmptySet:" in stxt,
              "SymbolicMaths.solve_equal_for",
              "other solution kinds are refused",
              "solution sets other than FiniteSet / EmptySet are no longer "
              "refused or mapped to 'independent'", loc(mod, func))



PREDICATES = [
    ('psyclone.core.symbolic_maths.SymbolicMaths', 'never_equal', True),
]

def check(idx, run):
    run.explanation = __doc__
    from sa.guards import check_predicates
    check_predicates(idx, run, "C17.R3", PREDICATES)
    check_translation(idx, run)
    check_verdicts(idx, run)
    run.assumptions = ["SymPy simplification / solving is correct"]
