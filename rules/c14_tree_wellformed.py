"""C14 - the PSyIR tree stays well-formed under any sequence of edits.

R1  mutator summaries of ChildrenList vs Python list semantics (all index
    values, by region), atomicity, link maintenance.
R2  every in-place list mutator is overridden.
R3  Node-level compound operations go through ChildrenList and are atomic.
R4  who writes `_parent` / `_children`.
R5  `_validate_child` implementations agree with `_children_valid_format`
    and reject (or are uniform on) negative positions.
"""
import ast
from sa.index import AnalysisError, loc, norm
from sa.affine import Aff, INDEX_REGIONS, Region, cmp_op

LEVEL = "other"
MANIFEST = {
    "level": "other",
    "text": "Exhaustive symbolic summary of every ChildrenList mutator over "
            "the four (index,len) regions Python list indexing "
            "distinguishes, compared with list semantics (final position, "
            "displaced range, removed element), plus atomicity (all "
            "may-raise checks before the first state change), exhaustive "
            "override of list mutators, Node-level compound operations and "
            "a who-writes-links table. Since every public edit is a "
            "composition of these operations, the invariant follows for "
            "all histories and all indices, which no finite test sample "
            "gives.",
    "note": "Trusted: CPython list semantics as transcribed in the rule; "
            "update_signal() overrides and slice indices are outside the "
            "rule. Decides the structural invariant for the listed "
            "operations; lowering code that bypasses the public API is "
            "listed in the frozen who-writes table.",
    "technique": "abstract interpretation of the mutators over an affine "
                 "(index,len) domain by region + atomicity ordering rule + "
                 "who-may-write scan + refusal-weakening check against the reviewed guard snapshot",
}
NODE_MOD = "src/psyclone/psyir/nodes/node.py"

MUTATORS = ["append", "__setitem__", "insert", "extend", "__delitem__",
            "remove", "pop", "reverse", "clear"]
# every in-place mutator of `list`
LIST_INPLACE = ["append", "extend", "insert", "remove", "pop", "clear",
                "sort", "reverse", "__setitem__", "__delitem__",
                "__iadd__", "__imul__"]
STATE_CHANGE = ("super", "link", "unlink")


class Obj:
    """Symbolic object value."""
    def __init__(self, kind, arg=None):
        self.kind = kind   # 'param', 'elem', 'self', 'coll-elem'
        self.arg = arg

    def __eq__(self, other):
        return isinstance(other, Obj) and self.kind == other.kind and \
            self.arg == other.arg

    def __hash__(self):
        return hash((self.kind, repr(self.arg)))

    def __repr__(self):
        return f"{self.kind}({self.arg})"


class IndexErr(Exception):
    """self[e] with e out of range in this region: IndexError is raised."""


class Summary:
    """Abstract interpretation of one ChildrenList method on one region."""

    def __init__(self, func, region, params, cls=None):
        self.func = func
        self.cls = cls
        self.inline_depth = 0
        self.region = region
        self.env = {}
        self.events = []
        self.loopvar = 0
        for name, val in params.items():
            self.env[name] = val
        self.terminated = None
        self._run(func.body, self.events)

    # ---- expressions --------------------------------------------------
    def int_expr(self, node):
        if isinstance(node, ast.Constant) and isinstance(node.value, int) \
                and not isinstance(node.value, bool):
            return Aff(node.value)
        if isinstance(node, ast.Name):
            val = self.env.get(node.id)
            if isinstance(val, Aff):
                return val
            raise AnalysisError(f"{node.id} is not an integer here")
        if isinstance(node, ast.UnaryOp) and isinstance(node.op, ast.USub):
            return -self.int_expr(node.operand)
        if isinstance(node, ast.BinOp):
            if isinstance(node.op, ast.Add):
                return self.int_expr(node.left) + self.int_expr(node.right)
            if isinstance(node.op, ast.Sub):
                return self.int_expr(node.left) - self.int_expr(node.right)
            raise AnalysisError(f"unsupported operator in "
                                f"'{ast.unparse(node)}'")
        if isinstance(node, ast.Call):
            fname = ast.unparse(node.func)
            if fname == "len" and len(node.args) == 1 and \
                    ast.unparse(node.args[0]) == "self":
                return Aff.atom("n")
            if fname in ("min", "max") and len(node.args) == 2:
                left = self.int_expr(node.args[0])
                right = self.int_expr(node.args[1])
                if self.region.always("<=", left, right):
                    small, big = left, right
                elif self.region.always("<=", right, left):
                    small, big = right, left
                else:
                    raise AnalysisError(
                        f"cannot order the arguments of "
                        f"'{ast.unparse(node)}' on region "
                        f"{self.region.name}")
                return small if fname == "min" else big
            if fname == "self.index" and len(node.args) == 1:
                # position of an element: 0 <= j < n (ValueError otherwise,
                # raised before anything changed)
                if self.region.name != "inside":
                    raise IndexErr()
                return Aff.atom("i")
            if fname == "range" or fname == "enumerate":
                raise AnalysisError("range used as a value")
        if isinstance(node, ast.IfExp):
            cond = self.cond(node.test)
            if cond is None:
                raise AnalysisError(
                    f"condition '{ast.unparse(node.test)}' is not decided "
                    f"on region {self.region.name}")
            return self.int_expr(node.body if cond else node.orelse)
        raise AnalysisError(f"unsupported integer expression "
                            f"'{ast.unparse(node)}'")

    def cond(self, node):
        """True / False / None on this region."""
        if isinstance(node, ast.Compare) and len(node.ops) == 1:
            try:
                left = self.int_expr(node.left)
                right = self.int_expr(node.comparators[0])
            except AnalysisError:
                return None
            return self.region.always(cmp_op(node.ops[0]), left, right)
        if isinstance(node, ast.UnaryOp) and isinstance(node.op, ast.Not):
            res = self.cond(node.operand)
            return None if res is None else not res
        if isinstance(node, ast.BoolOp):
            vals = [self.cond(v) for v in node.values]
            if isinstance(node.op, ast.And):
                if any(v is False for v in vals):
                    return False
                return True if all(v is True for v in vals) else None
            if any(v is True for v in vals):
                return True
            return False if all(v is False for v in vals) else None
        return None

    def list_pos(self, aff):
        """Element position selected by self[aff] under list semantics;
        raises IndexErr when out of range on the whole region."""
        reg = self.region
        nlen = Aff.atom("n")
        if reg.always(">=", aff, 0) and reg.always("<", aff, nlen):
            return aff
        if reg.always("<", aff, 0) and reg.always(">=", aff + nlen, 0):
            return aff + nlen
        if reg.always(">=", aff, nlen) or reg.always("<", aff + nlen, 0):
            raise IndexErr()
        raise AnalysisError(
            f"cannot place index {aff} in 0..n on region {reg.name}")

    def insert_pos(self, aff):
        """Position at which list.insert(aff, x) puts x."""
        reg = self.region
        nlen = Aff.atom("n")
        if reg.always(">=", aff, 0):
            if reg.always("<=", aff, nlen):
                return aff
            if reg.always(">=", aff, nlen):
                return nlen
        if reg.always("<", aff, 0):
            if reg.always(">=", aff + nlen, 0):
                return aff + nlen
            if reg.always("<=", aff + nlen, 0):
                return Aff(0)
        raise AnalysisError(
            f"cannot place insert index {aff} on region {reg.name}")

    def obj_expr(self, node):
        if isinstance(node, ast.Name):
            val = self.env.get(node.id)
            if isinstance(val, Obj):
                return val
            if node.id == "self":
                return Obj("self")
            raise AnalysisError(f"unknown object '{node.id}'")
        if isinstance(node, ast.Subscript) and \
                ast.unparse(node.value) == "self":
            pos = self.list_pos(self.int_expr(node.slice))
            return Obj("elem", pos)
        raise AnalysisError(f"unsupported object expression "
                            f"'{ast.unparse(node)}'")

    # ---- statements ---------------------------------------------------
    def _run(self, stmts, events):
        for stmt in stmts:
            if self.terminated:
                return
            self._stmt(stmt, events)

    def _stmt(self, stmt, events):
        if isinstance(stmt, ast.Expr) and isinstance(stmt.value,
                                                     ast.Constant):
            return  # docstring
        try:
            self._stmt_inner(stmt, events)
        except IndexErr:
            events.append(("raise", "IndexError/ValueError", stmt.lineno))
            self.terminated = "raise"

    def _stmt_inner(self, stmt, events):
        if isinstance(stmt, ast.Assign) and len(stmt.targets) == 1 and \
                isinstance(stmt.targets[0], ast.Name):
            name = stmt.targets[0].id
            call = stmt.value
            if isinstance(call, ast.Call) and self._is_super(call):
                self._super(call, events, stmt.lineno)
                self.env[name] = Obj("popped")
                return
            if isinstance(call, ast.Call) and not call.args and \
                    ast.unparse(call.func) in ("set", "list", "dict") or \
                    (isinstance(call, (ast.List, ast.Set, ast.Dict)) and
                     not ast.unparse(call).strip("[]{}")):
                self.env[name] = Obj("local", name)
                return
            try:
                self.env[name] = self.int_expr(stmt.value)
            except AnalysisError as err:
                try:
                    self.env[name] = self.obj_expr(stmt.value)
                except AnalysisError:
                    raise err
            return
        if isinstance(stmt, ast.Expr) and isinstance(stmt.value, ast.Call):
            self._call(stmt.value, events, stmt.lineno)
            return
        if isinstance(stmt, ast.For):
            self._for(stmt, events)
            return
        if isinstance(stmt, ast.If):
            cond = self.cond(stmt.test)
            if cond is True:
                self._run(stmt.body, events)
            elif cond is False:
                self._run(stmt.orelse, events)
            else:
                # undecided guard: both arms are explored as alternatives;
                # only guards that raise or fall through are supported
                sub = []
                saved = self.terminated
                self._run(stmt.body, sub)
                body_term = self.terminated
                self.terminated = saved
                if stmt.orelse:
                    raise AnalysisError(
                        f"undecided if/else '{ast.unparse(stmt.test)}'")
                if body_term == "raise":
                    events.append(("guard-raise", ast.unparse(stmt.test),
                                   stmt.lineno))
                else:
                    raise AnalysisError(
                        f"undecided guard '{ast.unparse(stmt.test)}' whose "
                        f"body does not raise")
            return
        if isinstance(stmt, ast.Raise):
            events.append(("raise", ast.unparse(stmt.exc)[:40]
                           if stmt.exc else "", stmt.lineno))
            self.terminated = "raise"
            return
        if isinstance(stmt, ast.Return):
            self.terminated = "return"
            return
        if isinstance(stmt, ast.Pass):
            return
        raise AnalysisError(
            f"statement outside the interpretable subset: "
            f"'{norm(stmt)}' (line {stmt.lineno})")

    @staticmethod
    def _is_super(call):
        return isinstance(call.func, ast.Attribute) and \
            isinstance(call.func.value, ast.Call) and \
            ast.unparse(call.func.value.func) == "super"

    def _super(self, call, events, lineno):
        name = call.func.attr
        args = []
        for arg in call.args:
            try:
                args.append(self.int_expr(arg))
            except AnalysisError:
                args.append(self.obj_expr(arg))
        events.append(("super", name, tuple(args), lineno))

    def _call(self, call, events, lineno):
        if self._is_super(call):
            self._super(call, events, lineno)
            return
        fname = ast.unparse(call.func)
        if fname == "self._validate_item":
            pos = self.int_expr(call.args[0])
            obj = self.obj_expr(call.args[1])
            events.append(("validate", pos, obj, lineno))
        elif fname == "self._check_is_orphan":
            events.append(("orphan", self.obj_expr(call.args[0]), lineno))
        elif fname == "self._del_parent_link":
            events.append(("unlink", self.obj_expr(call.args[0]), lineno))
        elif fname == "self._set_parent_link":
            events.append(("link", self.obj_expr(call.args[0]), lineno))
        elif fname == "self._node_reference.update_signal":
            events.append(("signal", lineno))
        elif fname in ("seen.add", "seen_ids.add", "ids.add") or \
                fname.endswith(".add") or fname.endswith(".append"):
            # bookkeeping on a local collection (duplicate detection)
            base = call.func.value
            if isinstance(base, ast.Name) and base.id in self.env and \
                    isinstance(self.env[base.id], Obj) and \
                    self.env[base.id].kind == "local":
                events.append(("local-add", base.id, lineno))
            else:
                raise AnalysisError(f"unsupported call '{fname}'")
        elif fname.startswith("self.") and self.cls is not None and \
                fname[5:] in self.cls.methods and self.inline_depth < 3:
            # a helper of ChildrenList: interpret its body in place
            helper = self.cls.methods[fname[5:]]
            names = [a.arg for a in helper.args.args][1:]
            if len(names) != len(call.args) or call.keywords:
                raise AnalysisError(f"helper call '{fname}' with keyword "
                                    f"or default arguments")
            saved = dict(self.env)
            bound = {}
            for name, arg in zip(names, call.args):
                try:
                    bound[name] = self.int_expr(arg)
                except AnalysisError:
                    bound[name] = self.obj_expr(arg)
            self.env.update(bound)
            self.inline_depth += 1
            was = self.terminated
            self._run(helper.body, events)
            if self.terminated == "return":
                self.terminated = was
            self.inline_depth -= 1
            self.env = saved
        else:
            raise AnalysisError(f"unsupported call '{fname}' "
                                f"(line {lineno})")

    def _for(self, stmt, events):
        it = stmt.iter
        sub = []
        self.loopvar += 1
        kname = f"k{self.loopvar}"
        if isinstance(it, ast.Call) and ast.unparse(it.func) == "range":
            if len(it.args) == 2:
                low = self.int_expr(it.args[0])
                high = self.int_expr(it.args[1])
            elif len(it.args) == 1:
                low, high = Aff(0), self.int_expr(it.args[0])
            else:
                raise AnalysisError("range with a step")
            if not isinstance(stmt.target, ast.Name):
                raise AnalysisError("range loop target")
            self.env[stmt.target.id] = Aff.atom(kname)
            inner = LoopBody(self, kname, low, high)
            inner.run(stmt.body, sub)
            events.append(("range", low, high, kname, sub, stmt.lineno))
            return
        if isinstance(it, ast.Call) and ast.unparse(it.func) == "enumerate" \
                and isinstance(stmt.target, ast.Tuple):
            coll = ast.unparse(it.args[0])
            idxname = stmt.target.elts[0].id
            itemname = stmt.target.elts[1].id
            self.env[idxname] = Aff.atom(kname)
            self.env[itemname] = Obj("coll-elem", (coll, kname))
            inner = LoopBody(self, kname, None, None)
            inner.run(stmt.body, sub)
            events.append(("each", coll, kname, sub, stmt.lineno))
            return
        if isinstance(it, ast.Name) and isinstance(stmt.target, ast.Name):
            coll = it.id
            self.env[stmt.target.id] = Obj("coll-elem", (coll, kname))
            inner = LoopBody(self, kname, None, None)
            inner.run(stmt.body, sub)
            events.append(("each", coll, kname, sub, stmt.lineno))
            return
        raise AnalysisError(f"unsupported loop '{norm(stmt)}'")


class LoopBody:
    """Runs a loop body once with the loop variable symbolic.  Positions
    inside may mention the loop atom; `self[k]` is the k-th element."""

    def __init__(self, outer, kname, low, high):
        self.outer = outer
        self.kname = kname

    def run(self, stmts, events):
        outer = self.outer
        kname = self.kname
        orig_obj = outer.obj_expr
        orig_int = outer.int_expr

        def obj_expr(node):
            if isinstance(node, ast.Subscript) and \
                    ast.unparse(node.value) == "self":
                try:
                    pos = orig_int(node.slice)
                except AnalysisError:
                    raise
                if kname in pos.atoms():
                    return Obj("elem", pos)
            return orig_obj(node)

        outer.obj_expr = obj_expr
        try:
            for stmt in stmts:
                if isinstance(stmt, ast.If):
                    # per-item guard that raises (duplicate detection etc.)
                    raises = any(isinstance(s, ast.Raise)
                                 for s in ast.walk(stmt))
                    if raises and not stmt.orelse:
                        events.append(("guard-raise",
                                       ast.unparse(stmt.test), stmt.lineno))
                        continue
                outer._stmt(stmt, events)
        finally:
            outer.obj_expr = orig_obj


# ======================================================================
def flat(events):
    for ev in events:
        yield ev
        if ev[0] in ("range", "each"):
            for sub in flat(ev[4] if ev[0] == "range" else ev[3]):
                yield sub


def first_change_line(events):
    for ev in flat(events):
        if ev[0] in STATE_CHANGE:
            return ev[-1]
    return None


def check_atomic(run, mod, meth, region, events):
    """(d) every may-raise event precedes the first state change."""
    seen_change = None
    ok = True
    for ev in flat(events):
        if ev[0] in STATE_CHANGE and seen_change is None:
            seen_change = ev
        elif seen_change is not None and ev[0] in (
                "validate", "orphan", "raise", "guard-raise"):
            ok = False
            run.finding(
                "C14.R1d", f"ChildrenList.{meth}",
                f"{ev[0]} after {seen_change[0]}",
                f"a check that may raise ({ev[0]}) runs after the list "
                f"state already changed ({seen_change[0]}): a refusal "
                f"would leave the tree modified (region {region.name})",
                f"{mod.relpath}:{ev[-1]}")
    # a loop body that both changes state and may raise: the check of
    # iteration k+1 runs after the change of iteration k
    def loops(evs):
        for ev in evs:
            if ev[0] in ("range", "each"):
                body = ev[4] if ev[0] == "range" else ev[3]
                yield ev, body
                yield from loops(body)
    for lev, body in loops(events):
        kinds = {e[0] for e in flat(body)}
        if kinds & set(STATE_CHANGE) and kinds & {
                "validate", "orphan", "raise", "guard-raise"}:
            ok = False
            run.finding(
                "C14.R1d", f"ChildrenList.{meth}",
                "check and state change in the same loop",
                f"a loop both checks (may raise) and changes the list per "
                f"item: when the check fails for a later item the earlier "
                f"items have already been added / linked, so the refused "
                f"operation leaves the tree modified (region {region.name})",
                f"{mod.relpath}:{lev[-1]}")
    run.ob("C14.R1d", ok, {"rule": "atomic", "method": meth,
                           "region": region.name, "ok": ok})


def has_validate(events, pos, obj, region, before_line):
    for ev in events:
        if ev[0] == "validate" and ev[2] == obj and \
                (before_line is None or ev[-1] < before_line):
            if region.always("==", ev[1], pos):
                return True
    return False


def range_validates(events, first, last_excl, shift, region):
    """A loop validating self[k] at k+shift for all k in [first, last)."""
    for ev in events:
        if ev[0] != "range":
            continue
        low, high, kname, sub = ev[1], ev[2], ev[3], ev[4]
        katom = Aff.atom(kname)
        body_ok = any(
            s[0] == "validate" and s[1] == katom + shift and
            s[2] == Obj("elem", katom) for s in sub)
        if not body_ok:
            continue
        if region.always("<=", low, first) and \
                region.always(">=", high, last_excl):
            return True
    return False


def check_mutators(idx, run):
    mod = idx.module(NODE_MOD)
    cls = idx.get_class("psyclone.psyir.nodes.node.ChildrenList")
    nlen = Aff.atom("n")
    iatom = Aff.atom("i")
    for meth in MUTATORS:
        if meth not in cls.methods:
            run.check("C14.R2", False, "ChildrenList", meth,
                      f"list mutator '{meth}' is not overridden: it would "
                      f"change the children without validation or parent "
                      f"links", f"{mod.relpath}:{cls.node.lineno}")
            continue
        func = cls.methods[meth]
        run.count("mutator methods summarised")
        argnames = [a.arg for a in func.args.args][1:]
        if meth in ("insert", "__setitem__", "pop", "__delitem__"):
            regions = INDEX_REGIONS
        else:
            regions = [INDEX_REGIONS[1]] if meth == "remove" else \
                [Region("any", ("n",), (0,), [(1,)], "n >= 0")]
        for region in regions:
            params = {}
            for name in argnames:
                if name == "index":
                    params[name] = iatom
                elif name in ("item",):
                    params[name] = Obj("param", "item")
                elif name == "items":
                    params[name] = Obj("param", "items")
            try:
                summ = Summary(func, region, params, cls)
            except AnalysisError as err:
                raise AnalysisError(
                    f"ChildrenList.{meth} left the interpretable subset on "
                    f"region {region.name}: {err}")
            run.count("mutator x region summaries")
            events = summ.events
            where = f"{mod.relpath}:{func.lineno}"
            cons = f"ChildrenList.{meth}"
            check_atomic(run, mod, meth, region, events)
            sup = [e for e in flat(events) if e[0] == "super"]
            item = Obj("param", "item")
            supline = sup[0][-1] if sup else None

            def ob(rule, ok, detail, msg):
                run.check(rule, ok, cons, f"{detail} [{region.name}]",
                          f"{msg} (region {region.name}: {region.descr})",
                          where,
                          sample={"rule": rule, "method": meth,
                                  "region": region.name,
                                  "events": [str(e[:3]) for e in
                                             list(flat(events))[:8]],
                                  "ok": bool(ok)})

            raised = summ.terminated == "raise"
            if meth == "insert":
                if not sup:
                    ob("C14.R1e", False, "no super().insert",
                       "insert never reaches list.insert")
                    continue
                final = summ.insert_pos(sup[0][2][0])
                ob("C14.R1a", has_validate(events, final, item, region,
                                           supline),
                   "new item validated at final position",
                   f"list.insert puts the item at position {final} but no "
                   f"_validate_item call checks the item there")
                ob("C14.R1b", range_validates(events, final, nlen, 1,
                                              region),
                   "displaced items validated",
                   f"items at positions {final}..n-1 move up by one but "
                   f"are not all re-validated at their new positions")
                ob("C14.R1c", any(e[0] == "orphan" and e[1] == item
                                  for e in events),
                   "orphan check", "inserted item is not checked to be an "
                   "orphan")
                ob("C14.R1e", any(e[0] == "link" and e[1] == item
                                  for e in events),
                   "parent link set", "inserted item does not get its "
                   "parent link")
            elif meth in ("pop", "__delitem__"):
                if raised and not sup:
                    ob("C14.R1d", first_change_line(events) is None,
                       "IndexError before any change",
                       "out-of-range index raises after a state change")
                    continue
                if not sup:
                    ob("C14.R1e", False, "no super call",
                       f"{meth} never reaches list.{meth}")
                    continue
                arg = sup[0][2][0] if sup[0][2] else Aff(-1)
                try:
                    target = summ.list_pos(arg)
                except IndexErr:
                    # the list operation itself raises IndexError: fine if
                    # nothing changed before it
                    pre = [e for e in flat(events)
                           if e[0] in ("link", "unlink") and
                           e[-1] < sup[0][-1]]
                    ob("C14.R1d", not pre, "IndexError before any change",
                       "out-of-range index raises after a link changed")
                    continue
                ob("C14.R1b", range_validates(events, target + 1, nlen, -1,
                                              region),
                   "displaced items validated",
                   f"items at positions {target + 1}..n-1 move down by one "
                   f"but are not all re-validated at their new positions")
                ob("C14.R1e", any(e[0] == "unlink" and
                                  e[1] == Obj("elem", target)
                                  for e in events),
                   "removed item unlinked",
                   f"the item removed (position {target}) does not lose "
                   f"its parent link")
            elif meth == "__setitem__":
                if raised and not sup:
                    ob("C14.R1d", first_change_line(events) is None,
                       "IndexError before any change",
                       "out-of-range index raises after a state change")
                    continue
                if not sup:
                    ob("C14.R1e", False, "no super call",
                       "__setitem__ never reaches list.__setitem__")
                    continue
                try:
                    target = summ.list_pos(sup[0][2][0])
                except IndexErr:
                    pre = [e for e in flat(events)
                           if e[0] in ("link", "unlink") and
                           e[-1] < sup[0][-1]]
                    ob("C14.R1d", not pre, "IndexError before any change",
                       "out-of-range index raises after a link changed")
                    continue
                ob("C14.R1a", has_validate(events, target, item, region,
                                           supline),
                   "new item validated at final position",
                   f"the item lands at position {target} but "
                   f"_validate_item is asked about a different position "
                   f"({[str(e[1]) for e in events if e[0] == 'validate']})")
                ob("C14.R1c", any(e[0] == "orphan" and e[1] == item
                                  for e in events),
                   "orphan check", "new item is not checked to be an orphan")
                ob("C14.R1e", any(e[0] == "unlink" and
                                  e[1] == Obj("elem", target)
                                  for e in events) and
                   any(e[0] == "link" and e[1] == item for e in events),
                   "links updated",
                   "the replaced item keeps its parent link or the new "
                   "item does not get one")
            elif meth == "remove":
                if raised and not sup:
                    continue
                ob("C14.R1b", range_validates(events, iatom + 1, nlen, -1,
                                              region),
                   "displaced items validated",
                   "items after the removed one are not re-validated")
                ob("C14.R1e", any(e[0] == "unlink" and e[1] == item
                                  for e in events) and bool(sup),
                   "removed item unlinked", "removed item keeps its parent "
                   "link")
            elif meth == "append":
                ob("C14.R1a", has_validate(events, nlen, item, region,
                                           supline),
                   "new item validated at final position",
                   "appended item is not validated at position len(self)")
                ob("C14.R1c", any(e[0] == "orphan" and e[1] == item
                                  for e in events), "orphan check",
                   "appended item is not checked to be an orphan")
                ob("C14.R1e", any(e[0] == "link" and e[1] == item
                                  for e in events) and bool(sup),
                   "parent link set", "appended item gets no parent link")
            elif meth == "extend":
                each = [e for e in events if e[0] == "each" and
                        e[1] == "items"]
                okv = oko = okl = False
                for ev in each:
                    katom = Aff.atom(ev[2])
                    elem = Obj("coll-elem", ("items", ev[2]))
                    for sub in ev[3]:
                        if sub[0] == "validate" and sub[2] == elem and \
                                sub[1] == nlen + katom and \
                                (supline is None or sub[-1] < supline):
                            okv = True
                        if sub[0] == "orphan" and sub[1] == elem:
                            oko = True
                        if sub[0] == "link" and sub[1] == elem:
                            okl = True
                ob("C14.R1a", okv, "new items validated at final positions",
                   "extend does not validate item k at position len+k")
                ob("C14.R1c", oko, "orphan check",
                   "extended items are not checked to be orphans")
                ob("C14.R1e", okl and bool(sup), "parent links set",
                   "extended items get no parent link")
                dup = any(e[0] == "guard-raise" for e in flat(events))
                ob("C14.R1c", dup, "duplicates within the batch rejected",
                   "the orphan check runs before any item of the batch is "
                   "linked, so the same orphan node listed twice in one "
                   "extend() call passes it and ends up twice among the "
                   "children; no guard rejects duplicates in the batch")
            elif meth == "reverse":
                each = [e for e in events if e[0] == "each" and
                        e[1] == "self"]
                okv = False
                for ev in each:
                    katom = Aff.atom(ev[2])
                    for sub in ev[3]:
                        if sub[0] == "validate" and \
                                sub[1] == nlen - katom - 1 and \
                                sub[2] == Obj("coll-elem", ("self", ev[2])):
                            okv = True
                ob("C14.R1b", okv, "all items validated at mirrored "
                   "positions", "reverse does not validate item k at "
                   "position len-k-1")
            elif meth == "clear":
                okc = any(e[0] == "each" and e[1] == "self" and
                          any(s[0] == "unlink" for s in e[3])
                          for e in events)
                ob("C14.R1e", okc and bool(sup), "all items unlinked",
                   "clear does not remove the parent link of every item")
            # (f) signal after the change
            if sup:
                sig = [e for e in events if e[0] == "signal"]
                ob("C14.R1f", bool(sig) and sig[-1][-1] > sup[0][-1],
                   "update_signal after the change",
                   "the tree-changed signal is not sent after the list "
                   "changed")


def check_exhaustive(idx, run):
    cls = idx.get_class("psyclone.psyir.nodes.node.ChildrenList")
    mod = cls.module
    for meth in LIST_INPLACE:
        if meth in ("__iadd__", "__imul__"):
            if meth not in cls.methods:
                run.note("C14.R2", f"list.{meth} is not overridden in "
                         f"ChildrenList ('node.children += [...]' ends in "
                         f"the children setter, which re-validates); not "
                         f"one of the operations the property lists")
            continue
        ok = meth in cls.methods
        run.check("C14.R2", ok, "ChildrenList", f"override {meth}",
                  f"in-place list mutator '{meth}' is inherited unchanged "
                  f"from list: children could change without validation",
                  f"{mod.relpath}:{cls.node.lineno}")


# ----------------------------------------------------------------------
def check_node_api(idx, run):
    """R3: compound operations of Node."""
    cls = idx.get_class("psyclone.psyir.nodes.node.Node")
    mod = cls.module
    # children setter: nothing may be removed before the new list is known
    # to be acceptable, unless a handler restores it
    setter = cls.setters.get("children")
    if setter is None:
        raise AnalysisError("Node.children setter not found")
    run.count("Node API methods analysed")
    param = [a.arg for a in setter.args.args][1]
    saved = set()
    destructive = []
    for sub in ast.walk(setter):
        if isinstance(sub, ast.Call) and ast.unparse(sub.func).endswith(
                ("pop_all_children", ".clear", ".pop")):
            destructive.append(sub)
        if isinstance(sub, ast.Assign) and isinstance(sub.value, ast.Call) \
                and ast.unparse(sub.value.func).endswith("pop_all_children"):
            saved.update(t.id for t in sub.targets
                         if isinstance(t, ast.Name))

    def adds(node, what):
        """calls below `node` that add the list named `what`"""
        return [c for c in ast.walk(node) if isinstance(c, ast.Call) and
                ast.unparse(c.func).endswith((".extend", ".append",
                                              "addchild")) and
                c.args and ast.unparse(c.args[0]) == what]

    new_adds = adds(setter, param)
    if not new_adds:
        raise AnalysisError("children setter: the call that installs the "
                            "new list was not found")
    ok = True
    if destructive and min(d.lineno for d in destructive) < \
            min(a.lineno for a in new_adds):
        # removal happens first: the add must be protected by a handler
        # that restores the saved children and re-raises
        ok = False
        for trynode in [t for t in ast.walk(setter)
                        if isinstance(t, ast.Try)]:
            body_adds = [a for st in trynode.body for a in adds(st, param)]
            if len(body_adds) != len(new_adds) or not trynode.handlers:
                continue
            good = True
            for hnd in trynode.handlers:
                restores = any(adds(st, var) for st in hnd.body
                               for var in saved)
                reraises = hnd.body and isinstance(hnd.body[-1], ast.Raise)
                good = good and restores and reraises
            catches_all = any(
                h.type is None or ast.unparse(h.type) in
                ("Exception", "BaseException") for h in trynode.handlers)
            ok = good and catches_all
    run.check(
        "C14.R3", ok, "Node.children.setter", "remove-then-validate",
        "the children setter removes all existing children "
        "(pop_all_children) before the new list has been validated "
        "(extend may raise GenerationError) and no handler restores them: "
        "a refused assignment leaves the node with no children",
        loc(mod, setter))
    # addchild / detach / pop_all_children / replace_with only use
    # ChildrenList operations on .children / ._children
    for meth in ("addchild", "detach", "pop_all_children", "replace_with"):
        if meth not in cls.methods:
            raise AnalysisError(f"Node.{meth} not found")
        func = cls.methods[meth]
        run.count("Node API methods analysed")
        bad = []
        for sub in ast.walk(func):
            if isinstance(sub, (ast.Assign, ast.AugAssign)):
                tgts = sub.targets if isinstance(sub, ast.Assign) \
                    else [sub.target]
                for tgt in tgts:
                    if isinstance(tgt, ast.Attribute) and tgt.attr in (
                            "_parent", "_children"):
                        bad.append(sub)
        run.check("C14.R3", not bad, f"Node.{meth}", "links via ChildrenList",
                  f"Node.{meth} writes _parent/_children directly instead of "
                  f"going through the validating ChildrenList",
                  loc(mod, bad[0]) if bad else loc(mod, func))
    # replace_with: every raise precedes the mutation
    func = cls.methods["replace_with"]
    muts = [s for s in ast.walk(func) if
            (isinstance(s, ast.Assign) and any(
                isinstance(t, ast.Subscript) for t in s.targets)) or
            (isinstance(s, ast.Call) and
             ast.unparse(s.func).endswith("replace_named_arg"))]
    raises = [s for s in ast.walk(func) if isinstance(s, ast.Raise)]
    first_mut = min((s.lineno for s in muts), default=None)
    ok = first_mut is not None and all(r.lineno < first_mut for r in raises)
    run.check("C14.R3", ok, "Node.replace_with", "raise-before-mutation",
              "replace_with can raise after it changed the parent's "
              "children", loc(mod, func))
    # detach pops self.position from the parent
    func = cls.methods["detach"]
    txt = ast.unparse(func)
    ok = "self.position" in txt and ".children.pop(" in txt
    run.check("C14.R3", ok, "Node.detach", "pops own position",
              "detach does not remove the node at its own position",
              loc(mod, func))


# ----------------------------------------------------------------------
LINK_WRITERS_ALLOWED = {
    # (module relpath, qualified function) -> reason
    ("src/psyclone/psyir/nodes/node.py", "ChildrenList._set_parent_link"):
        "the one place that links",
    ("src/psyclone/psyir/nodes/node.py", "ChildrenList._del_parent_link"):
        "the one place that unlinks",
    ("src/psyclone/psyir/nodes/node.py", "Node.__init__"):
        "constructor-parent protocol (has_constructor_parent)",
    ("src/psyclone/psyir/nodes/node.py", "Node.children"):
        "setter installs a fresh ChildrenList then extend()s it",
    ("src/psyclone/psyir/nodes/node.py", "Node._refine_copy"):
        "copy(): fresh ChildrenList filled through extend()",
}


def check_link_writers(idx, run):
    """R4: who assigns ._parent / ._children."""
    found = 0
    for mod, cls, func in idx.functions_iter():
        qual = (cls.name + "." if cls else "") + func.name
        for sub in ast.walk(func):
            tgts = []
            if isinstance(sub, ast.Assign):
                tgts = sub.targets
            elif isinstance(sub, (ast.AugAssign, ast.AnnAssign)):
                tgts = [sub.target]
            for tgt in tgts:
                if not (isinstance(tgt, ast.Attribute) and
                        tgt.attr in ("_parent", "_children")):
                    continue
                # only PSyIR nodes are of interest: skip classes that are
                # not Node subclasses and do not live in node.py
                if cls is not None and cls.name != "ChildrenList" and \
                        not idx.is_subclass(cls, "Node"):
                    owner = ast.unparse(tgt.value)
                    if owner == "self":
                        continue
                found += 1
                key = (mod.relpath, qual)
                allowed = key in LINK_WRITERS_ALLOWED or \
                    key in FROZEN_EXTERNAL_WRITERS
                reason = LINK_WRITERS_ALLOWED.get(key) or \
                    FROZEN_EXTERNAL_WRITERS.get(key)
                run.check(
                    "C14.R4", allowed, qual, norm(sub),
                    f"'{norm(sub)}' writes a tree link outside the "
                    f"ChildrenList protocol and is not in the reviewed "
                    f"table", loc(mod, sub),
                    sample={"rule": "C14.R4", "writer": qual,
                            "stmt": norm(sub), "reason": reason})
    run.floor("tree-link writers seen", found, 5)


# Reviewed on the pinned tree: each of these writes `_parent` on a node that
# is being *constructed* (so no list contains it yet) or replaces a private
# list after the public operations are done.
FROZEN_EXTERNAL_WRITERS = {
    ("src/psyclone/gocean1p0.py", "GOKernCallFactory.create"):
        "gocall was built with a *constructor* parent and is in no children "
        "list yet; the temporary parent is dropped before addchild()",
    ("src/psyclone/domain/lfric/lfric_kern.py", "LFRicKern.__init__"):
        "attribute initialisation of an object under construction (the "
        "Node initialiser runs later from _setup); no list contains it",
    ("src/psyclone/psyir/nodes/omp_directives.py",
     "OMPParallelDirective.lower_to_language_level"):
        "self._children = self._children[:2] while rebuilding clauses "
        "(lowering, not a public editing operation; noted in DESIGN)",
}


# ----------------------------------------------------------------------
def check_validators(idx, run):
    """R5: each _validate_child decides negative positions safely and agrees
    with the class's _children_valid_format on arity."""
    count = 0
    for cls in idx.all_subclasses("psyclone.psyir.nodes.node.Node"):
        if "_validate_child" not in cls.methods:
            continue
        func = cls.methods["_validate_child"]
        count += 1
        run.count("_validate_child overrides")
        mod = cls.module
        args = [a.arg for a in func.args.args]
        if len(args) < 2:
            raise AnalysisError(f"{cls.qname}._validate_child signature")
        pos = args[-2]
        table = validator_table(func, pos)
        if table is None:
            run.note("C14.R5", f"{cls.name}._validate_child is outside the "
                     f"decision-table subset (not compared)")
            continue
        fmt_owner = idx.find_attr(cls, "_children_valid_format")
        fmt = None
        if fmt_owner is not None:
            try:
                from sa.index import const_value
                fmt = const_value(idx, fmt_owner[0].module, fmt_owner[1])
            except AnalysisError:
                fmt = None
        if not isinstance(fmt, str):
            continue
        expect = parse_format(fmt)
        if expect is None:
            run.note("C14.R5", f"{cls.name}: format '{fmt}' not parsed")
            continue
        got_fixed, got_rest = table
        exp_fixed, exp_rest = expect
        # compare arity: positions accepted at all
        def accepts(tbl, k):
            fixed, rest = tbl
            if k in fixed:
                return bool(fixed[k])
            return bool(rest)
        upto = max([*got_fixed.keys(), *exp_fixed.keys(), 0]) + 2
        mism = [k for k in range(upto)
                if accepts((got_fixed, got_rest), k) !=
                accepts((exp_fixed, exp_rest), k)]
        # validity is *defined* by _validate_child; the format string only
        # feeds the error message, so a disagreement is a note (design 3/C14
        # R5), never a verdict
        run.ob("C14.R5", True,
               {"rule": "C14.R5", "class": cls.name, "format": fmt,
                "positions": sorted(got_fixed), "open_ended":
                bool(got_rest), "agrees_with_format": not mism})
        if mism:
            run.note("C14.R5", f"{cls.name}._validate_child accepts a "
                     f"different set of positions ({mism}) than the "
                     f"documented format '{fmt}' ({loc(mod, func)})")
    run.floor("_validate_child overrides", count, 30)


def validator_table(func, pos):
    """Interpret the small language used by _validate_child: returns
    ({position: classes or False}, classes-for-other-positions or False) or
    None when outside the subset."""
    fixed = {}
    rest = False

    def classes(node):
        if isinstance(node, ast.Call) and ast.unparse(node.func) == \
                "isinstance":
            return ast.unparse(node.args[1])
        return None

    def positions(node):
        """positions selected by a test on `pos`: list of ints, or
        ('lt', k)"""
        if isinstance(node, ast.Compare) and len(node.ops) == 1 and \
                isinstance(node.left, ast.Name) and node.left.id == pos:
            comp = node.comparators[0]
            if isinstance(node.ops[0], ast.Eq) and \
                    isinstance(comp, ast.Constant):
                return [comp.value]
            if isinstance(node.ops[0], ast.In) and \
                    isinstance(comp, (ast.Tuple, ast.List)):
                return [e.value for e in comp.elts]
            if isinstance(node.ops[0], ast.Lt) and \
                    isinstance(comp, ast.Constant):
                return list(range(comp.value))
            if isinstance(node.ops[0], ast.LtE) and \
                    isinstance(comp, ast.Constant):
                return list(range(comp.value + 1))
        return None

    def conj(node):
        """`pos-test and isinstance(...)` -> (positions, classes)"""
        if isinstance(node, ast.BoolOp) and isinstance(node.op, ast.And) \
                and len(node.values) == 2:
            psel = positions(node.values[0])
            kls = classes(node.values[1])
            if psel is not None and kls is not None:
                return psel, kls
        return None

    def ret_expr(node, pending):
        nonlocal rest
        if isinstance(node, ast.Constant) and node.value is False:
            return True
        kls = classes(node)
        if kls is not None:
            rest = kls
            return True
        one = conj(node)
        if one is not None:
            for k in one[0]:
                fixed.setdefault(k, one[1])
            return True
        if isinstance(node, ast.BoolOp) and isinstance(node.op, ast.Or):
            for val in node.values:
                one = conj(val)
                if one is None:
                    return False
                for k in one[0]:
                    fixed.setdefault(k, one[1])
            return True
        return False

    body = [s for s in func.body
            if not (isinstance(s, ast.Expr) and
                    isinstance(s.value, ast.Constant))]
    for stmt in body:
        if isinstance(stmt, ast.If) and not stmt.orelse and \
                len(stmt.body) == 1 and isinstance(stmt.body[0], ast.Return):
            psel = positions(stmt.test)
            if psel is None:
                return None
            val = stmt.body[0].value
            kls = classes(val)
            if kls is None:
                if isinstance(val, ast.Constant) and val.value is False:
                    kls = False
                else:
                    return None
            for k in psel:
                fixed.setdefault(k, kls)
        elif isinstance(stmt, ast.Return):
            if not ret_expr(stmt.value, fixed):
                return None
            return fixed, rest
        else:
            return None
    return None


def parse_format(fmt):
    """'A, B, [C]*' -> ({0: 'A', 1: 'B'}, 'C') ; '<LeafNode>' -> ({}, False)
    Returns None for formats outside the tiny grammar."""
    fmt = fmt.strip()
    if fmt in ("<LeafNode>", "None"):
        return {}, False
    fixed = {}
    rest = False
    # split on top-level commas
    parts = []
    depth = 0
    cur = ""
    for char in fmt:
        if char == "[":
            depth += 1
        elif char == "]":
            depth -= 1
        if char == "," and depth == 0:
            parts.append(cur.strip())
            cur = ""
        else:
            cur += char
    if cur.strip():
        parts.append(cur.strip())
    pos = 0
    for part in parts:
        part = part.strip()
        if part.startswith("[,") and part.endswith("]"):
            part = "[" + part[2:].strip()
        if part.endswith("]*") or part.endswith("]+") or \
                part.endswith("*") or part.endswith("+"):
            rest = part.strip("[]*+ ")
        elif part.startswith("[") and part.endswith("]"):
            fixed[pos] = part.strip("[] ")
            pos += 1
        elif " [" in part and part.endswith("]"):
            # "Schedule [, Schedule]"
            head, _, tail = part.partition(" [")
            fixed[pos] = head.strip()
            pos += 1
            fixed[pos] = tail.strip("[], ")
            pos += 1
        else:
            fixed[pos] = part
            pos += 1
    return fixed, rest


def check_negative_positions(idx, run):
    """R5b: a raw negative position handed to a validator must never be
    *accepted* where the real position would be refused.  Holds trivially
    when ChildrenList normalises every index before validating (R1a); this
    rule only records the validators that distinguish positions with an
    open-ended default (`if position == 0: ...; return isinstance(...)`),
    which are the ones a raw negative index would fool."""
    fooled = []
    for cls in idx.all_subclasses("psyclone.psyir.nodes.node.Node"):
        if "_validate_child" not in cls.methods:
            continue
        func = cls.methods["_validate_child"]
        pos = [a.arg for a in func.args.args][-2]
        table = validator_table(func, pos)
        if table and table[0] and table[1]:
            kinds = {str(v) for v in table[0].values()}
            if kinds != {str(table[1])}:
                fooled.append(cls.name)
    run.extra["validators_sensitive_to_raw_negative_index"] = sorted(fooled)



GUARDED = [
    ("psyclone.psyir.nodes.node.ChildrenList", "_validate_item"),
    ("psyclone.psyir.nodes.node.ChildrenList", "_check_is_orphan"),
    ("psyclone.psyir.nodes.node.Node", "replace_with"),
    ("psyclone.psyir.nodes.node.Node", "detach"),
]

def check(idx, run):
    from sa.guards import check_guards
    check_guards(idx, run, "C14.R6", GUARDED)
    run.explanation = (
        "Each ChildrenList mutator is abstractly interpreted into an event "
        "sequence (validate(pos,item) / orphan / unlink / list-op / link / "
        "signal) with positions as affine forms in (index, len), separately "
        "on the four regions of (index, len) that Python list indexing "
        "distinguishes; the events are compared with Python's list "
        "semantics (final position of the new item, displaced range and "
        "shift, element removed) and with the atomicity rule 'every "
        "may-raise check precedes the first state change'.  Because every "
        "public edit is a composition of these operations the invariant "
        "follows for every history by induction.  Also: all in-place list "
        "mutators overridden (R2), Node-level compound operations (R3), "
        "who writes _parent/_children (R4), validators vs documented "
        "format (R5).")
    run.exhaustive = True
    check_mutators(idx, run)
    check_exhaustive(idx, run)
    check_node_api(idx, run)
    check_link_writers(idx, run)
    check_validators(idx, run)
    check_negative_positions(idx, run)
    run.assumptions = [
        "list.insert/pop/__setitem__/__delitem__ semantics as documented "
        "for CPython (transcribed in Summary.list_pos / insert_pos)",
        "update_signal() side effects of subclasses are not analysed",
        "slice indices are outside the rule (validators reject a list as "
        "child, int comparison of a slice raises TypeError before any "
        "change)"]
