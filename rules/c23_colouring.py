"""C23 - LFRic shared-DoF increments are only parallelised over colours.

R1 guard-sites     every route by which a cell loop can become parallel
                   refuses an un-coloured loop with an increment argument:
                   the two LFRic OpenMP validates directly; every other
                   ParallelLoopTrans subclass through ParallelLoopTrans.
                   validate -> LFRicLoop.independent_iterations -> has_inc_arg.
R2 inc-predicate   has_inc_arg covers every increment-type access (the
                   accesses LFRicArgDescriptor allows on continuous spaces
                   only).
R3 colours-serial  loops over colours are refused by the parallel-loop
                   transformations, reported dependent, and colouring is
                   refused inside an OpenMP region.
R4 colour-structure the colouring transformation builds colours(colour())
                   with the matching upper bounds.
"""
import ast
from sa.index import AnalysisError, loc, norm
from sa.cfg import CFG
from rules.common_parallel import (check_generic_validate,
                                   check_subclass_chains, FORCE_SETTERS)

LEVEL = "other"
MANIFEST = {
    "level": "other",
    "text": "Must-pass-through and decision-path rules: in both LFRic "
            "OpenMP validates the guard 'not a colour loop and has an "
            "increment argument -> refuse' is evaluated on every accepting "
            "path (the discontinuous-space exemption being the only "
            "bypass); all other parallel-loop transformations chain to the "
            "generic validate whose dependence question reaches "
            "LFRicLoop.independent_iterations, where every True verdict for "
            "an un-coloured loop is preceded by a failed has_inc_arg test; "
            "the increment predicate is compared with the set of accesses "
            "that the argument-descriptor allows on continuous spaces only. "
            "These are facts about every path, hence about every sequence "
            "of transformations and every kernel metadata.",
    "note": "The colour maps themselves (run-time data) and the generic "
            "dependence analysis' verdict on kernel arguments are not "
            "decided; OpenACC is covered only through the generic route.",
    "technique": "CFG must-pass-through with polarity + path enumeration + "
                 "set comparison of extracted access-type tables + refusal-weakening check against the reviewed guard snapshot",
}
TR = "src/psyclone/transformations.py"


def guard_matches(test):
    """`<x>.loop_type != 'colour' and <x>.has_inc_arg()`"""
    if not (isinstance(test, ast.BoolOp) and isinstance(test.op, ast.And)):
        return False
    parts = [ast.unparse(v) for v in test.values]
    has_type = any(p.endswith(".loop_type != 'colour'") for p in parts)
    has_inc = any(p.endswith(".has_inc_arg()") for p in parts)
    return has_type and has_inc and len(parts) == 2


def check_lfric_omp_guards(idx, run):
    for cname in ("DynamoOMPParallelLoopTrans", "Dynamo0p3OMPLoopTrans"):
        cls = idx.get_class(cname)
        func = cls.methods.get("validate")
        if func is None:
            raise AnalysisError(f"{cname}.validate not found")
        mod = cls.module
        cons = f"{cname}.validate"
        cfg = CFG(func)
        guards = [n for n in cfg.stmt_nodes() if n.kind == "test" and
                  isinstance(n.ast, ast.If) and guard_matches(n.ast.test)]
        ok = len(guards) == 1 and any(
            isinstance(s, ast.Raise) and "TransformationError" in
            ast.unparse(s) for s in guards[0].ast.body)
        run.check("C23.R1", ok, cons, "guard present and raises",
                  "the guard `loop_type != 'colour' and has_inc_arg()` -> "
                  "raise TransformationError was not found", loc(mod, func))
        if not ok:
            continue
        gnode = guards[0]
        # every accepting path evaluates the guard unless it took the
        # discontinuous-space exemption
        bad = []
        npaths = 0
        for path in cfg.paths(limit=5000):
            if path[-1][0] is not cfg.exit:
                continue
            npaths += 1
            if any(n is gnode for n, _ in path):
                continue
            # no exemption: the function space of the loop is that of one
            # updated argument (possibly an operator on w3) and says nothing
            # about the other arguments (fix a8292e5)
            exempt = []
            if not exempt:
                bad.append([ast.unparse(n.ast.test)[:40] for n, lab in path
                            if n.kind == "test"])
        run.check("C23.R1", not bad and npaths > 0, cons,
                  "guard on every accepting path",
                  f"an accepting path of {cons} skips the un-coloured "
                  f"increment guard (tests on the path: {bad[:1]})",
                  loc(mod, gnode.ast))
        # the exemption tests the loop's own field space
        ex = [n for n in cfg.stmt_nodes() if n.kind == "test" and
              isinstance(n.ast, ast.If) and
              "VALID_DISCONTINUOUS_NAMES" in ast.unparse(n.ast.test)]
        for node in ex:
            txt = ast.unparse(node.ast.test)
            run.check("C23.R1", False, cons,
                      "no exemption by the loop's function space",
                      f"the colouring requirement is waived under '{txt}': "
                      f"a kernel that writes an operator on w3 and "
                      f"increments a field on w1 has a loop on w3; its "
                      f"un-coloured loop would be parallelised",
                      loc(mod, node.ast))
        # the guard precedes the forced generic validate
        sup = [n for n in cfg.stmt_nodes() if n.kind == "stmt" and
               "super().validate" in ast.unparse(n.ast)]
        run.check("C23.R1", bool(sup), cons, "chains to the generic "
                  "validate", "super().validate is no longer called",
                  loc(mod, func))


def check_lfric_independent(idx, run):
    cls = idx.get_class("psyclone.domain.lfric.lfric_loop.LFRicLoop")
    func = cls.methods.get("independent_iterations")
    if func is None:
        raise AnalysisError("LFRicLoop.independent_iterations not found")
    mod = cls.module
    cons = "LFRicLoop.independent_iterations"
    cfg = CFG(func)
    ntrue = 0
    bad = []
    for path in cfg.paths(limit=20000):
        if path[-1][0] is not cfg.exit:
            continue
        rets = [n for n, _ in path if n.kind == "stmt" and
                isinstance(n.ast, ast.Return)]
        if not rets or not (isinstance(rets[-1].ast.value, ast.Constant) and
                            rets[-1].ast.value.value is True):
            continue
        tests = [(ast.unparse(n.ast.test), lab) for n, lab in path
                 if n.kind == "test" and isinstance(n.ast, ast.If)]
        # un-coloured cell loop decided by the domain rule
        if ("self.loop_type == ''", "true") in tests:
            ntrue += 1
            if ("self.has_inc_arg()", "false") not in tests:
                bad.append(tests)
    run.check("C23.R1", not bad and ntrue >= 1, cons,
              "un-coloured loop independent only without increments",
              "an un-coloured cell loop can be declared independent "
              "without a failed has_inc_arg() test", loc(mod, func))
    # colours / null loops are never independent
    first = [n for n in cfg.stmt_nodes() if n.kind == "test" and
             isinstance(n.ast, ast.If) and "'colours'" in
             ast.unparse(n.ast.test)]
    okc = any(isinstance(s, ast.Return) and isinstance(s.value, ast.Constant)
              and s.value.value is False for n in first for s in n.ast.body)
    run.check("C23.R3", okc, cons, "colours loop is not independent",
              "a loop over colours is no longer reported as dependent",
              loc(mod, func))
    # the only loop types declared safe by domain knowledge
    safe = []
    for node in cfg.stmt_nodes():
        if node.kind == "test" and isinstance(node.ast, ast.If) and \
                ast.unparse(node.ast.test).startswith("self.loop_type == ") \
                and any(isinstance(s, ast.Return) and
                        isinstance(s.value, ast.Constant) and
                        s.value.value is True for s in node.ast.body):
            safe.append(ast.unparse(node.ast.test).split("== ")[1])
    run.check("C23.R1", set(safe) <= {"'colour'", "'dof'", "''"}, cons,
              "only colour / dof / un-coloured loops can be declared safe",
              f"loop types {safe} are declared independent by domain "
              f"knowledge", loc(mod, func))


def access_names(node):
    out = set()
    for sub in ast.walk(node):
        if isinstance(sub, ast.Attribute) and \
                ast.unparse(sub.value) == "AccessType":
            out.add(sub.attr)
    return out


def check_inc_predicate(idx, run):
    cls = idx.get_class(
        "psyclone.domain.common.psylayer.psyloop.PSyLoop")
    func = cls.methods.get("has_inc_arg")
    if func is None:
        raise AnalysisError("PSyLoop.has_inc_arg not found")
    mod = cls.module
    accepted = set()
    for sub in ast.walk(func):
        if isinstance(sub, ast.Compare) and ".access" in \
                ast.unparse(sub.left):
            accepted |= access_names(sub)
    # oracle from the argument descriptor: accesses allowed on continuous
    # spaces but not on discontinuous ones
    dmod = idx.module("src/psyclone/domain/lfric/lfric_arg_descriptor.py")
    cont = disc = None
    for sub in ast.walk(dmod.tree):
        if isinstance(sub, ast.Assign) and isinstance(sub.targets[0],
                                                      ast.Name):
            if sub.targets[0].id == "field_cont_accesses":
                cont = access_names(sub.value)
            if sub.targets[0].id == "field_disc_accesses":
                disc = access_names(sub.value)
    if cont is None or disc is None:
        raise AnalysisError("field_cont_accesses / field_disc_accesses not "
                            "found in lfric_arg_descriptor.py")
    inc_like = cont - disc
    run.extra["increment_like_accesses"] = sorted(inc_like)
    run.check("C23.R2", inc_like == {"INC", "READINC"},
              "LFRicArgDescriptor", "increment-type accesses",
              f"the accesses allowed only on continuous spaces are "
              f"{sorted(inc_like)} (expected INC and READINC): the oracle "
              f"of this rule needs review", loc(dmod, dmod.tree.body[0]))
    missing = inc_like - accepted
    run.check(
        "C23.R2", not missing, "PSyLoop.has_inc_arg",
        "covers every increment-type access",
        f"has_inc_arg() tests {sorted(accepted)} but not "
        f"{sorted(missing)}: a kernel that read-increments a continuous "
        f"field (gh_readinc) is not seen as an increment, so its "
        f"un-coloured loop is accepted by every parallel-loop "
        f"transformation", loc(mod, func))
    # it looks at all coded kernels and all their arguments
    txt = ast.unparse(func)
    run.check("C23.R2", "self.coded_kernels()" in txt and
              ".arguments.args" in txt, "PSyLoop.has_inc_arg",
              "all kernels, all arguments",
              "has_inc_arg no longer inspects every argument of every "
              "kernel in the loop", loc(mod, func))


def check_colouring(idx, run):
    cls = idx.get_class("Dynamo0p3ColourTrans")
    mod = cls.module
    app = cls.methods.get("apply")
    if app is None:
        raise AnalysisError("Dynamo0p3ColourTrans.apply not found")
    txt_nodes = [s for s in ast.walk(app) if isinstance(s, ast.If)]
    omp = [s for s in txt_nodes if "ancestor(OMPDirective)" in
           ast.unparse(s.test) and any(isinstance(b, ast.Raise)
                                       for b in s.body)]
    run.check("C23.R3", bool(omp), "Dynamo0p3ColourTrans.apply",
              "no colouring inside an OpenMP region",
              "colouring a loop that already sits inside an OpenMP "
              "directive is no longer refused (the colours loop would end "
              "up inside a parallel region)", loc(mod, app))
    only_cells = [s for s in txt_nodes if ast.unparse(s.test) ==
                  "node.loop_type != ''" and any(isinstance(b, ast.Raise)
                                                 for b in s.body)]
    run.check("C23.R4", bool(only_cells), "Dynamo0p3ColourTrans.apply",
              "only un-coloured cell loops are coloured",
              "loops other than plain cell loops can be coloured",
              loc(mod, app))
    # structure
    base = None
    for kls in idx.mro(cls):
        if "_create_colours_loop" in kls.methods:
            base = kls
    ccl = cls.methods.get("_create_colours_loop")
    if ccl is None:
        raise AnalysisError("Dynamo0p3ColourTrans._create_colours_loop "
                            "not found")
    txt = ast.unparse(ccl)
    want = ["loop_type='colours'", "loop_type='colour'",
            "colours_loop.set_upper_bound('ncolours')",
            "parent=colours_loop.loop_body"]
    for frag in want:
        run.check("C23.R4", frag in txt,
                  "Dynamo0p3ColourTrans._create_colours_loop", frag,
                  f"the colouring structure lost '{frag}'", loc(mod, ccl))
    ub = [s for s in ast.walk(ccl) if isinstance(s, ast.Call) and
          ast.unparse(s.func) == "colour_loop.set_upper_bound"]
    okb = bool(ub) and all(
        ast.unparse(c.args[0]) in ("'colour_halo'", "'ncolour'",
                                   "'last_halo_cell_per_colour'")
        for c in ub)
    run.check("C23.R4", okb, "Dynamo0p3ColourTrans._create_colours_loop",
              "inner loop bounded by the cells of one colour",
              "the inner loop is not bounded by the number of cells of the "
              "current colour", loc(mod, ccl))
    # gen_code refuses a colours loop inside an OpenMP parallel region
    lcls = idx.get_class("psyclone.domain.lfric.lfric_loop.LFRicLoop")
    gen = lcls.methods.get("gen_code")
    if gen is not None:
        ok = any(isinstance(s, ast.If) and "colours" in ast.unparse(s.test)
                 and "is_openmp_parallel" in ast.unparse(s.test) and
                 any(isinstance(b, ast.Raise) for b in s.body)
                 for s in ast.walk(gen))
        run.check("C23.R3", ok, "LFRicLoop.gen_code",
                  "colours loop inside a parallel region refused at "
                  "generation", "gen_code no longer refuses a loop over "
                  "colours inside an OpenMP parallel region",
                  loc(lcls.module, gen))


def check_sequential_agreement(idx, run):
    """The `sequential` option switches the dependence / colours checks off
    in ParallelLoopTrans.validate.  Every transformation that stores it for
    directive creation must store exactly that option (same key, same
    default, no extra condition) and hand it to the directive: otherwise a
    loop validated as 'will run serially' gets a parallel directive."""
    base = idx.get_class(
        "psyclone.psyir.transformations.parallel_loop_trans."
        "ParallelLoopTrans")
    val = base.methods.get("validate")
    vdefs = [ast.unparse(s.value) for s in ast.walk(val)
             if isinstance(s, ast.Assign) and
             ast.unparse(s.targets[0]) == "sequential"]
    if vdefs != ["options.get('sequential', False)"]:
        raise AnalysisError("ParallelLoopTrans.validate no longer reads "
                            "options.get('sequential', False)")
    seen = 0
    for cls in idx.all_subclasses(base):
        for name, func in cls.methods.items():
            for stmt in ast.walk(func):
                if isinstance(stmt, ast.Assign) and any(
                        ast.unparse(t) == "self._sequential"
                        for t in stmt.targets):
                    seen += 1
                    txt = ast.unparse(stmt.value)
                    ok = txt in ("options.get('sequential', False)",
                                 "False")
                    run.check(
                        "C23.R3", ok, f"{cls.name}.{name}",
                        "stores exactly the validated `sequential` option",
                        f"{cls.name}.{name} stores self._sequential = "
                        f"{txt}; validate() skips the colours and "
                        f"dependence checks whenever options['sequential'] "
                        f"is set, so the directive must be sequential in "
                        f"exactly that case - with an extra condition a "
                        f"loop over colours or an un-coloured increment "
                        f"loop gets a parallel directive",
                        loc(cls.module, stmt))
        dfunc = cls.methods.get("_directive")
        if dfunc is not None and "_sequential" in ast.unparse(dfunc):
            txt = ast.unparse(dfunc)
            run.check("C23.R3", "sequential=self._sequential" in txt,
                      f"{cls.name}._directive",
                      "directive receives the stored option",
                      f"{cls.name}._directive does not pass "
                      f"sequential=self._sequential to the directive",
                      loc(cls.module, dfunc))
    run.floor("stores of the sequential option", seen, 2)
    # the directive writes `seq` (and not `independent`) when sequential
    dcls = idx.get_class("ACCLoopDirective")
    bfunc = dcls.methods.get("begin_string")
    if bfunc is not None:
        ok = False
        for stmt in ast.walk(bfunc):
            if isinstance(stmt, ast.If) and ast.unparse(stmt.test) == \
                    "self._sequential":
                body = " ".join(ast.unparse(b) for b in stmt.body)
                other = " ".join(ast.unparse(b) for b in stmt.orelse)
                ok = "seq" in body and "independent" not in body and \
                    "seq" not in other
        run.check("C23.R3", ok, "ACCLoopDirective.begin_string",
                  "sequential loops are written `seq`",
                  "a sequential ACC loop directive is no longer written "
                  "with the `seq` clause only", loc(dcls.module, bfunc))



GUARDED = [
    ('DynamoOMPParallelLoopTrans', 'validate'),
    ('Dynamo0p3OMPLoopTrans', 'validate'),
    ('Dynamo0p3ColourTrans', 'apply'),
    ('ParallelLoopTrans', 'validate'),
]


PREDICATES = [
    ('psyclone.domain.lfric.lfric_loop.LFRicLoop', 'independent_iterations', True),
    ('psyclone.domain.common.psylayer.psyloop.PSyLoop', 'has_inc_arg', False),
]

def check(idx, run):
    run.explanation = __doc__
    from sa.guards import check_predicates
    check_predicates(idx, run, "C23.R5", PREDICATES)
    from sa.guards import check_guards
    check_guards(idx, run, "C23.R4", GUARDED)
    check_lfric_omp_guards(idx, run)
    check_generic_validate(idx, run, "C23.R1")
    setters = check_subclass_chains(idx, run, "C23.R1")
    run.extra["validates_that_force"] = sorted(setters)
    check_lfric_independent(idx, run)
    check_inc_predicate(idx, run)
    check_colouring(idx, run)
    check_sequential_agreement(idx, run)
    run.assumptions = [
        "the generic dependence analysis is not assumed to flag increment "
        "arguments; the domain rule (has_inc_arg) is what is checked",
        "run-time colour maps are correct"]
