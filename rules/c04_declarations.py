"""C04 - generated code declares every entity it uses, in a valid order
(partial: the two declaration-ordering algorithms of the writer have the
shape that guarantees "each symbol once, dependencies first", and inner
scopes are merged with renaming).

R1 param-toposort  _gen_parameter_decls is a worklist: a constant is written
                   only when all constants it depends on are written, it is
                   then removed and marked, no progress -> VisitorError; the
                   dependencies come from the initial value, the precision of
                   literals in it and the declared precision.
R2 decl-partition  in gen_decls every symbol leaves the worklist exactly when
                   it is written (or belongs to a category declared
                   elsewhere); whatever remains is written by the final loop;
                   constants precede arguments, derived types and variables.
R3 scope-merge     routine_node merges every inner schedule's table through
                   SymbolTable.merge (renaming clashes, see C16) before it
                   declares anything.
R4 inlined-bounds expressions taken from the callee's declarations by
                   InlineTrans are rewritten in terms of the caller (they are
                   not: known findings C04-a, C04-b).
That every name *referenced* by the statements is in a table, and symbols
added by other transformations, are not decided.
"""
import ast
from sa.index import AnalysisError, loc, norm
from sa.cfg import CFG, calls_at

LEVEL = "other"
MANIFEST = {
    "level": "other",
    "text": "Algorithm-shape rules over the Fortran writer: the parameter "
            "declarations are produced by a dependency worklist (emit only "
            "when inputs.issubset(declared), emit-mark-remove together, "
            "VisitorError when stuck) fed by all three dependency sources; "
            "gen_decls partitions the symbols so that each is written "
            "exactly once in the order constants, arguments, derived "
            "types, variables; routine_node merges inner scopes via "
            "SymbolTable.merge before declaring. True for every symbol "
            "table, which tests only sample.",
    "note": "Not decided: that every referenced name is in some table, "
            "symbols added by transformations, and anything that needs a Fortran compiler.",
    "technique": "algorithm-template matching + worklist partition rule + "
                 "CFG dominance + refusal-weakening check against the reviewed guard snapshot",
}
FW = "psyclone.psyir.backend.fortran.FortranWriter"


def check_params(idx, run):
    cls = idx.get_class(FW)
    func = cls.methods.get("_gen_parameter_decls")
    if func is None:
        raise AnalysisError("_gen_parameter_decls not found")
    mod = cls.module
    cons = "FortranWriter._gen_parameter_decls"
    whiles = [s for s in func.body if isinstance(s, ast.While)]
    if len(whiles) != 1:
        raise AnalysisError("_gen_parameter_decls: worklist loop not found")
    loop = whiles[0]
    work = ast.unparse(loop.test)
    fors = [s for s in loop.body if isinstance(s, ast.For)]
    ok = len(fors) == 1 and len(loop.body) == 1
    run.check("C04.R1", ok, cons, "worklist: one selection loop per round",
              "the worklist body is no longer a single selection loop",
              loc(mod, loop))
    if not fors:
        return
    sel = fors[0]
    sym = ast.unparse(sel.target)
    run.check("C04.R1", ast.unparse(sel.iter) in (f"{work}[:]",
                                                  f"list({work})"),
              cons, "iterates over a copy of the worklist",
              "the selection loop iterates over the list it modifies",
              loc(mod, sel))
    guards = [s for s in sel.body if isinstance(s, ast.If)]
    ready = [g for g in guards if ".issubset(declared)" in
             ast.unparse(g.test)]
    emits = [s for s in ast.walk(sel) if isinstance(s, ast.AugAssign) and
             "gen_vardecl" in ast.unparse(s.value)]
    run.check("C04.R1", len(ready) == 1 and len(emits) == 1 and
              any(emits[0] is x for x in ast.walk(ready[0])) and
              not any(emits[0] is x for b in ready[0].orelse
                      for x in ast.walk(b)), cons,
              "a constant is written only when its inputs are declared",
              "a parameter declaration is emitted outside the "
              "`inputs.issubset(declared)` branch: it can precede a "
              "constant it depends on", loc(mod, sel))
    if ready:
        body = [norm(s) for s in ready[0].body]
        need = [f"declared.add(Signature({sym}.name))",
                f"{work}.remove({sym})", "break"]
        run.check("C04.R1", all(n in body for n in need), cons,
                  "emit, mark declared, remove, restart - together",
                  f"the ready branch is {body}; it must mark the symbol "
                  f"declared, remove it from the worklist and restart the "
                  f"scan", loc(mod, ready[0]))
        inputs = ast.unparse(ready[0].test).split(".issubset")[0]
        defs = [s for s in sel.body if isinstance(s, ast.Assign) and
                ast.unparse(s.targets[0]) == inputs]
        run.check("C04.R1", bool(defs) and ast.unparse(defs[0].value) ==
                  f"decln_inputs[{sym}.name]", cons,
                  "tested inputs are those of the candidate",
                  "the readiness test does not use the dependency set of "
                  "the candidate symbol", loc(mod, sel))
    run.check("C04.R1", bool(sel.orelse) and any(
        isinstance(s, ast.Raise) and "VisitorError" in ast.unparse(s)
        for s in sel.orelse), cons, "stuck -> VisitorError",
        "when no constant is ready (cyclic dependencies) the writer no "
        "longer raises VisitorError (it would loop forever or emit an "
        "invalid order)", loc(mod, sel))
    # dependency sources
    txt = " ".join(ast.unparse(func).split())
    sources = {
        "initial value": "get_input_parameters(read_write_info, "
                         "symbol.initial_value",
        "precision of literals in the initial value":
            "for lit in symbol.initial_value.walk(Literal)",
        "declared precision":
            "isinstance(symbol.datatype.precision, DataSymbol)",
        "array bounds": "symbol.datatype.shape",
    }
    calls = [c for c in ast.walk(func) if isinstance(c, ast.Call) and
             ast.unparse(c.func).endswith("get_input_parameters") and
             len(c.args) > 1 and
             ast.unparse(c.args[1]) == "symbol.initial_value"]
    shape_reads = bool(calls) and all(any(
        k.arg == "options" and "'COLLECT-ARRAY-SHAPE-READS': True" in
        ast.unparse(k.value) for k in c.keywords) for c in calls)
    run.check("C04.R1", shape_reads, cons,
              "dependencies from arrays used in inquiry functions",
              "the inputs of an initial value are collected without "
              "array-shape reads: `integer, parameter :: n = SIZE(a)` can "
              "be written before the declaration of the constant array a",
              loc(mod, func))
    sources = dict(sources)
    for what, frag in sources.items():
        run.check("C04.R1", frag in txt, cons, f"dependencies from {what}",
                  f"the {what} is no longer a source of declaration "
                  f"dependencies: e.g. `real(kind=wp), parameter :: x` "
                  f"could be written before `wp`", loc(mod, func))
    # each source may only be guarded by the test that makes it applicable
    ALLOWED_GUARDS = {
        "isinstance(lit.datatype.precision, DataSymbol)",
        "isinstance(symbol.datatype.precision, DataSymbol)",
        "isinstance(symbol.datatype, ArrayType)",
        "isinstance(dim, ArrayType.ArrayBounds)",
    }
    dep_loops = [s for s in func.body if isinstance(s, ast.For) and
                 ast.unparse(s.iter) == "local_constants"]
    if len(dep_loops) != 1:
        raise AnalysisError("_gen_parameter_decls: the loop collecting the "
                            "dependencies was not found")
    nsrc = 0

    def visit(stmts, guards):
        nonlocal nsrc
        for stmt in stmts:
            if isinstance(stmt, ast.If):
                test = stmt.test
                parts = test.values if isinstance(test, ast.BoolOp) and \
                    isinstance(test.op, ast.And) else [test]
                gtxt = [" ".join(ast.unparse(p).split()) for p in parts]
                visit(stmt.body, guards + gtxt)
                visit(stmt.orelse, guards + [f"not ({' and '.join(gtxt)})"])
            elif isinstance(stmt, ast.For):
                visit(stmt.body, guards)
            else:
                stxt = " ".join(ast.unparse(stmt).split())
                if "read_write_info.add_read(" in stxt or \
                        "get_input_parameters(read_write_info" in stxt:
                    nsrc += 1
                    extra = [g for g in guards if g not in ALLOWED_GUARDS]
                    run.check(
                        "C04.R1", not extra, cons,
                        f"dependency source not restricted "
                        f"({stxt[:60]})",
                        f"the dependency source '{stxt[:80]}' is only "
                        f"consulted when {extra}: for other constants "
                        f"(e.g. a constant array with a kind parameter) the "
                        f"dependency is lost and the constant can be "
                        f"declared before the symbol it needs",
                        loc(mod, stmt))
    visit(dep_loops[0].body, [])
    run.floor("dependency sources", nsrc, 4)
    run.check("C04.R1", "in local_constants" in txt and
              "decln_inputs[symbol.name].add(sig)" in txt, cons,
              "only local constants are ordering constraints",
              "dependencies are no longer restricted to / recorded for "
              "the local constants", loc(mod, func))
    # all local constants enter the worklist
    run.check("C04.R1", "if sym.is_constant: local_constants.append(sym)"
              in txt and "for sym in symbol_table.datasymbols" in txt, cons,
              "every local constant enters the worklist",
              "not every constant DataSymbol of the table is declared by "
              "the worklist", loc(mod, func))


def check_partition(idx, run):
    cls = idx.get_class(FW)
    func = cls.methods.get("gen_decls")
    if func is None:
        raise AnalysisError("gen_decls not found")
    mod = cls.module
    cons = "FortranWriter.gen_decls"
    txt = " ".join(ast.unparse(func).split())
    run.check("C04.R2", "all_symbols = symbol_table.symbols" in txt, cons,
              "worklist = all symbols of the table",
              "gen_decls no longer starts from all symbols of the table",
              loc(mod, func))
    # emission sites and their removal
    top = func.body
    emit_loops = []
    for stmt in top:
        if isinstance(stmt, ast.For):
            emits = [s for s in ast.walk(stmt) if isinstance(s, ast.AugAssign)
                     and ast.unparse(s.target) == "declarations"]
            if emits:
                emit_loops.append((stmt, emits))
    run.floor("declaration-emitting loops", len(emit_loops), 4)
    for k, (loop, emits) in enumerate(emit_loops):
        var = ast.unparse(loop.target)
        last = k == len(emit_loops) - 1
        removes = [c for c in ast.walk(loop) if isinstance(c, ast.Call) and
                   ast.unparse(c.func) == "all_symbols.remove" and
                   ast.unparse(c.args[0]) == var]
        if last:
            run.check("C04.R2", ast.unparse(loop.iter) == "all_symbols" and
                      not any(isinstance(s, (ast.If, ast.Continue))
                              for s in ast.walk(loop)), cons,
                      "everything that remains is declared",
                      "the final loop no longer declares every remaining "
                      "symbol unconditionally", loc(mod, loop))
        else:
            run.check("C04.R2", bool(removes), cons,
                      f"declared symbols leave the worklist "
                      f"({norm(loop)[:40]})",
                      f"the loop '{norm(loop)}' writes declarations but "
                      f"does not remove the symbol from the worklist: it "
                      f"would be declared a second time by a later loop",
                      loc(mod, loop))
    # constants are removed right after _gen_parameter_decls
    pidx = [k for k, st in enumerate(top)
            if "self._gen_parameter_decls(" in ast.unparse(st) and
            isinstance(st, ast.AugAssign) and
            ast.unparse(st.target) == "declarations"]
    const_removed = False
    if pidx:
        for st in top[pidx[0] + 1:]:
            if isinstance(st, ast.For) and ast.unparse(st.iter) in (
                    "all_symbols[:]", "list(all_symbols)"):
                for sub in ast.walk(st):
                    if isinstance(sub, ast.If) and "is_constant" in \
                            ast.unparse(sub.test) and "DataSymbol" in \
                            ast.unparse(sub.test) and any(
                                "all_symbols.remove(" in ast.unparse(b)
                                for b in sub.body):
                        const_removed = True
    run.check("C04.R2", bool(pidx) and const_removed, cons,
              "constants declared once",
              "constants written by _gen_parameter_decls are not removed "
              "from the worklist (declared twice) or are no longer written "
              "there", loc(mod, func))
    # order: parameters < arguments < derived types < rest
    def line_of(fragment):
        for stmt in top:
            if fragment in " ".join(ast.unparse(stmt).split()):
                return stmt.lineno
        return -1
    order = [line_of("self._gen_parameter_decls("),
             line_of("for symbol in symbol_table.argument_datasymbols"),
             line_of("self.gen_typedecl("),
             emit_loops[-1][0].lineno if emit_loops else -1]
    run.check("C04.R2", all(x > 0 for x in order) and order == sorted(order),
              cons, "constants, then arguments, then types, then variables",
              f"the declaration groups are emitted in the order {order} "
              f"(parameters must precede everything that can use them as "
              f"kind or bound)", loc(mod, func))
    # not-declared-here categories (frozen)
    skipped = []
    for stmt in top:
        if isinstance(stmt, ast.For):
            for sub in ast.walk(stmt):
                if isinstance(sub, ast.If) and any(
                        isinstance(c, ast.Call) and
                        ast.unparse(c.func) == "all_symbols.remove"
                        for b in sub.body for c in ast.walk(b)) and not any(
                            isinstance(s, ast.AugAssign)
                            for b in sub.body for s in ast.walk(b)):
                    skipped.append(" ".join(ast.unparse(sub.test).split()))
    allowed = {
        "isinstance(sym, ContainerSymbol)", "sym.is_import",
        "isinstance(sym, IntrinsicSymbol) or (isinstance(sym, "
        "RoutineSymbol) and isinstance(sym.interface, "
        "UnresolvedInterface))",
        "isinstance(sym.interface, PreprocessorInterface)",
        "isinstance(sym.interface, UnresolvedInterface)",
        "isinstance(sym, DataSymbol) and sym.is_constant",
    }
    extra = [s for s in skipped if s not in allowed]
    run.check("C04.R2", not extra, cons,
              "only the reviewed categories are left undeclared here",
              f"symbols are dropped from the declaration worklist under "
              f"{extra}: they would not be declared at all", loc(mod, func))
    # unresolved symbols need a wildcard import
    guard = [st for st in ast.walk(func) if isinstance(st, ast.If) and
             "unresolved_symbols" in ast.unparse(st.test) and
             "wildcard_imports()" in ast.unparse(st.test) and
             any(isinstance(b, ast.Raise) and "VisitorError" in
                 ast.unparse(b) for b in st.body)]
    run.check("C04.R2", bool(guard), cons,
              "unresolved symbols need a wildcard import",
              "unresolved symbols no longer stop the writer when no "
              "wildcard import could provide them", loc(mod, func))


def check_scope_merge(idx, run):
    cls = idx.get_class(FW)
    func = cls.methods.get("routine_node")
    if func is None:
        raise AnalysisError("routine_node not found")
    mod = cls.module
    cons = "FortranWriter.routine_node"
    cfg = CFG(func)
    merges = [n for n in cfg.stmt_nodes() if any(
        ast.unparse(c.func) == "whole_routine_scope.merge"
        for c in calls_at(n))]
    decls = [n for n in cfg.stmt_nodes() if any(
        ast.unparse(c.func) == "self.gen_decls" for c in calls_at(n))]
    run.check("C04.R3", bool(merges) and bool(decls), cons,
              "inner scopes merged through SymbolTable.merge",
              "routine_node no longer merges the inner schedules' tables "
              "with SymbolTable.merge (which renames clashes)",
              loc(mod, func))
    if merges and decls:
        arg = [ast.unparse(c.args[0]) for n in decls for c in calls_at(n)
               if ast.unparse(c.func) == "self.gen_decls"]
        run.check("C04.R3", arg == ["whole_routine_scope"], cons,
                  "declarations come from the merged table",
                  f"gen_decls is called with {arg}", loc(mod, func))
        loops = [s for s in ast.walk(func) if isinstance(s, ast.For) and
                 ast.unparse(s.iter) == "node.walk(Schedule)"]
        run.check("C04.R3", bool(loops) and any(
            any(x is merges[0].ast for x in ast.walk(l)) for l in loops),
            cons, "every schedule in the routine is merged",
            "the merge no longer runs over node.walk(Schedule)",
            loc(mod, func))
        from sa.obligations import iteration_skips
        bad = iteration_skips(func, "whole_routine_scope.merge(", [])
        run.check("C04.R3", not bad, cons,
                  "no schedule is skipped by the merge",
                  f"an iteration of the merge loop can finish without "
                  f"merging the schedule's table (tests on that path: "
                  f"{bad[:1]}): symbols of that inner scope would not be "
                  f"declared", loc(mod, func))
        dom = cfg.dominators().get(decls[0].id, set())
        lowering = [n for n in cfg.stmt_nodes() if n.kind == "test" and
                    "_DISABLE_LOWERING" in ast.unparse(n.ast.test)]
        run.check("C04.R3", bool(lowering) and lowering[0].id in dom, cons,
                  "merge happens before declarations",
                  "the scope merge does not precede gen_decls",
                  loc(mod, func))


def check_rename_guard(idx, run):
    """C04.R3: a symbol that is named inside a CodeBlock cannot be renamed
    (the text of the code block would keep the old name and resolve to
    whatever else is called that).  Symbol names are case-insensitive, code
    blocks keep the spelling of the source: the comparison has to normalise."""
    tcls = idx.get_class("psyclone.psyir.symbols.symbol_table.SymbolTable")
    func = tcls.methods.get("rename_symbol")
    if func is None:
        raise AnalysisError("SymbolTable.rename_symbol not found")
    mod = tcls.module
    loops = [s for s in ast.walk(func) if isinstance(s, ast.For) and
             "CodeBlock" in " ".join(ast.unparse(x) for x in ast.walk(func)
                                     if isinstance(x, ast.Assign) and
                                     ast.unparse(x.targets[0]) ==
                                     ast.unparse(s.iter))
             or isinstance(s, ast.For) and "walk(CodeBlock)" in
             ast.unparse(s.iter)]
    guards = []
    for loop in loops:
        for st in ast.walk(loop):
            if isinstance(st, ast.If) and any(
                    isinstance(b, ast.Raise) for b in ast.walk(st)) and \
                    isinstance(st.test, ast.Compare):
                guards.append((loop, st))
    run.check("C04.R3", bool(guards), "SymbolTable.rename_symbol",
              "a symbol named in a code block is not renamed",
              "rename_symbol no longer refuses to rename a symbol that "
              "occurs in a CodeBlock", loc(mod, func))
    for loop, st in guards:
        names = {n.id for n in ast.walk(st.test) if isinstance(n, ast.Name)}
        expanded = ast.unparse(st.test)
        for sub in ast.walk(func):
            if isinstance(sub, ast.Assign) and isinstance(
                    sub.targets[0], ast.Name) and sub.targets[0].id in names:
                expanded += " ; " + ast.unparse(sub.value)
        sides = expanded.count("_normalize(") + expanded.count(".lower()")
        run.check(
            "C04.R3", "get_symbol_names()" in expanded and sides >= 2,
            "SymbolTable.rename_symbol",
            "code-block names compared case-insensitively",
            f"the code-block guard '{ast.unparse(st.test)}' does not "
            f"normalise both the symbol's name and the names found in the "
            f"code block: `WRITE(*,*) Total` keeps referring to 'total' "
            f"after the local `total` was renamed to make room for an "
            f"inlined or merged symbol of that name (captured reference)",
            loc(mod, st))


def check_inlined_bounds(idx, run):
    """C04.R4: after inlining, every name the caller's routine references
    must be declared there.  The callee's formal arguments disappear, so
    each expression taken over from the callee - statements, but also the
    array bounds in the declarations of its locals and of its array
    arguments - has to go through the formal -> actual substitution."""
    cls = idx.get_class("InlineTrans")
    mod = cls.module
    app = cls.methods["apply"]
    atxt = " ".join(ast.unparse(app).split())
    # (a) declarations of the callee's locals that are merged into the caller
    touches_types = any(f in atxt for f in (
        ".datatype", ".shape", "ArrayBounds", "replace_symbols_using",
        "_replace_formal_args_in_types"))
    run.check(
        "C04.R4", touches_types, "InlineTrans.apply",
        "bounds of the callee's local arrays are rewritten in terms of the "
        "caller",
        "apply() substitutes the formal arguments only in the References "
        "found in the callee's *statements*; the datatypes of the symbols it "
        "merges into the caller are taken over as they are: a local "
        "`real :: tmp(n)` of `sub(x, n)` becomes `real, dimension(n) :: tmp` "
        "in the caller, where no `n` is declared", loc(mod, app))
    # (b) explicit bounds copied from the declaration of a formal array
    upd = cls.methods.get("_update_actual_indices")
    if upd is None:
        raise AnalysisError("InlineTrans._update_actual_indices not found")
    copies = [c for c in ast.walk(upd) if isinstance(c, ast.Call) and
              isinstance(c.func, ast.Attribute) and c.func.attr == "copy" and
              "local_shape" in ast.unparse(c.func.value)]
    utxt = " ".join(ast.unparse(upd).split())
    substituted = "_replace_formal_arg(" in utxt or "walk(Reference)" in utxt
    run.check(
        "C04.R4", not copies or substituted,
        "InlineTrans._update_actual_indices",
        "declared bounds of a formal array are substituted before use",
        f"{len(copies)} bound expression(s) of the formal argument's "
        f"declaration are copied into the caller without replacing the "
        f"formal arguments they mention: `x(:)` with `real :: x(n)` becomes "
        f"`a(:n)` in the caller, where `n` does not exist",
        loc(mod, upd))



GUARDED = [
    ("psyclone.psyir.backend.fortran.FortranWriter", "gen_decls"),
    ("psyclone.psyir.backend.fortran.FortranWriter", "_gen_parameter_decls"),
    ("psyclone.psyir.backend.fortran.FortranWriter", "gen_vardecl"),
    ("psyclone.psyir.backend.fortran.FortranWriter", "routine_node"),
]

def check_attach_and_bring_in(idx, run):
    # the unified table is attached to the routine as soon as the routine's
    # own table has been merged: only then do the names chosen for clashing
    # inner symbols avoid those of the enclosing container
    cls = idx.get_class(FW)
    func = cls.methods["routine_node"]
    mod = cls.module
    routine = func.args.args[1].arg
    ok = False
    nloops = 0
    for loop in ast.walk(func):
        if not isinstance(loop, ast.For) or \
                not isinstance(loop.target, ast.Name):
            continue
        merged = [c.func.value for c in ast.walk(loop)
                  if isinstance(c, ast.Call) and
                  isinstance(c.func, ast.Attribute) and
                  c.func.attr == "merge"]
        if not merged:
            continue
        nloops += 1
        tables = {ast.unparse(m) for m in merged}
        for st in ast.walk(loop):
            if not (isinstance(st, ast.If) and
                    isinstance(st.test, ast.Compare) and
                    len(st.test.ops) == 1 and
                    isinstance(st.test.ops[0], (ast.Is, ast.Eq))):
                continue
            sides = {ast.unparse(st.test.left),
                     ast.unparse(st.test.comparators[0])}
            aliases = {loop.target.id} | {
                a.targets[0].id for a in ast.walk(loop)
                if isinstance(a, ast.Assign) and len(a.targets) == 1 and
                isinstance(a.targets[0], ast.Name) and
                ast.unparse(a.value) == loop.target.id}
            if routine not in sides or not (sides - {routine}) <= aliases \
                    or len(sides) != 2:
                continue
            for c in ast.walk(st):
                if isinstance(c, ast.Call) and \
                        isinstance(c.func, ast.Attribute) and \
                        c.func.attr == "attach" and \
                        ast.unparse(c.func.value) in tables and \
                        [ast.unparse(a) for a in c.args] == [routine]:
                    ok = True
    if not nloops:
        raise AnalysisError("FortranWriter.routine_node: the loop that "
                            "merges the inner symbol tables was not found")
    run.check("C04.R3", ok, "FortranWriter.routine_node",
              "the merged table is attached before inner scopes are merged",
              "whole_routine_scope is not attached to the routine right "
              "after the routine's own table was merged: while the inner "
              "scopes are merged the new table has no enclosing scope, so a "
              "renamed inner symbol can take the name of a module variable "
              "the routine uses", loc(mod, func))
    # module-inlining: what the declarations of the copied symbols need
    kcls = idx.get_class("KernelModuleInlineTrans")
    kfunc = None
    for f in kcls.methods.values():
        if "symbols_to_bring_in.add(symbol.datatype.precision)" in \
                " ".join(ast.unparse(f).split()):
            kfunc = f
    if kfunc is None:
        raise AnalysisError("KernelModuleInlineTrans: the code that brings "
                            "in precision symbols was not found")
    # every If enclosing the add() whose test looks at symbol.datatype is
    # evaluated for a scalar and for an array type (three-valued: a test that
    # is not understood is taken to admit the type)
    def admits(test, tname):
        tcls = idx.get_class(tname)
        if isinstance(test, ast.BoolOp):
            vals = [admits(v, tname) for v in test.values]
            if isinstance(test.op, ast.And):
                return False if False in vals else (
                    None if None in vals else True)
            return True if True in vals else (
                None if None in vals else False)
        if isinstance(test, ast.UnaryOp) and isinstance(test.op, ast.Not):
            val = admits(test.operand, tname)
            return None if val is None else not val
        if isinstance(test, ast.Call) and isinstance(test.func, ast.Name) \
                and len(test.args) == 2 and \
                ast.unparse(test.args[0]) == "symbol.datatype":
            if test.func.id == "hasattr" and \
                    isinstance(test.args[1], ast.Constant):
                attr = test.args[1].value
                return any(attr in c.methods or attr in c.attrs
                           for c in idx.mro(tcls)) or any(
                    isinstance(n, ast.Attribute) and n.attr in
                    (attr, "_" + attr) and isinstance(n.ctx, ast.Store)
                    for c in idx.mro(tcls) for n in ast.walk(c.node))
            if test.func.id == "isinstance":
                types = test.args[1].elts if isinstance(
                    test.args[1], ast.Tuple) else [test.args[1]]
                names = [ast.unparse(t).split(".")[-1] for t in types]
                return any(idx.is_subclass(tcls, n) for n in names)
        return None

    def enclosing(node, target, trail):
        for child in ast.iter_child_nodes(node):
            if child is target:
                return trail
            sub = trail
            if isinstance(node, ast.If) and child in node.body:
                sub = trail + [(node, True)]
            elif isinstance(node, ast.If) and child in node.orelse:
                sub = trail + [(node, False)]
            res = enclosing(child, target, sub)
            if res is not None:
                return res
        return None

    adds = [c for c in ast.walk(kfunc) if isinstance(c, ast.Call) and
            " ".join(ast.unparse(c).split()) ==
            "symbols_to_bring_in.add(symbol.datatype.precision)"]
    for add in adds:
        for tname in ("ScalarType", "ArrayType"):
            blocked = None
            for ifnode, branch in enclosing(kfunc, add, []) or []:
                if "symbol.datatype" not in ast.unparse(ifnode.test) or \
                        "symbol.datatype.precision" in \
                        ast.unparse(ifnode.test):
                    continue
                val = admits(ifnode.test, tname)
                if val is not None and val != branch:
                    blocked = ifnode
            run.check(
                "C04.R4", blocked is None,
                f"KernelModuleInlineTrans.{kfunc.name} [{tname}]",
                "the kind parameter of every typed symbol is brought in",
                f"the precision symbol of a symbol whose type is a {tname} "
                f"is not brought into the container (test '"
                f"{ast.unparse(blocked.test) if blocked else ''}'): its "
                f"declaration, e.g. real(kind=wp), then names a kind "
                f"parameter that is undeclared in the new scope",
                loc(kcls.module, blocked or add))


def check_psy_layer_face_counts(idx, run):
    """Generated PSy layers: DynReferenceElement assigns nfaces_re_h whenever
    a reference-element property *or a mesh property* (adjacent_face) needs
    it.  The argument-property table only knows the first reason, so every
    branch of _invoke_declarations that builds the list of declared scalars
    has to consult the second one (_nfaces_h_required) as well."""
    cls = idx.get_class("psyclone.dynamo0p3.DynReferenceElement")
    init = cls.methods.get("__init__")
    decl = cls.methods.get("_invoke_declarations")
    assign = cls.methods.get("initialise")
    if not (init and decl and assign):
        raise AnalysisError("DynReferenceElement: __init__ / initialise / "
                            "_invoke_declarations not found")
    needed = any(isinstance(n, ast.Attribute) and
                 n.attr == "_nfaces_h_required" for n in ast.walk(init)) \
        and "_nfaces_h_symbol" in ast.unparse(assign)
    if not needed:
        raise AnalysisError("DynReferenceElement: nfaces_re_h is no longer "
                            "assigned for a mesh property; rule is stale")
    count = 0

    def branches(ifnode):
        yield ifnode.test, ifnode.body
        if len(ifnode.orelse) == 1 and isinstance(ifnode.orelse[0], ast.If):
            yield from branches(ifnode.orelse[0])
    for stmt in decl.body:
        if not isinstance(stmt, ast.If):
            continue
        for test, body in branches(stmt):
            sets = any(isinstance(a, ast.Assign) and
                       ast.unparse(a.targets[0]) == "nface_vars"
                       for b in body for a in ast.walk(b))
            if not sets:
                continue
            count += 1
            txt = ast.unparse(test) + " " + " ".join(
                ast.unparse(b) for b in body)
            run.check("C04.R6", "_nfaces_h_required" in txt,
                      f"DynReferenceElement._invoke_declarations "
                      f"[if {ast.unparse(test)[:40]}]",
                      "nfaces_re_h is declared whenever it is assigned",
                      f"the branch `if {ast.unparse(test)[:60]}` builds the "
                      f"list of declared face counts without looking at "
                      f"_nfaces_h_required: a kernel with the mesh property "
                      f"adjacent_face and only vertical-face reference-"
                      f"element properties gets `nfaces_re_h = ...` and the "
                      f"argument nfaces_re_h in a PSy layer that never "
                      f"declares it", loc(cls.module, test))
    run.floor("branches declaring reference-element face counts", count, 2)


def check(idx, run):
    run.explanation = __doc__
    check_psy_layer_face_counts(idx, run)
    from sa.guards import check_guards
    check_guards(idx, run, "C04.R5", GUARDED)
    check_params(idx, run)
    check_partition(idx, run)
    check_scope_merge(idx, run)
    check_rename_guard(idx, run)
    check_inlined_bounds(idx, run)
    check_attach_and_bring_in(idx, run)
    run.assumptions = ["SymbolTable.merge renames correctly (C16)",
                       "nothing is compiled"]
