"""C06 - array-syntax and intrinsic lowering preserve semantics (obligation
table only: the validate() methods still perform the checks they are
documented to perform, on every accepting path).  Values computed by the
generated loops, and overlap of LHS and RHS sections, are not decided."""
import ast
from sa.index import AnalysisError, loc
from sa.obligations import check_table

LEVEL = "other"
MANIFEST = {
    "level": "other",
    "text": "Obligation table for the array-notation and intrinsic "
            "lowering transformations: every validate() keeps its refusals "
            "and reaches its shape / type / context checks on every "
            "accepting path; nested transformations applied by apply() "
            "are pre-validated or guarded (shared with C26). Decides that "
            "the documented guards are executed for every target.",
    "note": "R2 shows that overlapping sections (a(2:n)=a(1:n-1)) have no "
            "guard (known finding C06-a, confirmed input). The values "
            "computed by the generated code, signed zeros / NaNs are NOT "
            "decided.",
    "technique": "must-pass-through over a reviewed obligation table + refusal-weakening check against the reviewed guard snapshot",
}
TABLE = {
    ("ArrayAssignment2LoopsTrans", "validate"): {
        "raises": 10,
        "consults": [
            ("node.lhs.walk(Range)", "looking for the array ranges of the "
             "LHS"),
            ("node.walk(ArrayMixin)", "comparing the number of ranges of "
             "all array accesses"),
            ("node.walk(CodeBlock)", "refusing code blocks"),
            ("node.walk(Range)", "refusing nested ranges"),
            ("node.walk((Literal, Reference))", "refusing character data",
             ("allow_string",)),
            ("node.rhs.walk(Call)", "checking the calls on the RHS"),
            ("node.walk(Reference, stop_type=Reference)", "checking the "
             "type of every reference"),
        ],
        "contains": [
            ("not call.is_elemental", "non-elemental calls on the RHS "
             "must be refused"),
            ("CodeBlock", "code blocks must be refused"),
        ],
    },
    ("Reference2ArrayRangeTrans", "validate"): {"raises": 4},
    ("ArrayAccess2LoopTrans", "validate"): {
        "raises": 7,
        "consults": [("sym_maths.equal(", "comparing the index with the "
                      "accesses on the RHS")],
    },
    ("AllArrayAccess2LoopTrans", "validate"): {"raises": 1},
    ("Intrinsic2CodeTrans", "validate"): {
        "raises": 3,
        "consults": [("node.ancestor(Assignment)", "requiring an enclosing "
                      "assignment")],
    },
    ("DotProduct2CodeTrans", "validate"): {
        "raises": 5,
        "consults": [("super().validate(", "the generic intrinsic checks"),
                     (".is_full_range(", "checking that array sections "
                      "cover the full dimension")],
    },
    ("Matmul2CodeTrans", "validate"): {
        "raises": 14,
        "consults": [("super().validate(", "the generic intrinsic checks"),
                     ("result.symbol in (matrix1.symbol, matrix2.symbol)",
                      "refusing a result that aliases an operand")],
        "contains": [
            ("matrix1.is_full_range(", "sections of the first matrix "
             "must be full ranges"),
            ("not matrix2.is_full_range(0)", "sections of the second "
             "argument must be full ranges"),
            ("not result.is_full_range(idx)", "sections of the result "
             "must be full ranges"),
        ],
    },
    ("ArrayReductionBaseTrans", "validate"): {
        "raises": 8,
        "consults": [("self._get_args(", "extracting array / dim / mask"),
                     ("node.ancestor(Assignment)", "requiring an enclosing "
                      "assignment"),
                     ("assignment.lhs.walk(", "refusing the intrinsic on "
                      "the left-hand side")],
    },
}



GUARDED = [
    ('ArrayAssignment2LoopsTrans', 'validate'),
    ('Reference2ArrayRangeTrans', 'validate'),
    ('ArrayAccess2LoopTrans', 'validate'),
    ('Intrinsic2CodeTrans', 'validate'),
    ('DotProduct2CodeTrans', 'validate'),
    ('Matmul2CodeTrans', 'validate'),
    ('ArrayReductionBaseTrans', 'validate'),
]

def check(idx, run):
    run.explanation = __doc__
    from sa.guards import check_guards
    check_guards(idx, run, "C06.R4", GUARDED)
    check_table(idx, run, "C06.R1", TABLE)
    # subclasses that override validate chain to the base checks
    base = idx.get_class("Intrinsic2CodeTrans")
    for cls in idx.all_subclasses(base, include_self=False):
        func = cls.methods.get("validate")
        if func is None:
            continue
        txt = ast.unparse(func)
        run.check("C06.R1", "super().validate(" in txt or
                  "super(" in txt and ").validate(" in txt,
                  f"{cls.name}.validate", "chains to Intrinsic2CodeTrans",
                  f"{cls.name}.validate does not call the base-class "
                  f"checks (intrinsic kind, enclosing assignment)",
                  loc(cls.module, func))
    # R2: Fortran evaluates the whole right-hand side before it assigns; an
    # element-by-element loop is only equivalent when the array assigned to
    # is not read at *other* elements on the right-hand side.
    acls = idx.get_class("ArrayAssignment2LoopsTrans")
    vfunc = acls.methods["validate"]
    vtxt = " ".join(ast.unparse(vfunc).split())
    facts = ("node.lhs.symbol", "lhs.name", "lhs.get_signature",
             "DependencyTools", "VariablesAccessInfo", "is_same_array",
             "same_array", "overlap")
    run.check(
        "C06.R2", any(f in vtxt for f in facts),
        "ArrayAssignment2LoopsTrans.validate",
        "the assigned array read with other subscripts on the right-hand "
        "side is refused",
        "validate never relates the array on the left-hand side to the "
        "references on the right-hand side: `a(2:n) = a(1:n-1)` is turned "
        "into `do idx=2,n: a(idx) = a(idx-1)`, which copies a(1) into every "
        "element, whereas the array assignment shifts a by one",
        loc(acls.module, vfunc))
    # R3: the reduction is accumulated directly in the result variable only
    # when the right-hand side does not read that variable at all - any
    # other element of the same array may be the one being assigned
    rcls = idx.get_class("ArrayReductionBaseTrans")
    rapp = rcls.methods["apply"]
    loops = [f for f in ast.walk(rapp) if isinstance(f, ast.For) and
             "rhs.walk(Reference)" in ast.unparse(f.iter)]
    tests = [st for f in loops for st in f.body if isinstance(st, ast.If) and
             any(isinstance(a, ast.Assign) and
                 isinstance(a.value, ast.Constant) and a.value.value is True
                 for a in st.body)]
    if len(tests) != 1 or not isinstance(tests[0].test, ast.Compare):
        raise AnalysisError("ArrayReductionBaseTrans.apply: the test that "
                            "decides whether a temporary accumulator is "
                            "needed was not found")
    cmp_ = tests[0].test
    sides = [cmp_.left, cmp_.comparators[0]]
    expanded = []
    for side in sides:
        txt = ast.unparse(side)
        if isinstance(side, ast.Name):
            for a in ast.walk(rapp):
                if isinstance(a, ast.Assign) and \
                        ast.unparse(a.targets[0]) == side.id:
                    txt = ast.unparse(a.value)
        expanded.append(txt)
    by_symbol = all(t.endswith(".symbol") or t.endswith(".symbol.name") or
                    t.endswith(".name") for t in expanded)
    run.check(
        "C06.R3", by_symbol, "ArrayReductionBaseTrans.apply",
        "a temporary accumulator is used whenever the result's symbol is "
        "read on the right-hand side",
        f"the need for a temporary is decided by "
        f"'{ast.unparse(cmp_)}' ({expanded}), which is not a comparison of "
        f"symbols: `x(1) = 2.0*sum(x(:))` then accumulates into x(1) while "
        f"x(1) is still being read (x(1) = 0.0; do: x(1) = x(1) + x(idx))",
        loc(rcls.module, tests[0]))
    # R3b: when the reduction was accumulated in a temporary, the temporary
    # reaches the original left-hand side on every path
    from sa.cfg import CFG
    cfg = CFG(rapp)
    flag = None
    for a in ast.walk(rapp):
        if isinstance(a, ast.Assign) and isinstance(a.value, ast.Constant) \
                and a.value.value is True and any(
                    a is x for t in tests for x in ast.walk(t)):
            flag = ast.unparse(a.targets[0])
    marks = {n.id for n in cfg.stmt_nodes() if
             "Assignment.create(orig_lhs.copy()" in ast.unparse(n.ast)
             and not isinstance(n.ast, (ast.If, ast.For, ast.While))}
    missing = None
    if flag and marks:
        for path in cfg.paths(limit=40000):
            if path[-1][0] is not cfg.exit:
                continue
            vals = {lab for n, lab in path if n.kind == "test" and
                    isinstance(n.ast, ast.If) and
                    ast.unparse(n.ast.test) == flag}
            if vals != {"true"}:
                continue    # the flag is false (or the path is infeasible)
            if not any(n.id in marks for n, _ in path):
                missing = [f"{n.lineno}:{lab}" for n, lab in path
                           if n.kind == "test"][-4:]
                break
    run.check(
        "C06.R3", bool(flag) and bool(marks) and missing is None,
        "ArrayReductionBaseTrans.apply",
        "a temporary accumulator is always assigned to the original "
        "left-hand side",
        f"when the reduction is accumulated in a temporary, apply() can "
        f"finish without generating `<lhs> = ...tmp...` (path {missing}): "
        f"`x(1) = sum(x(:))` leaves x(1) unassigned",
        loc(rcls.module, rapp))
    run.assumptions = ["beyond R2, values computed by the generated code "
                       "are not decided"]
