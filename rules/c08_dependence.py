"""C08 - loops reported parallelisable have no loop-carried dependence.

Decided clauses (necessary conditions, visible in the code's shape):
R1 loop-progress        every `while` loop the analysis can reach makes
                        progress on every path (termination hazard scan).
R2 verdict-propagation  "not parallelisable" sub-results can never turn into
                        a True verdict on any path.
R3 none-is-dependent    every non-integer outcome of the distance computation
                        is None and callers only accept `== 0`.
R4 scalar-facts         the scalar rule must consult control-flow context of
                        the first write (a write under a condition does not
                        privatise the scalar).
"""
import ast
from sa.index import AnalysisError, loc, norm
from sa.cfg import CFG, calls_at
from sa.effects import Effects, FuncRef
from sa.progress import check_while

LEVEL = "other"
MANIFEST = {
    "level": "other",
    "text": "Path rules over the dependency analysis: (R1) a progress "
            "variant is found for every while loop in the call-graph "
            "closure of can_loop_be_parallelised / independent_iterations "
            "and in the anchor modules, on every path through the body; "
            "(R2) path enumeration shows that a falsy sub-verdict always "
            "reaches `return False` / `result = False`, that True is "
            "returned only after exhausting all access pairs or under "
            "`distance == 0` / a proven-independent subscript; (R3) every "
            "non-integer outcome of the distance solver maps to None; (R4) "
            "the inputs of the scalar decision are compared with what the "
            "property's exception clause needs. These hold for all loops, "
            "which a test sample cannot show.",
    "note": "Decides termination hazards and verdict plumbing, not the "
            "soundness of the subscript tests themselves (integer division, "
            "MOD, index arrays): that is a statement about all Fortran "
            "loops. SymPy is trusted.",
    "technique": "call-graph closure + per-loop progress-variant analysis "
                 "on CFG paths + decision-path enumeration with polarity",
}
DT = "psyclone.psyir.tools.dependency_tools.DependencyTools"
ANCHOR_MODULES = [
    "src/psyclone/psyir/tools/dependency_tools.py",
    "src/psyclone/core/symbolic_maths.py",
    "src/psyclone/core/variables_access_info.py",
    "src/psyclone/core/single_variable_access_info.py",
    "src/psyclone/core/component_indices.py",
    "src/psyclone/core/signature.py",
    "src/psyclone/psyir/backend/sympy_writer.py",
    "src/psyclone/psyir/frontend/sympy_reader.py",
]

# while loops reviewed by reading whose variant the generic rule cannot see
REVIEWED_LOOPS = {
}


def closure(idx, eff, roots):
    seen = {}
    todo = list(roots)
    while todo:
        fref = todo.pop()
        if fref.key in seen:
            continue
        seen[fref.key] = fref
        for call in ast.walk(fref.node):
            if isinstance(call, ast.Call):
                targets, _ = eff.resolve(fref, call)
                todo.extend(targets)
    return seen


def check_progress(idx, run, eff):
    cls = idx.get_class(DT)
    roots = [FuncRef(cls.module, cls,
                     cls.methods["can_loop_be_parallelised"])]
    lcls = idx.get_class("psyclone.psyir.nodes.loop.Loop")
    if "independent_iterations" not in lcls.methods:
        raise AnalysisError("Loop.independent_iterations not found")
    roots.append(FuncRef(lcls.module, lcls,
                         lcls.methods["independent_iterations"]))
    funcs = closure(idx, eff, roots)
    for rel in ANCHOR_MODULES:
        mod = idx.module(rel)
        for kls in mod.classes.values():
            for table in (kls.methods, kls.setters):
                for fn in table.values():
                    funcs.setdefault(id(fn), FuncRef(mod, kls, fn))
        for fn in mod.functions.values():
            funcs.setdefault(id(fn), FuncRef(mod, None, fn))
    run.count("functions in the closure", len(funcs))
    nloops = 0
    for fref in funcs.values():
        loops = [w for w in ast.walk(fref.node) if isinstance(w, ast.While)]
        if not loops:
            continue
        cfg = CFG(fref.node)
        for loop in loops:
            nloops += 1
            hazards = check_while(fref.node, loop, cfg)
            key = f"{fref.qname}|{norm(loop.test)}"
            if key in REVIEWED_LOOPS:
                run.ob("C08.R1", True, {"rule": "C08.R1", "loop": key,
                                        "reviewed": REVIEWED_LOOPS[key]})
                continue
            run.check(
                "C08.R1", not hazards, fref.qname,
                f"while {norm(loop.test)}",
                f"the loop 'while {norm(loop.test)}' may not terminate: "
                f"{hazards[0][1] if hazards else ''}",
                loc(fref.module, loop),
                sample={"rule": "C08.R1", "function": fref.qname,
                        "loop": norm(loop.test), "ok": not hazards})
    run.floor("while loops examined", nloops, 4)
    # recursion cycles inside the closure are listed
    rec = []
    for fref in funcs.values():
        for call in ast.walk(fref.node):
            if isinstance(call, ast.Call):
                targets, _ = eff.resolve(fref, call)
                if any(t.key == fref.key for t in targets):
                    rec.append(fref.qname)
    run.extra["directly_recursive_functions_in_closure"] = sorted(set(rec))


# ----------------------------------------------------------------------
def own(idx, meth):
    cls = idx.get_class(DT)
    if meth not in cls.methods:
        raise AnalysisError(f"DependencyTools.{meth} not found")
    return cls, cls.methods[meth]


def ret_value(node):
    if isinstance(node.ast, ast.Return) and node.kind == "stmt":
        val = node.ast.value
        if isinstance(val, ast.Constant):
            return val.value
        return ast.unparse(val) if val is not None else None
    return "<none>"


def check_verdicts(idx, run):
    cls = idx.get_class(DT)
    mod = cls.module
    # ---- can_loop_be_parallelised --------------------------------------
    _, func = own(idx, "can_loop_be_parallelised")
    cfg = CFG(func)
    cons = "DependencyTools.can_loop_be_parallelised"
    # par_able definitions
    defs = [s for s in ast.walk(func) if isinstance(s, ast.Assign) and
            ast.unparse(s.targets[0]) == "par_able"]
    dtxt = sorted(ast.unparse(d.value.func) if isinstance(d.value, ast.Call)
                  else ast.unparse(d.value) for d in defs)
    run.check("C08.R2", dtxt == ["self._array_access_parallelisable",
                                 "self._is_scalar_parallelisable"], cons,
              "verdict comes from the array or the scalar test",
              f"par_able is defined from {dtxt}: every variable must flow "
              f"into exactly one of the two access tests", loc(mod, func))
    # the branch chooses on is_array
    # skip conditions
    skips = []
    for stmt in ast.walk(func):
        if isinstance(stmt, ast.If) and any(isinstance(b, ast.Continue)
                                            for b in stmt.body):
            skips.append(ast.unparse(stmt.test))
    allowed = {"var_string in loop_vars", "signature in signatures_to_ignore"}
    run.check("C08.R2", set(skips) <= allowed and len(skips) <= 2, cons,
              "only loop variables and ignored signatures are skipped",
              f"variables are skipped under {sorted(set(skips) - allowed)}: "
              f"their accesses are never tested for dependences",
              loc(mod, func))
    npaths = 0
    bad = None
    for path in cfg.paths(limit=20000):
        last = path[-1][0]
        if last is not cfg.exit:
            continue
        npaths += 1
        saw_false = False
        result_false = False
        retval = None
        for node, label in path:
            if node.ast is None:
                continue
            if node.kind == "test" and isinstance(node.ast, ast.If) and \
                    ast.unparse(node.ast.test) == "not par_able" and \
                    label == "true":
                saw_false = True
            if node.kind == "stmt" and isinstance(node.ast, ast.Assign) and \
                    ast.unparse(node.ast.targets[0]) == "result":
                result_false = (isinstance(node.ast.value, ast.Constant) and
                                node.ast.value.value is False)
            if node.kind == "stmt" and isinstance(node.ast, ast.Return):
                retval = ret_value(node)
        if saw_false and not (retval is False or
                              (retval == "result" and result_false)):
            bad = retval
    run.check("C08.R2", bad is None and npaths > 0, cons,
              "a failed variable forces the verdict False",
              f"a path on which a variable was found not parallelisable "
              f"returns '{bad}'", loc(mod, func))
    run.count("decision paths enumerated", npaths)
    # ---- _array_access_parallelisable ------------------------------------
    _, func = own(idx, "_array_access_parallelisable")
    cons = "DependencyTools._array_access_parallelisable"
    cfg = CFG(func)
    fors = [s for s in func.body if isinstance(s, ast.For)]
    ok = len(fors) == 1 and any(isinstance(s, ast.For)
                                for s in fors[0].body)
    inner = [s for s in fors[0].body if isinstance(s, ast.For)] if fors \
        else []
    it_ok = ok and inner and ast.unparse(inner[0].iter) == "var_info" and \
        "all_write_accesses" in ast.unparse(fors[0].iter) + " ".join(
            ast.unparse(s) for s in func.body if isinstance(s, ast.Assign))
    run.check("C08.R2", bool(it_ok), cons,
              "every write is compared with every access",
              "the pair loop no longer compares each write access with all "
              "accesses of the variable", loc(mod, func))
    bad_true = []
    bad_false = []
    for path in cfg.paths(limit=20000):
        if path[-1][0] is not cfg.exit:
            continue
        retnode = [n for n, _ in path if n.kind == "stmt" and
                   isinstance(n.ast, ast.Return)]
        if not retnode:
            continue
        val = ret_value(retnode[-1])
        tests = [(ast.unparse(n.ast.test), lab) for n, lab in path
                 if n.kind == "test" and isinstance(n.ast, ast.If)]
        fors_taken = [(n, lab) for n, lab in path if n.kind == "for"]
        dep_found = any(t.startswith("not self._is_loop_carried_dependency(")
                        and lab == "true" for t, lab in tests)
        if dep_found and val is not False:
            bad_false.append(val)
        if val is True:
            readonly = ("var_info.is_read_only()", "true") in tests
            exhausted = bool(fors_taken) and fors_taken[-1][1] == "false" \
                and fors_taken[-1][0].ast is fors[0]
            if not (readonly or exhausted):
                bad_true.append(tests)
    run.check("C08.R2", not bad_false, cons,
              "a dependent pair forces False",
              "after a pair was found dependent the function can return "
              f"{bad_false[:1]}", loc(mod, func))
    run.check("C08.R2", not bad_true, cons,
              "True only for read-only or after all pairs",
              "True can be returned before every write/access pair was "
              "examined", loc(mod, func))
    # ---- _is_loop_carried_dependency / _independent_multi_subscript -------
    for meth, allowed_guards in (
            ("_is_loop_carried_dependency",
             {"indep": ("self._independent_0_var",
                        "self._independent_multi_subscript"),
              "distance == 0": ("self._get_dependency_distance",)}),
            ("_independent_multi_subscript",
             {"distance == 0": ("DependencyTools._get_dependency_distance",
                                "self._get_dependency_distance")})):
        _, func = own(idx, meth)
        cons = f"DependencyTools.{meth}"
        cfg = CFG(func)
        ntrue = 0
        for path in cfg.paths(limit=20000):
            if path[-1][0] is not cfg.exit:
                continue
            rets = [(k, n) for k, (n, _) in enumerate(path)
                    if n.kind == "stmt" and isinstance(n.ast, ast.Return)]
            if not rets:
                # falling off the end returns None (falsy): fine
                continue
            k, rnode = rets[-1]
            val = ret_value(rnode)
            if val is not True:
                if val not in (False, None):
                    run.check("C08.R2", False, cons, f"returns {val}",
                              f"returns a non-constant verdict '{val}'",
                              loc(mod, rnode.ast))
                continue
            ntrue += 1
            # the closest preceding test on the path
            prev = [(n, lab) for n, lab in path[:k]
                    if n.kind == "test" and isinstance(n.ast, ast.If)]
            good = False
            if prev:
                tnode, lab = prev[-1]
                ttxt = ast.unparse(tnode.ast.test)
                if lab == "true" and ttxt in allowed_guards:
                    var = ttxt.split(" ")[0]
                    # reaching definition on this path
                    dnodes = [n for n, _ in path[:k] if n.kind == "stmt" and
                              isinstance(n.ast, ast.Assign) and
                              ast.unparse(n.ast.targets[0]) == var]
                    if dnodes and isinstance(dnodes[-1].ast.value, ast.Call) \
                            and ast.unparse(dnodes[-1].ast.value.func) in \
                            allowed_guards[ttxt]:
                        good = True
            # the test applied must fit the class of subscript: the
            # constant-subscript test only when NO loop variable occurs,
            # the distance test only for exactly one loop variable
            if good and meth == "_is_loop_carried_dependency":
                pth = [(ast.unparse(n.ast.test), lab) for n, lab in path[:k]
                       if n.kind == "test" and isinstance(n.ast, ast.If)]
                src = ast.unparse(dnodes[-1].ast.value.func)
                need = None
                if src.endswith("_independent_0_var"):
                    need = ("len(set_of_vars) == 0", "true")
                elif src.endswith("_get_dependency_distance"):
                    need = ("len(set_of_vars) == 1", "true")
                elif src.endswith("_independent_multi_subscript"):
                    need = ("len(subscripts) == 1", "false")
                if need is not None and need not in pth:
                    good = False
                    run.finding(
                        "C08.R2", cons,
                        f"{src.split('.')[-1]} used outside its case",
                        f"{src.split('.')[-1]} decides independence on a "
                        f"path that is not guarded by `{need[0]}` being "
                        f"{need[1]}: e.g. the constant-subscript test "
                        f"applied to subscripts that still contain an "
                        f"inner loop variable treats b(j,i)/b(j-1,i-1) as "
                        f"never overlapping", loc(mod, rnode.ast))
            run.check(
                "C08.R2", good, cons, "True only under an independence "
                "proof", f"a path returns True (independent) that is not "
                f"guarded by `distance == 0` from _get_dependency_distance "
                f"or by a truthy independence test; last guard: "
                f"{ast.unparse(prev[-1][0].ast.test) if prev else 'none'}",
                loc(mod, rnode.ast))
        run.floor(f"{meth} True-returning paths", ntrue, 1)
        # default is False
        last = [s for s in func.body if isinstance(s, ast.Return)]
        run.check("C08.R2", bool(last) and isinstance(
            last[-1].value, ast.Constant) and last[-1].value.value is False,
            cons, "default verdict is dependent",
            "the fall-through verdict is not False", loc(mod, func))
    # ---- _independent_0_var ----------------------------------------------
    _, func = own(idx, "_independent_0_var")
    cons = "DependencyTools._independent_0_var"
    trues = [s for s in ast.walk(func) if isinstance(s, ast.Return) and
             isinstance(s.value, ast.Constant) and s.value.value is True]
    ok = True
    for ret in trues:
        parent_if = [s for s in ast.walk(func) if isinstance(s, ast.If) and
                     ret in s.body]
        ok = ok and bool(parent_if) and ast.unparse(
            parent_if[0].test).endswith(
                "never_equal(index_exp1, index_exp2)")
    run.check("C08.R2", ok and len(trues) == 1, cons,
              "independent only if never_equal",
              "two subscripts without loop variable are called independent "
              "without a never_equal proof", loc(mod, func))


def check_distance(idx, run):
    """R3: every non-integer outcome returns None; callers only use == 0."""
    cls, func = own(idx, "_get_dependency_distance")
    mod = cls.module
    cons = "DependencyTools._get_dependency_distance"
    nonnone = []
    for ret in [s for s in ast.walk(func) if isinstance(s, ast.Return)]:
        if ret.value is None or (isinstance(ret.value, ast.Constant) and
                                 ret.value.value is None):
            continue
        nonnone.append(ret)
    run.check("C08.R3", len(nonnone) == 1, cons,
              "a single non-None return",
              f"{len(nonnone)} return statements yield a distance; exactly "
              f"one (the integer solution) is expected", loc(mod, func))
    if nonnone:
        ret = nonnone[0]
        sol = ast.unparse(ret.value)
        # guards that must precede it (as `if <cond>: return None`)
        need = {
            f"var in {sol}.free_symbols": "solution still depends on the "
            "loop variable",
            f"not isinstance({sol}, sympy.Integer)": "non-integer solution",
        }
        conds = []
        for stmt in ast.walk(func):
            if isinstance(stmt, ast.If) and len(stmt.body) == 1 and \
                    isinstance(stmt.body[0], ast.Return) and (
                        stmt.body[0].value is None or
                        (isinstance(stmt.body[0].value, ast.Constant) and
                         stmt.body[0].value.value is None)):
                conds.append(ast.unparse(stmt.test))
        for cond, why in need.items():
            run.check("C08.R3", cond in conds, cons, f"None when {why}",
                      f"the case '{why}' no longer returns None "
                      f"(guard `{cond}` missing)", loc(mod, ret))
        # and it must sit under `len(solutions) == 1`
        outer = [s for s in ast.walk(func) if isinstance(s, ast.If) and
                 any(ret is x for x in ast.walk(s))]
        run.check("C08.R3", any(ast.unparse(o.test) == "len(solutions) == 1"
                                for o in outer), cons,
                  "None for several solutions",
                  "a distance is returned although the equation has "
                  "several solutions", loc(mod, ret))
        for cond, why in (("solutions == 'independent'",
                           "solver says independent"),):
            run.check("C08.R3", cond in conds, cons, f"None when {why}",
                      f"guard `{cond}` missing", loc(mod, func))
    # VisitorError -> None, ranges -> None, variable absent -> None
    handlers = [h for h in ast.walk(func) if isinstance(h, ast.ExceptHandler)]
    ok = any(ast.unparse(h.type) == "VisitorError" and len(h.body) == 1 and
             isinstance(h.body[0], ast.Return) and (
                 h.body[0].value is None or
                 getattr(h.body[0].value, "value", 1) is None)
             for h in handlers)
    run.check("C08.R3", ok, cons, "None when the expression is not "
              "translatable", "a VisitorError no longer yields None",
              loc(mod, func))
    # final fall-through None
    last = func.body[-1]
    run.check("C08.R3", isinstance(last, ast.Return) and (
        last.value is None or getattr(last.value, "value", 1) is None), cons,
        "default None", "the fall-through result is not None",
        loc(mod, func))
    # callers compare only with == 0
    users = 0
    for meth in cls.methods.values():
        for stmt in ast.walk(meth):
            if isinstance(stmt, ast.Assign) and isinstance(
                    stmt.value, ast.Call) and ast.unparse(
                        stmt.value.func).endswith(
                            "_get_dependency_distance"):
                var = ast.unparse(stmt.targets[0])
                users += 1
                uses = [c for c in ast.walk(meth) if isinstance(
                    c, (ast.Compare, ast.BoolOp, ast.UnaryOp, ast.If,
                        ast.Return)) and var in {
                            n.id for n in ast.walk(c)
                            if isinstance(n, ast.Name)}]
                good = True
                for use in uses:
                    if isinstance(use, ast.Compare):
                        good = good and ast.unparse(use) == f"{var} == 0"
                    elif isinstance(use, ast.If):
                        good = good and ast.unparse(use.test) == \
                            f"{var} == 0" or var not in {
                                n.id for n in ast.walk(use.test)
                                if isinstance(n, ast.Name)}
                    elif isinstance(use, (ast.UnaryOp, ast.BoolOp)):
                        good = False
                    elif isinstance(use, ast.Return):
                        good = good and var not in {
                            n.id for n in ast.walk(use)
                            if isinstance(n, ast.Name)}
                run.check("C08.R3", good, f"DependencyTools.{meth.name}",
                          f"{var} only compared with == 0",
                          f"the distance '{var}' is used other than in "
                          f"`{var} == 0` (None/unknown could be read as "
                          f"independent)", loc(mod, stmt))
    run.floor("callers of _get_dependency_distance", users, 2)


def check_scalar_facts(idx, run):
    """R4: which facts decide that a scalar is private."""
    cls, func = own(idx, "_is_scalar_parallelisable")
    mod = cls.module
    cons = "DependencyTools._is_scalar_parallelisable"
    cfg = CFG(func)
    facts = set()
    ntrue = 0
    for path in cfg.paths(limit=5000):
        if path[-1][0] is not cfg.exit:
            continue
        rets = [n for n, _ in path if n.kind == "stmt" and
                isinstance(n.ast, ast.Return)]
        if not rets or ret_value(rets[-1]) is not True:
            continue
        tests = [(n.ast.test, lab) for n, lab in path
                 if n.kind == "test" and isinstance(n.ast, ast.If)]
        if any(ast.unparse(t) == "var_info.is_read_only()" and lab == "true"
               for t, lab in tests):
            continue
        ntrue += 1
        for test, _lab in tests:
            for sub in ast.walk(test):
                if isinstance(sub, ast.Attribute):
                    facts.add(sub.attr)
                if isinstance(sub, ast.Call) and isinstance(
                        sub.func, ast.Attribute):
                    facts.add(sub.func.attr)
    run.extra["scalar_rule_facts"] = sorted(facts)
    # the first access must be a write ...
    run.check("C08.R4", "access_type" in facts, cons,
              "first access must be a write",
              "a scalar is declared private without checking that its "
              "first access is a write", loc(mod, func))
    # ... and the write must be unconditional: needs control-flow context
    context_facts = {"node", "ancestor", "is_conditional", "conditional",
                     "is_written_first", "location", "walk", "parent",
                     "is_unconditional"}
    run.check(
        "C08.R4", bool(facts & context_facts), cons,
        "write-before-read must be unconditional",
        f"a written scalar is declared parallelisable from the facts "
        f"{sorted(facts)} only: nothing about *where* the first write sits "
        f"is consulted, so a scalar first written inside an IF (e.g. "
        f"'if (b(i) > 0) t = b(i)' followed by 'a(i) = t') is treated as "
        f"private although the value read can come from an earlier "
        f"iteration", loc(mod, func))
    run.floor("scalar True-paths", ntrue, 1)


def check_never_equal(idx, run):
    """The constant-subscript test relies on SymbolicMaths.never_equal: it
    may answer True only for a single constant non-zero integer difference
    (shared rule with C17, reported here under C08.R2)."""
    from rules import c17_symbolic_maths as c17

    class Proxy:
        def __getattr__(self, name):
            return getattr(run, name)

        def check(self, rule, ok, *args, **kwargs):
            return run.check("C08.R2", ok, *args, **kwargs)
    c17.check_verdicts(idx, Proxy())


def check_integer_subscripts(idx, run):
    """C08.R6: subscripts are handed to SymPy, which treats `/` as exact
    division and MOD as the mathematical modulo (C17-a).  A subscript such as
    i/2 or MOD(i, 2) maps different iterations to the same element, so the
    analysis has to treat subscripts that divide the loop variable
    conservatively before it trusts the symbolic answer."""
    cls = idx.get_class(
        "psyclone.psyir.tools.dependency_tools.DependencyTools")
    txt = " ".join(ast.unparse(cls.node).split())
    facts = ("Operator.DIV", "Intrinsic.MOD", "Intrinsic.INT", "floor",
             "is_integer_division", "_has_division")
    run.check(
        "C08.R6", any(f in txt for f in facts), "DependencyTools",
        "subscripts that divide the loop variable are treated "
        "conservatively",
        "nothing in DependencyTools looks for integer division or MOD in a "
        "subscript before the symbolic comparison: `do i: b(i/2) = a(i,1)` "
        "is reported parallelisable although iterations 2k and 2k+1 write "
        "the same element (SymPy sees the injective i/2)",
        loc(cls.module, cls.node))



PREDICATES = [
    ('psyclone.psyir.tools.dependency_tools.DependencyTools', '_independent_0_var', True),
    ('psyclone.psyir.tools.dependency_tools.DependencyTools', '_independent_multi_subscript', True),
    ('psyclone.psyir.tools.dependency_tools.DependencyTools', '_is_loop_carried_dependency', True),
    ('psyclone.psyir.tools.dependency_tools.DependencyTools', '_array_access_parallelisable', True),
    ('psyclone.psyir.tools.dependency_tools.DependencyTools', '_is_scalar_parallelisable', True),
    ('psyclone.core.symbolic_maths.SymbolicMaths', 'never_equal', True),
]

def check(idx, run):
    run.explanation = __doc__
    from sa.guards import check_predicates
    check_predicates(idx, run, "C08.R7", PREDICATES)
    check_integer_subscripts(idx, run)
    from rules.common_parallel import check_fresh_unknown
    check_fresh_unknown(idx, run, "C08.R5")
    eff = Effects(idx)
    check_progress(idx, run, eff)
    check_verdicts(idx, run)
    check_distance(idx, run)
    check_never_equal(idx, run)
    check_scalar_facts(idx, run)
    run.assumptions = ["SymPy terminates and is correct",
                       "soundness of the subscript tests themselves is not "
                       "decided"]
