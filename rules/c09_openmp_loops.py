"""C09 - OpenMP-parallelised loops compute the serial result (obligation
table only).

R1 the generic parallel-loop validation reaches the dependence test on every
   accepting path unless options['force'] / ['sequential']; a failed test
   raises unless every message is in the frozen skip set; every subclass
   chains to it; the subclasses that force it off are the reviewed set.
R2 OMPParallelDirective.lower_to_language_level consumes all three results
   of infer_sharing_attributes: private -> OMPPrivateClause, firstprivate ->
   OMPFirstprivateClause, need_sync -> refusal unless a depend clause
   covers the symbol.
Whether the inferred clauses are right, and any schedule, are not decided.
"""
import ast
from sa.index import AnalysisError, loc
from rules.common_parallel import (check_generic_validate,
                                   check_subclass_chains)

LEVEL = "other"
MANIFEST = {
    "level": "other",
    "text": "Obligation rules: ParallelLoopTrans.validate consults "
            "independent_iterations(test_all_variables=True) on every "
            "accepting path (path enumeration), only the documented "
            "options bypass it, only WARN_SCALAR_WRITTEN_ONCE messages are "
            "tolerated, all OpenMP/OpenACC loop transformations chain to "
            "it, and the lowering of the parallel directive uses every "
            "result of the sharing-attribute inference. Decides that the "
            "checks and clauses are still wired in for every loop.",
    "note": "R4 is a cross-site contradiction (tolerated dependence message "
            "vs. sharing inference), known finding C09-a with a confirmed "
            "input. Correctness of the dependence analysis (C08) and any "
            "actual thread schedule are NOT decided.",
    "technique": "path enumeration over validate + super-chain scan + "
                 "def-use of the inference results + refusal-weakening check against the reviewed guard snapshot",
}


def live_nodes(stmt):
    """ast.walk that does not enter branches of trivially constant tests"""
    from sa.obligations import const_test
    todo = [stmt]
    while todo:
        node = todo.pop()
        yield node
        if isinstance(node, ast.If) and const_test(node.test) is not None:
            todo.extend(node.body if const_test(node.test) else node.orelse)
            continue
        todo.extend(ast.iter_child_nodes(node))


class NeedChoice(Exception):
    pass


def classify_all(stmts, facts):
    """-> list of (extra choices, broke, classes) over every valuation of
    the tests that are not part of the modelled write state"""
    results = []
    todo = [dict(facts)]
    while todo:
        cur = todo.pop()
        out = []
        try:
            broke = classify_write(stmts, cur, {}, out)
        except NeedChoice as need:
            key = need.args[0]
            if len([k for k in cur if k.startswith("?")]) > 6:
                raise AnalysisError("infer_sharing_attributes: too many "
                                    "unmodelled tests")
            for val in (False, True):
                nxt = dict(cur)
                nxt[key] = val
                todo.append(nxt)
            continue
        extra = {k[1:]: v for k, v in cur.items() if k.startswith("?")}
        results.append((extra, broke, out))
    return results


def classify_write(stmts, facts, env, out):
    """Abstract execution of the body of `if access is a WRITE:` in
    infer_sharing_attributes. -> True when a `break` was executed."""
    for stmt in stmts:
        if isinstance(stmt, ast.Break):
            return True
        if isinstance(stmt, ast.If):
            txt = " ".join(ast.unparse(stmt.test).split())
            neg = False
            if txt.startswith("not "):
                neg, txt = True, txt[4:]
            if txt in env:
                val = facts[env[txt]]
            elif txt == "has_been_read":
                val = facts["read_before"] != "no"
            elif txt == "last_read_position < loop_pos":
                val = facts["read_before"] == "before-loop"
            else:
                # a test outside the modelled write state: it can hold or
                # not for some symbol, both outcomes are explored
                key = "?" + txt
                if key not in facts:
                    raise NeedChoice(key)
                val = facts[key]
            if classify_write(stmt.body if val != neg else stmt.orelse,
                              facts, env, out):
                return True
        elif isinstance(stmt, ast.Assign) and isinstance(stmt.targets[0],
                                                         ast.Name):
            txt = " ".join(ast.unparse(stmt.value).split())
            if ".ancestor((Loop, WhileLoop)" in txt:
                env[stmt.targets[0].id] = "in_loop"
            elif ".ancestor(IfBlock" in txt:
                env[stmt.targets[0].id] = "conditional"
        elif isinstance(stmt, ast.Expr) and isinstance(stmt.value, ast.Call)\
                and isinstance(stmt.value.func, ast.Attribute) and \
                stmt.value.func.attr == "add":
            out.append(ast.unparse(stmt.value.func.value))
    return False


def check_inference_table(idx, run, cls):
    """C09.R3: classification of a scalar by its first write"""
    func = cls.methods["infer_sharing_attributes"]
    mod = cls.module
    cons = "OMPParallelDirective.infer_sharing_attributes"
    ret = [s for s in ast.walk(func) if isinstance(s, ast.Return) and
           isinstance(s.value, ast.Tuple) and len(s.value.elts) == 3]
    if not ret:
        raise AnalysisError("infer_sharing_attributes does not return a "
                            "3-tuple any more")
    roles = dict(zip([ast.unparse(e) for e in ret[0].value.elts],
                     ["private", "firstprivate", "need_sync"]))
    wr = [s for s in ast.walk(func) if isinstance(s, ast.If) and
          " ".join(ast.unparse(s.test).split()) ==
          "access.access_type == AccessType.WRITE"]
    if len(wr) != 1:
        raise AnalysisError("the write branch of infer_sharing_attributes "
                            "was not found")
    n = 0
    for in_loop in (False, True):
        for read_before in ("no", "before-loop", "in-loop"):
            for conditional in (False, True):
                facts = {"in_loop": in_loop, "read_before": read_before,
                         "conditional": conditional}
                runs = classify_all(wr[0].body, facts)
                if not in_loop:
                    want = []
                elif read_before == "before-loop":
                    want = ["firstprivate"]
                elif read_before == "in-loop":
                    want = ["need_sync"]
                elif conditional:
                    want = ["firstprivate"]
                else:
                    want = ["private"]
                n += 1
                # conservative answers are fine: firstprivate wherever
                # private is enough, need_sync (a refusal) anywhere
                safe = {(): [[], ["need_sync"]],
                        ("private",): [["private"], ["firstprivate"],
                                       ["need_sync"]],
                        ("firstprivate",): [["firstprivate"],
                                            ["need_sync"]],
                        ("need_sync",): [["need_sync"]]}[tuple(want)]
                bad = [(extra, sorted(roles.get(o, o) for o in out), broke)
                       for extra, broke, out in runs
                       if sorted(roles.get(o, o) for o in out) not in safe
                       or not broke]
                got = bad[0][1] if bad else want
                broke = not bad or bad[0][2]
                extra_txt = f" when {bad[0][0]}" if bad and bad[0][0] else ""
                run.check(
                    "C09.R3", not bad, cons,
                    f"first write: in_loop={in_loop} "
                    f"read_before={read_before} conditional={conditional}",
                    f"a scalar whose first write is "
                    f"{'inside' if in_loop else 'outside'} a loop, read "
                    f"before that write: {read_before}, conditional "
                    f"write: {conditional} is classified {got or 'shared'}"
                    f"{extra_txt} (decision made: {broke}); it must be "
                    f"{want or 'shared'}: a value that flows into the "
                    f"iteration needs firstprivate, one that flows between "
                    f"iterations needs synchronisation",
                    loc(mod, wr[0]),
                    sample={"rule": "C09.R3", "state": facts, "class": got,
                            "ok": got == want})
    # reads are recorded before the write test, arrays are skipped
    txt = " ".join(ast.unparse(func).split())
    run.check("C09.R3", "if access.access_type == AccessType.READ: "
              "has_been_read = True" in txt, cons,
              "reads before the first write are remembered",
              "reads that precede the first write are no longer recorded",
              loc(mod, func))
    return n


def check_written_once(idx, run, cls):
    """C09.R4: two sites have to agree about a scalar that the loop only
    writes (`last = a(i)`): the transformation tolerates the dependence
    message WARN_SCALAR_WRITTEN_ONCE, so the data-sharing inference has to
    take such a scalar out of the shared set (every thread writes it; the
    serial program leaves the value of the last iteration)."""
    from rules.common_parallel import PLT
    pcls = idx.get_class(PLT)
    vfunc = pcls.methods["validate"]
    vtxt = " ".join(ast.unparse(vfunc).split())
    tolerated = "WARN_SCALAR_WRITTEN_ONCE" in vtxt
    ifunc = cls.methods["infer_sharing_attributes"]
    single_shared = False
    for stmt in ast.walk(ifunc):
        if isinstance(stmt, ast.If) and " ".join(
                ast.unparse(stmt.test).split()) == "len(accesses) == 1" \
                and any(isinstance(b, ast.Continue) for b in stmt.body):
            single_shared = True
    itxt = " ".join(ast.unparse(ifunc).split())
    lastprivate = "lastprivate" in itxt.lower()
    run.check(
        "C09.R4", not (tolerated and single_shared and not lastprivate),
        "OMPParallelDirective.infer_sharing_attributes",
        "a scalar only written in the loop does not stay shared",
        "ParallelLoopTrans.validate ignores the WARN_SCALAR_WRITTEN_ONCE "
        "dependence message, and infer_sharing_attributes leaves a variable "
        "with a single access shared (`if len(accesses) == 1: continue`): "
        "`do i=1,n: last = a(i)` is parallelised with `last` shared, every "
        "thread writes it and its final value is that of an arbitrary "
        "iteration where the serial loop leaves a(n)",
        loc(cls.module, ifunc))



GUARDED = [
    ('ParallelLoopTrans', 'validate'),
    ('OMPLoopTrans', 'validate'),
]


PREDICATES = [
    ("psyclone.psyir.tools.dependency_tools.DependencyTools", "_independent_0_var", True),
    ("psyclone.psyir.tools.dependency_tools.DependencyTools", "_independent_multi_subscript", True),
    ("psyclone.psyir.tools.dependency_tools.DependencyTools", "_is_loop_carried_dependency", True),
    ("psyclone.psyir.tools.dependency_tools.DependencyTools", "_array_access_parallelisable", True),
    ("psyclone.psyir.tools.dependency_tools.DependencyTools", "_is_scalar_parallelisable", True),
    ("psyclone.core.symbolic_maths.SymbolicMaths", "never_equal", True),
]

def check_option_leaks(idx, run):
    """No transformation stores into the dictionary its caller passed as
    `options`: scripts reuse one dictionary for many loops, and a 'force'
    (or similar) entry left behind switches the dependence analysis of the
    next parallelising transformation off."""
    import ast
    from sa.index import loc
    from rules.common_parallel import option_leaks
    leaks, returning = option_leaks(idx)
    count = len(leaks)
    run.extra["methods_returning_the_callers_options"] = sorted(returning)
    for cls, func, stores in leaks:
        run.check("C09.R8", not stores, f"{cls.name}.{func.name}",
                  "the caller's options dictionary is not written",
                  f"{cls.name}.{func.name} writes into the dictionary the "
                  f"caller passed as options ("
                  f"{ast.unparse(stores[0])[:60] if stores else ''}): "
                  f"the entry is still there when the script passes the "
                  f"same dictionary to the next transformation",
                  loc(cls.module, stores[0] if stores else func))
    run.floor("transformation methods taking options", count, 120)


def check(idx, run):
    run.explanation = __doc__
    from sa.guards import check_predicates
    check_predicates(idx, run, "C09.R7", PREDICATES)
    check_option_leaks(idx, run)
    from sa.guards import check_guards
    check_guards(idx, run, "C09.R6", GUARDED)
    from rules.common_parallel import check_fresh_unknown
    check_fresh_unknown(idx, run, "C09.R5")
    check_generic_validate(idx, run, "C09.R1")
    setters = check_subclass_chains(idx, run, "C09.R1")
    run.extra["validates_that_force"] = sorted(setters)
    cls = idx.get_class(
        "psyclone.psyir.nodes.omp_directives.OMPParallelDirective")
    func = cls.methods.get("lower_to_language_level")
    if func is None:
        raise AnalysisError("OMPParallelDirective.lower_to_language_level "
                            "not found")
    mod = cls.module
    cons = "OMPParallelDirective.lower_to_language_level"
    unpack = [s for s in ast.walk(func) if isinstance(s, ast.Assign) and
              ast.unparse(s.value) == "self.infer_sharing_attributes()"]
    names = [ast.unparse(e) for e in unpack[0].targets[0].elts] \
        if unpack and isinstance(unpack[0].targets[0], ast.Tuple) else []
    run.check("C09.R2", len(names) == 3, cons,
              "all three inference results are received",
              f"infer_sharing_attributes() is unpacked into {names}",
              loc(mod, func))
    if len(names) == 3:
        priv, fpriv, sync = names
        txt = " ".join(ast.unparse(func).split())
        run.check("C09.R2", f"OMPPrivateClause.create(sorted({priv}" in txt
                  and "self.addchild(private_clause)" in txt, cons,
                  "private symbols become the private clause",
                  "the inferred private symbols are not turned into an "
                  "OMPPrivateClause child", loc(mod, func))
        run.check("C09.R2", f"OMPFirstprivateClause.create(sorted({fpriv}"
                  in txt and "self.addchild(fprivate_clause)" in txt, cons,
                  "firstprivate symbols become the firstprivate clause",
                  "the inferred firstprivate symbols are not turned into "
                  "an OMPFirstprivateClause child", loc(mod, func))
        guard = [s for s in ast.walk(func) if isinstance(s, ast.If) and
                 ast.unparse(s.test) == sync]
        ok = bool(guard) and any(isinstance(r, ast.Raise) and
                                 "GenerationError" in ast.unparse(r)
                                 for r in live_nodes(guard[0]))
        run.check("C09.R2", ok, cons,
                  "symbols needing synchronisation are refused unless "
                  "covered by a depend clause",
                  "symbols that need synchronisation no longer stop the "
                  "lowering", loc(mod, func))
    # infer_sharing_attributes requires default(shared)
    ifunc = cls.methods.get("infer_sharing_attributes")
    itxt = " ".join(ast.unparse(ifunc).split())
    run.check("C09.R2", "DefaultClauseTypes.SHARED" in itxt and
              "raise GenerationError" in itxt,
              "OMPParallelDirective.infer_sharing_attributes",
              "inference only with default(shared)",
              "the inference no longer refuses a non-shared default clause",
              loc(mod, ifunc))
    run.check("C09.R2", "for signature in var_accesses.all_signatures" in
              itxt and "self.reference_accesses(var_accesses)" in itxt,
              "OMPParallelDirective.infer_sharing_attributes",
              "every accessed symbol is classified",
              "the inference no longer looks at every signature accessed "
              "in the region", loc(mod, ifunc))
    # the legacy gen_code path uses the same inference
    # the 'sequential' option switches the dependence analysis off: it may
    # only be honoured by transformations whose directive can mark the loop
    # as sequential (OpenACC 'seq'), never by the OpenMP ones
    from rules.common_parallel import PLT
    base = idx.get_class(PLT)
    vtxt = " ".join(ast.unparse(base.methods["validate"]).split())
    run.check("C09.R1", "sequential and (not self._supports_sequential)" in
              vtxt or "sequential and not self._supports_sequential" in vtxt,
              "ParallelLoopTrans.validate",
              "'sequential' is refused where it is not supported",
              "the 'sequential' option is honoured (dependence analysis "
              "skipped) whatever the transformation: "
              "OMPParallelLoopTrans().apply(loop, {'sequential': True}) "
              "parallelises a loop with a loop-carried dependence",
              loc(base.module, base.methods["validate"]))
    nomp = 0
    for sub in idx.all_subclasses(base, include_self=False):
        if not sub.name.startswith("OMP") and "OMP" not in sub.name:
            continue
        nomp += 1
        res = idx.find_attr(sub, "_supports_sequential")
        val = res[1] if res else None
        got = ast.unparse(val) if isinstance(val, ast.AST) else repr(val)
        run.check("C09.R1", got == "False", sub.name,
                  "does not support the 'sequential' option",
                  f"{sub.name}._supports_sequential resolves to {got}: the "
                  f"option would switch the dependence analysis off for an "
                  f"OpenMP work-sharing directive", loc(sub.module, sub.node))
    run.floor("OpenMP parallel-loop transformations", nomp, 6)
    check_inference_table(idx, run, cls)
    check_written_once(idx, run, cls)
    gfunc = cls.methods.get("gen_code")
    if gfunc is not None:
        gtxt = " ".join(ast.unparse(gfunc).split())
        run.check("C09.R2", "self.infer_sharing_attributes()" in gtxt and
                  "private(" in gtxt and "firstprivate(" in gtxt and
                  "if need_sync: raise GenerationError" in gtxt,
                  "OMPParallelDirective.gen_code",
                  "legacy generation uses the inference too",
                  "gen_code no longer emits private / firstprivate from "
                  "the inference or accepts symbols needing "
                  "synchronisation", loc(mod, gfunc))
    pdo = idx.get_class(
        "psyclone.psyir.nodes.omp_directives.OMPParallelDoDirective")
    plow = pdo.methods.get("lower_to_language_level")
    if plow is not None:
        run.check("C09.R2", "OMPParallelDirective.lower_to_language_level("
                  "self)" in ast.unparse(plow),
                  "OMPParallelDoDirective.lower_to_language_level",
                  "parallel-do lowering builds the clauses of the parallel "
                  "directive", "the combined parallel-do directive no "
                  "longer builds its private / firstprivate clauses "
                  "through OMPParallelDirective.lower_to_language_level",
                  loc(pdo.module, plow))
    pgen = pdo.methods.get("gen_code")
    if pgen is not None:
        gtxt = " ".join(ast.unparse(pgen).split())
        run.check("C09.R2", "self.infer_sharing_attributes()" in gtxt and
                  "'private('" in gtxt and "'firstprivate('" in gtxt and
                  "if need_sync: raise GenerationError" in gtxt,
                  "OMPParallelDoDirective.gen_code",
                  "legacy parallel-do generation uses the inference too",
                  "OMPParallelDoDirective.gen_code no longer emits "
                  "private / firstprivate from the inference or accepts "
                  "symbols needing synchronisation", loc(pdo.module, pgen))
    run.assumptions = ["C08 decides the dependence-analysis plumbing",
                       "thread schedules are not explored"]
