"""C09 - OpenMP-parallelised loops compute the serial result (obligation
table only).

R1 the generic parallel-loop validation reaches the dependence test on every
   accepting path unless options['force'] / ['sequential']; a failed test
   raises unless every message is in the frozen skip set; every subclass
   chains to it; the subclasses that force it off are the reviewed set.
R2 OMPParallelDirective.lower_to_language_level consumes all three results
   of infer_sharing_attributes: private -> OMPPrivateClause, firstprivate ->
   OMPFirstprivateClause, need_sync -> refusal unless a depend clause
   covers the symbol.
Whether the inferred clauses are right, and any schedule, are not decided.
"""
import ast
from sa.index import AnalysisError, loc
from rules.common_parallel import (check_generic_validate,
                                   check_subclass_chains)

LEVEL = "other"
MANIFEST = {
    "level": "other",
    "text": "Obligation rules: ParallelLoopTrans.validate consults "
            "independent_iterations(test_all_variables=True) on every "
            "accepting path (path enumeration), only the documented "
            "options bypass it, only WARN_SCALAR_WRITTEN_ONCE messages are "
            "tolerated, all OpenMP/OpenACC loop transformations chain to "
            "it, and the lowering of the parallel directive uses every "
            "result of the sharing-attribute inference. Decides that the "
            "checks and clauses are still wired in for every loop.",
    "note": "Correctness of the dependence analysis (C08) and of the "
            "inferred private / firstprivate sets, and any actual thread "
            "schedule, are NOT decided.",
    "technique": "path enumeration over validate + super-chain scan + "
                 "def-use of the inference results",
}


def check(idx, run):
    run.explanation = __doc__
    check_generic_validate(idx, run, "C09.R1")
    setters = check_subclass_chains(idx, run, "C09.R1")
    run.extra["validates_that_force"] = sorted(setters)
    cls = idx.get_class(
        "psyclone.psyir.nodes.omp_directives.OMPParallelDirective")
    func = cls.methods.get("lower_to_language_level")
    if func is None:
        raise AnalysisError("OMPParallelDirective.lower_to_language_level "
                            "not found")
    mod = cls.module
    cons = "OMPParallelDirective.lower_to_language_level"
    unpack = [s for s in ast.walk(func) if isinstance(s, ast.Assign) and
              ast.unparse(s.value) == "self.infer_sharing_attributes()"]
    names = [ast.unparse(e) for e in unpack[0].targets[0].elts] \
        if unpack and isinstance(unpack[0].targets[0], ast.Tuple) else []
    run.check("C09.R2", len(names) == 3, cons,
              "all three inference results are received",
              f"infer_sharing_attributes() is unpacked into {names}",
              loc(mod, func))
    if len(names) == 3:
        priv, fpriv, sync = names
        txt = " ".join(ast.unparse(func).split())
        run.check("C09.R2", f"OMPPrivateClause.create(sorted({priv}" in txt
                  and "self.addchild(private_clause)" in txt, cons,
                  "private symbols become the private clause",
                  "the inferred private symbols are not turned into an "
                  "OMPPrivateClause child", loc(mod, func))
        run.check("C09.R2", f"OMPFirstprivateClause.create(sorted({fpriv}"
                  in txt and "self.addchild(fprivate_clause)" in txt, cons,
                  "firstprivate symbols become the firstprivate clause",
                  "the inferred firstprivate symbols are not turned into "
                  "an OMPFirstprivateClause child", loc(mod, func))
        guard = [s for s in ast.walk(func) if isinstance(s, ast.If) and
                 ast.unparse(s.test) == sync]
        ok = bool(guard) and any(isinstance(r, ast.Raise) and
                                 "GenerationError" in ast.unparse(r)
                                 for r in ast.walk(guard[0]))
        run.check("C09.R2", ok, cons,
                  "symbols needing synchronisation are refused unless "
                  "covered by a depend clause",
                  "symbols that need synchronisation no longer stop the "
                  "lowering", loc(mod, func))
    # infer_sharing_attributes requires default(shared)
    ifunc = cls.methods.get("infer_sharing_attributes")
    itxt = " ".join(ast.unparse(ifunc).split())
    run.check("C09.R2", "DefaultClauseTypes.SHARED" in itxt and
              "raise GenerationError" in itxt,
              "OMPParallelDirective.infer_sharing_attributes",
              "inference only with default(shared)",
              "the inference no longer refuses a non-shared default clause",
              loc(mod, ifunc))
    run.check("C09.R2", "for signature in var_accesses.all_signatures" in
              itxt and "self.reference_accesses(var_accesses)" in itxt,
              "OMPParallelDirective.infer_sharing_attributes",
              "every accessed symbol is classified",
              "the inference no longer looks at every signature accessed "
              "in the region", loc(mod, ifunc))
    # the legacy gen_code path uses the same inference
    gfunc = cls.methods.get("gen_code")
    if gfunc is not None:
        gtxt = " ".join(ast.unparse(gfunc).split())
        run.check("C09.R2", "self.infer_sharing_attributes()" in gtxt and
                  "private(" in gtxt and "firstprivate(" in gtxt and
                  "if need_sync: raise GenerationError" in gtxt,
                  "OMPParallelDirective.gen_code",
                  "legacy generation uses the inference too",
                  "gen_code no longer emits private / firstprivate from "
                  "the inference or accepts symbols needing "
                  "synchronisation", loc(mod, gfunc))
    run.assumptions = ["C08 decides the dependence-analysis plumbing",
                       "thread schedules are not explored"]
