from sa.selftest import Variant as V, SV
L = "src/psyclone/line_length.py"
VARIANTS = [
    SV("inner-max-index-forgets-cstart", L, "FortLineLength.process",
       "break_point = find_break_point(line, self._line_length - len(c_end) - len(c_start), key_list)",
       "break_point = find_break_point(line, self._line_length - len(c_end), key_list)", "fires:C18.R1"),
    V("loop-test-ignores-cstart", L, "                while len(line) + len(c_start) > self._line_length:",
      "                while len(line) > self._line_length:", "fires:C18.R1"),
    V("rfind-unbounded", L, "        idx = line.rfind(key, first_non_whitespace+1, max_index)",
      "        idx = line.rfind(key, first_non_whitespace+1)", "fires:C18.R1"),
    V("comment-continuation-without-bang", L, "                            \"comment\": \"!& \",", "                            \"comment\": \"& \",", "fires:C18.R4"),
    V("comment-before-omp", L, "        if self._omp.match(line):\n            return \"openmp_directive\"\n        if self._acc.match(line):\n            return \"openacc_directive\"\n        if self._comment.match(line):\n            return \"comment\"",
      "        if self._comment.match(line):\n            return \"comment\"\n        if self._omp.match(line):\n            return \"openmp_directive\"\n        if self._acc.match(line):\n            return \"openacc_directive\"", "fires:C18.R4"),
    V("short-lines-stripped", L, "            else:\n                fortran_out += line + \"\\n\"\n\n        # We add",
      "            else:\n                fortran_out += line.rstrip() + \"\\n\"\n\n        # We add", "fires:C18.R"),
    V("first-emit-forgets-cend", L, "                    break_point = find_break_point(\n                        line, self._line_length-len(c_end), key_list)\n                except InternalError:",
      "                    break_point = find_break_point(\n                        line, self._line_length, key_list)\n                except InternalError:", "fires:C18.R1"),
    V("twin-le", L, "                    if len(line) < self._line_length:", "                    if len(line) <= self._line_length:", "silent"),
]
