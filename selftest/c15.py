from sa.selftest import Variant as V, SV
S = "src/psyclone/psyir/nodes/scoping_node.py"
T = "src/psyclone/psyir/symbols/symbol_table.py"
N = "src/psyclone/psyir/nodes/node.py"
A = "src/psyclone/psyir/nodes/acc_directives.py"
ST = "src/psyclone/psyir/symbols/symbol_table.py"
SC = "src/psyclone/psyir/nodes/scoping_node.py"
VARIANTS = [
    SV("loop-variable-not-rebound", S, "ScopingNode._refine_copy",
       "if isinstance(node, Loop) and node._variable:\n    if node.variable in other.symbol_table.symbols:\n        node.variable = self.symbol_table.lookup(node.variable.name)",
       "", "fires:C15.R2"),
    SV("deep-copy-shares-symbols", T, "SymbolTable.deep_copy",
       "for symbol in self.symbols:\n    new_st.add(symbol.copy())",
       "for symbol in self.symbols:\n    new_st.add(symbol)", "fires:C15.R2"),
    SV("tags-point-at-old-symbols", T, "SymbolTable.deep_copy",
       "for tag, symbol in self._tags.items():\n    new_st._tags[tag] = new_st.lookup(symbol.name)",
       "for tag, symbol in self._tags.items():\n    new_st._tags[tag] = symbol", "fires:C15.R2"),
    SV("children-shared", N, "Node._refine_copy",
       "self.children.extend([child.copy() for child in other.children])",
       "self.children.extend(list(other.children))", "fires:C15.R3"),
    SV("enterdata-shares-sigset", A, "ACCEnterDataDirective._refine_copy",
       "self._sig_set = set(other._sig_set)", "", "fires:C15.R1"),
    V("new-list-attribute-on-node", "src/psyclone/psyir/nodes/loop.py", "        self._variable = None\n",
      "        self._variable = None\n        self._notes = []\n", "silent"),
    V("new-symbol-field", "src/psyclone/psyir/nodes/assignment.py", "class Assignment(Statement):",
      "class Assignment(Statement):\n    def set_owner(self, owner):\n        '''\n        :param owner: the owner.\n        :type owner: :py:class:`psyclone.psyir.symbols.DataSymbol`\n        '''\n        self._owner = owner\n", "fires:C15.R2"),
    V("deep-copy-early-return-for-empty-table", ST,
      "        new_st = type(self)()\n\n        # Make a copy of each symbol",
      "        new_st = type(self)()\n        if not self._symbols:\n            return new_st\n\n        # Make a copy of each symbol",
      "fires:C15.R2"),
    V("rebinding-by-raw-name-key", SC,
      "                if node.symbol in other.symbol_table.symbols:",
      "                if other.symbol_table.symbols_dict.get(node.symbol.name) is node.symbol:",
      "fires:C15.R2"),
    V("membership-list-hoisted", SC,
      "        for node in self.walk((Reference, Loop)):\n            if isinstance(node, Reference):\n                if node.symbol in other.symbol_table.symbols:",
      "        orig = other.symbol_table.symbols\n        for node in self.walk((Reference, Loop)):\n            if isinstance(node, Reference):\n                if node.symbol in orig:",
      "silent"),
    V("new-table-field-not-copied", ST, "        self._argument_list = []\n",
      "        self._argument_list = []\n        self._pinned = set()\n", "fires:C15.R2"),
]
