from sa.selftest import Variant as V
P = "src/psyclone/psyGen.py"
VARIANTS = [
    V("drop-o-excl", P, "                    os.O_CREAT | os.O_WRONLY | os.O_EXCL)",
      "                    os.O_CREAT | os.O_WRONLY)", "fires:C29.R1"),
    V("write-in-handler", P,
      "                if config.kernel_naming == \"single\":\n                    # If the kernel-renaming scheme is such that we only ever\n                    # create one copy of a transformed kernel then we're done\n                    break\n                continue",
      "                if config.kernel_naming == \"single\":\n                    break\n                fdesc = os.open(os.path.join(config.kernel_output_dir, new_name), os.O_WRONLY)\n                continue",
      "fires:C29.R"),
    V("builtin-open-w", P,
      "            os.write(fdesc, new_kern_code.encode())",
      "            with open(os.path.join(config.kernel_output_dir, new_name), 'w') as fout:\n                fout.write(new_kern_code)\n            os.write(fdesc, new_kern_code.encode())",
      "fires:C29.R1"),
    V("different-suffix", P, "        self._rename_psyir(new_suffix)",
      "        self._rename_psyir(f\"_{name_idx + 1}\")", "fires:C29.R3"),
    V("case-sensitive-new-name", P,
      "        if original.lower().endswith(suffix.lower()):",
      "        if original.endswith(suffix):", "fires:C29.R3"),
    V("retry-same-name", P, "            name_idx += 1\n", "            pass\n", "fires:C29.R2"),
    V("module-name-not-stored", P, "        self._module_name = new_mod_name[:]\n",
      "", "fires:C29.R3"),
    V("twin-flag-order", P, "                    os.O_CREAT | os.O_WRONLY | os.O_EXCL)",
      "                    os.O_EXCL | os.O_CREAT | os.O_WRONLY)", "silent"),
]
