from sa.selftest import Variant as V, SV
W = "src/psyclone/psyir/backend/sympy_writer.py"
M = "src/psyclone/core/symbolic_maths.py"
VARIANTS = [
    V("mod-to-floor", W, "(IntrinsicCall.Intrinsic.MOD, \"Mod\"),", "(IntrinsicCall.Intrinsic.MOD, \"floor\"),", "fires:C17.R1"),
    V("max-to-min", W, "(IntrinsicCall.Intrinsic.MAX, \"Max\"),", "(IntrinsicCall.Intrinsic.MAX, \"Min\"),", "fires:C17.R1"),
    SV("never-equal-on-symbolic", M, "SymbolicMaths.never_equal",
       "if len(result) == 1 and isinstance(result[0], core.numbers.Integer):\n    return True",
       "if len(result) == 1:\n    return True", "fires:C17.R2"),
    SV("equal-weakened", M, "SymbolicMaths.equal",
       "return isinstance(diff, core.numbers.Zero)", "return diff == 0 or diff.is_zero is not False", "fires:C17.R2"),
    SV("nonfinite-solutions-returned", M, "SymbolicMaths.solve_equal_for",
       "if not isinstance(solution, FiniteSet):\n    raise ValueError(f\"Unexpected solution '{solution}'' of type '{type(solution)}'\")", "", "fires:C17.R2"),
]
