from sa.selftest import Variant as V, SV
C = "src/psyclone/psyir/tools/call_tree_utils.py"
S = "src/psyclone/core/single_variable_access_info.py"
A = "src/psyclone/core/access_type.py"
E = "src/psyclone/psyir/nodes/extract_node.py"
VARIANTS = [
    V("outputs-skip-read-variables", C,
      "            if variables_info.is_written(signature):\n                read_write_info.add_write(signature)",
      "            if variables_info.is_read(signature):\n                continue\n            if variables_info.is_written(signature):\n                read_write_info.add_write(signature)",
      "fires:C12.R1"),
    V("inputs-only-for-read-only", C,
      "            if not variables_info[signature].is_written_first():\n                read_write_info.add_read(signature)",
      "            if not variables_info[signature].is_written():\n                read_write_info.add_read(signature)",
      "fires:C12.R2"),
    V("readwrite-first-counts-as-written-first", S,
      "            (self._accesses[0].access_type == AccessType.WRITE)",
      "            (self._accesses[0].access_type in AccessType.all_write_accesses())",
      "fires:C12.R3"),
    V("readinc-not-a-write", A,
      "        return [AccessType.WRITE, AccessType.READWRITE, AccessType.INC,\n                AccessType.READINC] + AccessType.get_valid_reduction_modes()",
      "        return [AccessType.WRITE, AccessType.READWRITE, AccessType.INC] + \\\n            AccessType.get_valid_reduction_modes()",
      "fires:C12.R1"),
    V("outputs-from-a-fresh-summary-of-first-node", C,
      "        self.get_output_parameters(read_write_info, node_list, variables_info)",
      "        self.get_output_parameters(read_write_info, node_list[:1])",
      "fires:C12.R2"),
    V("extract-lists-swapped", E,
      "        options = {'pre_var_list': self._read_write_info.read_list,\n                   'post_var_list': self._read_write_info.write_list,\n                   'post_var_postfix': self._post_name}\n\n        return super().lower_to_language_level(options)",
      "        options = {'pre_var_list': self._read_write_info.write_list,\n                   'post_var_list': self._read_write_info.read_list,\n                   'post_var_postfix': self._post_name}\n\n        return super().lower_to_language_level(options)",
      "fires:C12.R2"),
    V("summary-local-renamed", C,
      "        variables_info = VariablesAccessInfo(node_list, options=options)\n        read_write_info = ReadWriteInfo()\n        self.get_input_parameters(read_write_info, node_list, variables_info)\n        self.get_output_parameters(read_write_info, node_list, variables_info)",
      "        summary = VariablesAccessInfo(node_list, options=options)\n        read_write_info = ReadWriteInfo()\n        self.get_input_parameters(read_write_info, node_list, summary)\n        self.get_output_parameters(read_write_info, node_list, summary)",
      "silent"),
]
