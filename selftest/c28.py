from sa.selftest import Variant as V, SV
E = "src/psyclone/psyir/transformations/extract_trans.py"
P = "src/psyclone/psyir/transformations/psy_data_trans.py"
N = "src/psyclone/psyir/nodes/psy_data_node.py"
R = "src/psyclone/psyir/transformations/region_trans.py"
VARIANTS = [
    V("extract-drops-return", E, "    excluded_node_types = PSyDataTrans.excluded_node_types + (\n        CodeBlock, ExtractNode, HaloExchange, GlobalSum)",
      "    excluded_node_types = (CodeBlock, ExtractNode,\n                           HaloExchange, GlobalSum)", "fires:C28.R1"),
    V("psydata-no-return", P, "    excluded_node_types = (Return,)", "    excluded_node_types = ()", "fires:C28.R1"),
    SV("postend-under-has-var", N, "PSyDataNode.lower_to_language_level",
       "self.parent.children.insert(self.position + 1, end_call)",
       "if has_var:\n    self.parent.children.insert(self.position + 1, end_call)", "fires:C28.R2"),
    SV("prestart-after-body", N, "PSyDataNode.lower_to_language_level",
       "self.parent.children.insert(self.position, start_call)", "pass", "fires:C28.R2"),
    V("type-check-off-by-default", R, "        if options.get(\"node-type-check\", True):", "        if options.get(\"node-type-check\", False):", "fires:C28.R1"),
    SV("counter-not-incremented", P, "PSyDataTrans.get_unique_region_name",
       "PSyDataTrans._used_kernel_names[key] = idx + 1", "PSyDataTrans._used_kernel_names[key] = idx", "fires:C28.R3"),
    V("twin-tuple-order", E, "        CodeBlock, ExtractNode, HaloExchange, GlobalSum)", "        ExtractNode, CodeBlock, HaloExchange, GlobalSum)", "silent"),
    V("defaults-merged-into-the-callers-dictionary", "src/psyclone/psyir/transformations/psy_data_trans.py",
      "        new_options = self.get_default_options()\n        if options:\n            # Update will overwrite any existing setting with the ones\n            # specified by the user:\n            new_options.update(options)\n        return new_options",
      "        if not options:\n            return self.get_default_options()\n        for key, value in self.get_default_options().items():\n            options.setdefault(key, value)\n        return options",
      "fires:C28.R5"),
    V("defaults-merged-into-a-copy", "src/psyclone/psyir/transformations/psy_data_trans.py",
      "        new_options = self.get_default_options()\n        if options:\n            # Update will overwrite any existing setting with the ones\n            # specified by the user:\n            new_options.update(options)\n        return new_options",
      "        merged = dict(options) if options else {}\n        for key, value in self.get_default_options().items():\n            merged.setdefault(key, value)\n        return merged",
      "silent"),
    V("extract-options-aliased", "src/psyclone/domain/lfric/transformations/lfric_extract_trans.py",
      "            my_options = options.copy()", "            my_options = options", "fires:C28.R5"),
]
