from sa.selftest import Variant as V, SV
O = "src/psyclone/psyir/nodes/omp_directives.py"
A = "src/psyclone/psyir/nodes/acc_directives.py"
VI = "src/psyclone/psyir/backend/visitor.py"
T = "src/psyclone/transformations.py"
VARIANTS = [
    SV("gen_code-no-validate", O, "OMPTaskwaitDirective.gen_code", "self.validate_global_constraints()", "", "fires:C10.R2"),
    V("ompdo-drop-excluding", O, "        if not self.ancestor(OMPParallelDirective,\n                             excluding=OMPParallelDoDirective):\n            raise GenerationError(\n                \"OMPDoDirective must be inside",
      "        if not self.ancestor(OMPParallelDirective):\n            raise GenerationError(\n                \"OMPDoDirective must be inside", "fires:C10.R1"),
    SV("ompdo-skip-super", O, "OMPDoDirective.validate_global_constraints", "super().validate_global_constraints()", "", "fires:C10.R1"),
    V("omploop-imperfect-nest", O, "                if (len(cursor.parent.children) != 1 or\n                        not isinstance(cursor, Loop)):\n                    raise GenerationError(\n                        f\"OMPLoopDirective must have",
      "                if not isinstance(cursor, Loop):\n                    raise GenerationError(\n                        f\"OMPLoopDirective must have", "fires:C10.R3"),
    SV("visitor-no-validate", VI, "PSyIRVisitor._visit", "if self._validate_nodes:\n    node.validate_global_constraints()", "", "fires:C10.R2"),
    V("visitor-default-off", VI, "initial_indent_depth=0, check_global_constraints=True):", "initial_indent_depth=0, check_global_constraints=False):", "fires:C10.R2", count=1),
    V("parallel-nesting-allowed", O, "        if self.ancestor(OMPParallelDirective) is not None:", "        if False and self.ancestor(OMPParallelDirective) is not None:", "fires:C10.R1"),
    V("accloop-drops-return", T, "    excluded_node_types = (PSyDataNode, Return)\n", "    excluded_node_types = (PSyDataNode,)\n", "fires:C10.R4"),
    V("twin-ancestor-tuple", O, "        if not self.ancestor(OMPSerialDirective):\n            raise GenerationError(\n                \"OMPTaskloopDirective must",
      "        if not self.ancestor((OMPSerialDirective,)):\n            raise GenerationError(\n                \"OMPTaskloopDirective must", "silent"),
]
