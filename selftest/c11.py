from sa.selftest import Variant as V, SV
A = "src/psyclone/psyir/nodes/assignment.py"
L = "src/psyclone/psyir/nodes/loop.py"
C = "src/psyclone/psyir/nodes/call.py"
I = "src/psyclone/psyir/nodes/if_block.py"
VARIANTS = [
    SV("merge-before-rhs", A, "Assignment.reference_accesses",
       "self.rhs.reference_accesses(var_accesses)\nvar_accesses.merge(accesses_left)",
       "var_accesses.merge(accesses_left)\nself.rhs.reference_accesses(var_accesses)", "fires:C11.R2"),
    SV("no-write-conversion", A, "Assignment.reference_accesses",
       "try:\n    var_info.change_read_to_write()\nexcept InternalError as err:\n    raise NotImplementedError(f\"The variable '{self.lhs.name}' appears more than once on the left-hand side of an assignment.\") from err",
       "", "fires:C11.R2"),
    SV("loop-skips-stop", L, "Loop.reference_accesses", "self.stop_expr.reference_accesses(var_accesses)", "", "fires:C11.R1"),
    SV("call-always-read", C, "Call.reference_accesses",
       "if self.is_pure:\n    default_access = AccessType.READ\nelse:\n    default_access = AccessType.READWRITE",
       "default_access = AccessType.READ", "fires:C11.R3"),
    SV("if-skips-else", I, "IfBlock.reference_accesses",
       "if self.else_body:\n    self.else_body.reference_accesses(var_accesses)\n    var_accesses.next_location()", "", "fires:C11.R1"),
    SV("loop-read-before-write", L, "Loop.reference_accesses",
       "var_accesses.add_access(Signature(self.variable.name), AccessType.WRITE, self)\nvar_accesses.add_access(Signature(self.variable.name), AccessType.READ, self)",
       "var_accesses.add_access(Signature(self.variable.name), AccessType.READ, self)\nvar_accesses.add_access(Signature(self.variable.name), AccessType.WRITE, self)", "fires:C11.R2"),
]
