from sa.selftest import Variant as V, SV
C = "src/psyclone/domain/lfric/kern_call_arg_list.py"
S = "src/psyclone/domain/lfric/kern_stub_arg_list.py"
VARIANTS = [
    SV("stub-drops-ncol", S, "KernStubArgList.cma_operator", "_local_args.append(ncol)", "", "fires:C21.R2"),
    SV("stub-operator-extra-arg", S, "KernStubArgList.operator",
       "self.append(arg.name, var_accesses)", "self.append(arg.name, var_accesses)\nself.append(arg.name + '_extra', var_accesses)", "fires:C21.R2"),
    V("stub-vector-one-too-few", S, "        for idx in range(1, argvect.vector_size+1):", "        for idx in range(1, argvect.vector_size):", "fires:C21.R2"),
    V("call-basis-no-evaluator", C,
      "                    basis_name = function_space.get_basis_name(\n                        on_space=fspace)\n                    sym = self.append_array_reference(\n                        basis_name, [\":\", \":\", \":\"],\n                        ScalarType.Intrinsic.REAL)\n                    self.append(sym.name, var_accesses)\n",
      "                    continue\n", "fires:C21.R2"),
    V("call-basis-quadratures-before-the-evaluator", C,
      "        for shape in self._kern.eval_shapes:\n            if shape in self._kern.qr_rules:\n                rule = self._kern.qr_rules[shape]\n                basis_name = function_space.get_basis_name(\n                    qr_var=rule.psy_name)\n                sym = self.append_array_reference(basis_name,\n                                                  [\":\", \":\", \":\", \":\"],\n                                                  ScalarType.Intrinsic.REAL)\n                self.append(sym.name, var_accesses)\n            elif shape == \"gh_evaluator\":",
      "        for rule in self._kern.qr_rules.values():\n            basis_name = function_space.get_basis_name(\n                qr_var=rule.psy_name)\n            sym = self.append_array_reference(basis_name,\n                                              [\":\", \":\", \":\", \":\"],\n                                              ScalarType.Intrinsic.REAL)\n            self.append(sym.name, var_accesses)\n        for shape in self._kern.eval_shapes:\n            if shape == \"gh_evaluator\":",
      "fires:C21.R5"),
    V("call-basis-class-tests-as-in-the-stub", C,
      "            if shape in self._kern.qr_rules:\n                rule = self._kern.qr_rules[shape]\n                basis_name",
      "            if shape in LFRicConstants().VALID_QUADRATURE_SHAPES:\n                rule = self._kern.qr_rules[shape]\n                basis_name",
      "silent"),
    SV("call-psyir-missing", C, "KernCallArgList.cell_position",
       "self.append(cell_ref_name)", "self.append(cell_ref_name)\nself.append(cell_ref_name)", "fires:C21.R"),
    V("stub-overrides-generate", S, "class KernStubArgList(ArgOrdering):", "class KernStubArgList(ArgOrdering):\n    def generate(self, var_accesses=None):\n        self.cell_position(var_accesses)\n", "fires:C21.R1"),
]
