from sa.selftest import Variant as V, SV
C = "src/psyclone/domain/lfric/kern_call_arg_list.py"
S = "src/psyclone/domain/lfric/kern_stub_arg_list.py"
VARIANTS = [
    SV("stub-drops-ncol", S, "KernStubArgList.cma_operator", "_local_args.append(ncol)", "", "fires:C21.R2"),
    SV("stub-operator-extra-arg", S, "KernStubArgList.operator",
       "self.append(arg.name, var_accesses)", "self.append(arg.name, var_accesses)\nself.append(arg.name + '_extra', var_accesses)", "fires:C21.R2"),
    V("stub-vector-one-too-few", S, "        for idx in range(1, argvect.vector_size+1):", "        for idx in range(1, argvect.vector_size):", "fires:C21.R2"),
    SV("call-basis-no-evaluator", C, "KernCallArgList.basis",
       "if 'gh_evaluator' in self._kern.eval_shapes:\n    for fs_name in self._kern.eval_targets:\n        fspace = self._kern.eval_targets[fs_name][0]\n        basis_name = function_space.get_basis_name(on_space=fspace)\n        sym = self.append_array_reference(basis_name, [':', ':', ':'], ScalarType.Intrinsic.REAL)\n        self.append(sym.name, var_accesses)",
       "", "fires:C21.R2"),
    SV("call-psyir-missing", C, "KernCallArgList.cell_position",
       "self.append(cell_ref_name, var_accesses)", "self.append(cell_ref_name, var_accesses)\nself.append(cell_ref_name, var_accesses)", "fires:C21.R"),
    V("stub-overrides-generate", S, "class KernStubArgList(ArgOrdering):", "class KernStubArgList(ArgOrdering):\n    def generate(self, var_accesses=None):\n        self.cell_position(var_accesses)\n", "fires:C21.R1"),
]
