from sa.selftest import Variant as V, SV
D = "src/psyclone/psyir/tools/dependency_tools.py"
DT = "DependencyTools."
VARIANTS = [
    SV("idx-not-incremented", D, DT + "_get_dependency_distance", "idx += 1", "", "fires:C08.R1"),
    SV("partition-no-progress", D, DT + "_partition",
       "if loop_var not in part_info[0]:\n    k += 1\n    continue",
       "if loop_var not in part_info[0]:\n    continue", "fires:C08.R1"),
    SV("distance-not-zero", D, DT + "_is_loop_carried_dependency",
       "if distance == 0:\n    return True", "if distance != 0:\n    return True", "fires:C08.R2"),
    SV("default-true", D, DT + "_is_loop_carried_dependency", "return False\n", "return True\n", "fires:C08.R2"),
    SV("visitor-error-zero", D, DT + "_get_dependency_distance",
       "try:\n    sympy_expressions = sympy_writer([index_read, index_written])\nexcept VisitorError:\n    return None",
       "try:\n    sympy_expressions = sympy_writer([index_read, index_written])\nexcept VisitorError:\n    return 0",
       "fires:C08.R3"),
    SV("drop-result-false", D, DT + "can_loop_be_parallelised", "result = False", "", "fires:C08.R2"),
    SV("non-integer-accepted", D, DT + "_get_dependency_distance",
       "if not isinstance(sol, sympy.Integer):\n    return None", "", "fires:C08.R3"),
    SV("skip-more-variables", D, DT + "can_loop_be_parallelised",
       "if signature in signatures_to_ignore:\n    continue",
       "if signature in signatures_to_ignore or signature.is_structure:\n    continue", "fires:C08.R2"),
    SV("dependent-pair-ignored", D, DT + "_array_access_parallelisable",
       "return False", "continue", "fires:C08.R2"),
    SV("twin-reorder-none-guards", D, DT + "_get_dependency_distance",
       "if var in sol.free_symbols:\n    return None\nif not isinstance(sol, sympy.Integer):\n    return None",
       "if not isinstance(sol, sympy.Integer):\n    return None\nif var in sol.free_symbols:\n    return None", "silent"),
]
