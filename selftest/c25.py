from sa.selftest import Variant as V, SV
G = "src/psyclone/gocean1p0.py"
VARIANTS = [
    V("stop-plus-two", G, "        GOLoop._bounds_lookup['go_offset_ne']['go_ct']['go_all_pts'] = \\\n            {'inner': {'start': \"{start}-1\", 'stop': \"{stop}+1\"},",
      "        GOLoop._bounds_lookup['go_offset_ne']['go_ct']['go_all_pts'] = \\\n            {'inner': {'start': \"{start}-1\", 'stop': \"{stop}+2\"},", "fires:C25.R1"),
    V("internal-outside-all", G, "        GOLoop._bounds_lookup['go_offset_ne']['go_cu']['go_internal_pts'] = \\\n            {'inner': {'start': \"{start}\", 'stop': \"{stop}-1\"},",
      "        GOLoop._bounds_lookup['go_offset_ne']['go_cu']['go_internal_pts'] = \\\n            {'inner': {'start': \"{start}\", 'stop': \"{stop}+1\"},", "fires:C25.R1"),
    V("swapped-user-fields", G, "            {'outer': {'start': data[3], 'stop': data[4]},\n             'inner': {'start': data[5], 'stop': data[6]}}",
      "            {'outer': {'start': data[5], 'stop': data[6]},\n             'inner': {'start': data[3], 'stop': data[4]}}", "fires:C25.R2"),
    V("xstop-for-outer", G, "            prop_access = api_config.grid_properties[\"go_grid_ystop\"]",
      "            prop_access = api_config.grid_properties[\"go_grid_xstop\"]", "fires:C25.R2"),
    V("internal-uses-whole", G, "                props[f\"go_grid_internal_{self._loop_type}_stop\"].fortran)",
      "                props[f\"go_grid_whole_{self._loop_type}_stop\"].fortran)", "fires:C25.R3"),
    V("new-bound-writer", "src/psyclone/domain/gocean/transformations/gocean_loop_fuse_trans.py", "class GOceanLoopFuseTrans(LoopFuseTrans):",
      "class GOceanLoopFuseTrans(LoopFuseTrans):\n    def _widen(self, loop):\n        loop.iteration_space = 'go_all_pts'\n", "fires:C25.R4"),
    V("boundary-move-accepts-shared-loops", "src/psyclone/domain/gocean/transformations/gocean_move_iteration_boundaries_inside_kernel_trans.py",
      "        if outer_loop and len(outer_loop.walk(GOKern)) > 1:", "        if False:",
      "fires:C25.R5"),
]
