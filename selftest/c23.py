from sa.selftest import Variant as V, SV
T = "src/psyclone/transformations.py"
L = "src/psyclone/domain/lfric/lfric_loop.py"
P = "src/psyclone/domain/common/psylayer/psyloop.py"
VARIANTS = [
    V("readinc-not-an-increment", P, "if arg.access in (AccessType.INC, AccessType.READINC):",
      "if arg.access == AccessType.INC:", "fires:C23.R2"),
    SV("omp-parallel-guard-deleted", T, "DynamoOMPParallelLoopTrans.validate",
       "if node.loop_type != 'colour' and node.has_inc_arg():\n    raise TransformationError(f'Error in {self.name} transformation. The kernel has an argument with INC access. Colouring is required.')",
       "", "fires:C23.R1"),
    SV("guard-inverted", T, "Dynamo0p3OMPLoopTrans.validate",
       "if node.loop_type != 'colour' and node.has_inc_arg():\n    raise TransformationError(f'Error in {self.name} transformation. The kernel has an argument with INC access. Colouring is required.')",
       "if node.loop_type == 'colour' and node.has_inc_arg():\n    raise TransformationError('x')", "fires:C23.R1"),
    V("exempt-discontinuous-loop-space", T,
      "        if node.loop_type != 'colour' and node.has_inc_arg():\n            raise TransformationError(\n                f\"Error in {self.name} transformation. The kernel has an \"\n                f\"argument with INC access. Colouring is required.\")\n        # As this is a domain-specific loop",
      "        if node.field_space.orig_name not in LFRicConstants().VALID_DISCONTINUOUS_NAMES:\n            if node.loop_type != 'colour' and node.has_inc_arg():\n                raise TransformationError(\"x\")\n        # As this is a domain-specific loop",
      "fires:C23.R"),
    SV("uncoloured-always-independent", L, "LFRicLoop.independent_iterations",
       "if self.has_inc_arg():\n    dtools._add_message(f\"Kernel '{self.kernel.name}' performs an INC update\", DTCode.ERROR_WRITE_WRITE_RACE)\n    return False",
       "", "fires:C23.R1"),
    SV("colours-loop-independent", L, "LFRicLoop.independent_iterations",
       "if self.loop_type in ['null', 'colours']:\n    return False", "if self.loop_type in ['null']:\n    return False", "fires:C23.R3"),
    V("force-in-acc-loop", T, "class ACCLoopTrans(ParallelLoopTrans):",
      "class ACCLoopTrans(ParallelLoopTrans):\n    def validate(self, node, options=None):\n        opts = dict(options or {})\n        opts['force'] = True\n        super().validate(node, options=opts)\n", "fires:C23.R1"),
    V("colouring-inside-omp-allowed", T, "        if node.ancestor(OMPDirective):\n            raise TransformationError(\"Cannot have a loop over colours \"",
      "        if False:\n            raise TransformationError(\"Cannot have a loop over colours \"", "fires:C23.R3"),
    V("dof-reduction-check-weakened", L, "            if self.kernel.is_reduction:\n",
      "            if self.kernel.is_reduction and dep_tools:\n", "fires:C23.R5"),
    V("extra-loop-type-independent", L, "        if self.loop_type == \"colour\":",
      "        if self.loop_type in (\"colour\", \"colourtiles\"):", "fires:C23.R5"),
    V("null-loops-also-dependent-twin", L, "        if self.loop_type in [\"null\", \"colours\"]:",
      "        if self.loop_type in [\"null\", \"colours\"] or self.loop_type is None:", "silent"),
]
