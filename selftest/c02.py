from sa.selftest import Variant as V, SV
W = "src/psyclone/psyir/backend/fortran.py"
R = "src/psyclone/psyir/frontend/fparser2.py"
VARIANTS = [
    V("swap-levels", W, "        ['+', '-'],\n        ['*', '/'],", "        ['*', '/'],\n        ['+', '-'],", "fires:C02.R"),
    V("le-maps-to-lt", R, "        ('<=', BinaryOperation.Operator.LE),", "        ('<=', BinaryOperation.Operator.LT),", "fires:C02.R1"),
    V("left-child-instead-of-right", W, "(parent.children[1] is node or", "(parent.children[0] is node or", "fires:C02.R3"),
    V("drop-unary-parent-arm", W, "                    if (isinstance(parent, UnaryOperation) or\n                            (isinstance(parent, BinaryOperation) and",
      "                    if ((isinstance(parent, BinaryOperation) and", "fires:C02.R3"),
    V("pow-left-child-bare-again", W, "                             (parent.children[1] is node or\n                              fort_oper == \"**\"))):",
      "                             parent.children[1] is node)):", "fires:C02.R3"),
    SV("delete-grandparent-rule", W, "FortranWriter.unaryoperation_node",
       "grandparent = parent.parent", "grandparent = None", "fires:C02.R3"),
    V("reverse-map-last-token", W, "            if mapping_key not in reverse_dict:\n                reverse_dict[mapping_key] = mapping_value.upper()",
      "            reverse_dict[mapping_key] = mapping_value.upper()", "fires:C02.R1"),
    V("twin-is-to-eq", W, "(parent.children[1] is node or", "(parent.children[1] == node or", "silent"),
]
