from sa.selftest import Variant as V, SV
B = "src/psyclone/domain/lfric/lfric_builtins.py"
L = "src/psyclone/domain/lfric/lfric_loop.py"
VARIANTS = [
    SV("axplusby-sub-for-add", B, "LFRicAXPlusBYKern.lower_to_language_level",
       "rhs = BinaryOperation.create(BinaryOperation.Operator.ADD, mult_op_a, mult_op_b)",
       "rhs = BinaryOperation.create(BinaryOperation.Operator.SUB, mult_op_a, mult_op_b)", "fires:C20.R1"),
    SV("xminusby-swapped-refs", B, "LFRicXMinusBYKern.lower_to_language_level",
       "mult_op = BinaryOperation.create(BinaryOperation.Operator.MUL, scalar_args[0], arg_refs[2])",
       "mult_op = BinaryOperation.create(BinaryOperation.Operator.MUL, scalar_args[0], arg_refs[1])", "fires:C20.R1"),
    SV("a-minus-x-operands-swapped", B, "LFRicAMinusXKern.lower_to_language_level",
       "rhs = BinaryOperation.create(BinaryOperation.Operator.SUB, scalar_args[0], arg_refs[1])",
       "rhs = BinaryOperation.create(BinaryOperation.Operator.SUB, arg_refs[1], scalar_args[0])", "fires:C20.R1"),
    V("written-field-gh-read", B, "class LFRicXTimesYKern(LFRicBuiltIn):", "class LFRicXTimesYKern(LFRicBuiltIn):\n    _probe = 1", "silent"),
    V("reduction-over-annexed", L, "               and not kern.is_reduction:\n", "               :\n", "fires:C20.R4"),
    SV("innerproduct-not-accumulating", B, "LFRicXInnerproductYKern.lower_to_language_level",
       "rhs = BinaryOperation.create(BinaryOperation.Operator.ADD, lhs.copy(), mult_op)",
       "rhs = mult_op", "fires:C20.R3"),
    SV("inc-a-divideby-x-wrong-lhs", B, "LFRicIncADividebyXKern.lower_to_language_level",
       "lhs = arg_refs[0]", "lhs = scalar_args[0]", "fires:C20.R2"),
]
