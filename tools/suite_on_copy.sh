#!/bin/bash
# Runs the full test-suite on a scratch worktree of /repo HEAD plus the
# current uncommitted diff; result in /tmp/suite_<name>.txt
NAME=${1:-work}; WT=/tmp/suitewt_$NAME
rm -rf $WT; git -C /repo worktree prune
git -C /repo diff > /tmp/suite_$NAME.diff
git -C /repo worktree add --detach $WT HEAD >/dev/null 2>&1 || exit 9
cd $WT && git apply /tmp/suite_$NAME.diff 2>/dev/null
PYTHONPATH=$WT/src timeout 7000 /venv/bin/python -m pytest -q -rf -p no:cacheprovider -n 8 --timeout=900 src/psyclone/tests > /tmp/suite_$NAME.full 2>&1
(tail -3 /tmp/suite_$NAME.full | grep -E "passed|failed"; grep "^FAILED" /tmp/suite_$NAME.full | head -20) > /tmp/suite_$NAME.txt
cd /; git -C /repo worktree remove --force $WT
