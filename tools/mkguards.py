"""Writes tables/guards.json: the guards of every refusal of the functions
listed in GUARDED (rules that use sa.guards.check_guards) on the current,
reviewed tree.  Re-run only after reviewing a legitimate change."""
import importlib
import json
import os
import sys
HERE = os.path.dirname(os.path.dirname(os.path.abspath(__file__)))
sys.path.insert(0, HERE)
from sa.index import RepoIndex          # noqa: E402
from sa import guards                   # noqa: E402

idx = RepoIndex()
specs = []
for fname in sorted(os.listdir(os.path.join(HERE, "rules"))):
    if fname.startswith("c") and fname.endswith(".py"):
        mod = importlib.import_module("rules." + fname[:-3])
        got = getattr(mod, "GUARDED", [])
        specs += list(got(idx) if callable(got) else got)
preds = []
for fname in sorted(os.listdir(os.path.join(HERE, "rules"))):
    if fname.startswith("c") and fname.endswith(".py"):
        mod = importlib.import_module("rules." + fname[:-3])
        preds += list(getattr(mod, "PREDICATES", []))
psnap = guards.predicate_snapshot(idx, sorted(set(preds)))
json.dump(psnap, open(guards.PRED_SNAPSHOT, "w"), indent=1, sort_keys=True)
print(len(psnap), "predicates")
snap = guards.snapshot_of(idx, sorted(set(specs)))
os.makedirs(os.path.join(HERE, "tables"), exist_ok=True)
json.dump(snap, open(guards.SNAPSHOT, "w"), indent=1, sort_keys=True)
print(len(snap), "functions,", sum(len(v) for v in snap.values()),
      "refusals")
