"""usage: try_seed.py <Cnn> <patch.diff> : run the property's check on the
tree with the patch applied in memory and print the new findings."""
import sys, os
sys.path.insert(0, os.path.dirname(os.path.dirname(os.path.abspath(__file__))))
from sa import selftest
pid, patch = sys.argv[1], sys.argv[2]
overlay = selftest.apply_unified_diff(open(patch).read())
if overlay is None:
    print("patch does not apply to the current tree"); sys.exit(3)
new, err = selftest.analyse(pid, overlay)
if err:
    print("ANALYSIS-ERROR", err); sys.exit(2)
for f in new:
    print(f"{f.where}: {f.rule} {f.construct} [{f.detail}] {f.message[:200]}")
print(f"{len(new)} new finding(s)")
sys.exit(1 if new else 0)
