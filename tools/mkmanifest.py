"""Regenerates MANIFEST.json from the rule modules' MANIFEST dicts and
tools/not_applicable.json.  Run:  /venv/bin/python tools/mkmanifest.py"""
import ast
import json
import os

HERE = os.path.dirname(os.path.dirname(os.path.abspath(__file__)))
props = [json.loads(l) for l in open(os.path.join(HERE, "properties.jsonl"))]
na_reasons = json.load(open(os.path.join(HERE, "tools",
                                         "not_applicable.json")))
checks = []
claimed = set()
for fname in sorted(os.listdir(os.path.join(HERE, "rules"))):
    if not (fname.startswith("c") and fname[1:3].isdigit()
            and fname.endswith(".py")):
        continue
    pid = "C" + fname[1:3]
    tree = ast.parse(open(os.path.join(HERE, "rules", fname)).read())
    meta = None
    for stmt in tree.body:
        if isinstance(stmt, ast.Assign) and \
                getattr(stmt.targets[0], "id", "") == "MANIFEST":
            meta = ast.literal_eval(stmt.value)
    if meta is None:
        continue
    claimed.add(pid)
    checks.append({
        "property_id": pid,
        "quick_cmd": f"./check {pid} --tier quick",
        "thorough_cmd": f"./check {pid} --tier thorough",
        "evidence_file": f"/verif/evidence/{pid}.json",
        "replay_cmd_template": f"./check {pid} --replay {{path}}",
        "engine": "sa",
        "level_claimed": {"category": meta["level"], "text": meta["text"],
                          "design_ref": meta.get("design_ref",
                                                 f"DESIGN.md 3/{pid}")},
        "level_note": meta["note"],
        "technique": meta["technique"],
    })
manifest = {
    "version": 1,
    "setup_cmd": "./check --list >/dev/null",
    "hooks": {
        "guard": "SVALAT_PSYCLONE_VERIF",
        "enable": "none: static analysis needs no instrumentation; no hook "
                  "commit exists",
        "baseline_off_cmd": "cd /repo && /venv/bin/python -m pytest -ra -q "
                            "-p no:cacheprovider --timeout=900 "
                            "--continue-on-collection-errors",
        "source_commits": [],
        "add_only": True,
    },
    "engines": [{
        "name": "sa", "path": "/verif/sa",
        "serves_properties": sorted(claimed),
        "kind_free_text": "custom static analyser over Python ast: repo "
        "index (classes, MRO, constants), statement CFG, affine position "
        "domain, decision-path extraction, effect summaries; one rule "
        "module per property under /verif/rules"}],
    "checks": checks,
    "not_applicable": [
        {"property_id": p["id"],
         "reason": na_reasons.get(p["id"], "check not built yet")}
        for p in props if p["id"] not in claimed],
    "notes": "Static analysis only: every check parses /repo's current "
             "working tree and never imports or runs PSyclone. exit 0 held, "
             "1 VIOLATION, 2 ANALYSIS-ERROR (anchor vanished / construct "
             "outside the interpretable subset). known_findings.json lists "
             "genuine defects recorded or fixed.",
}
json.dump(manifest, open(os.path.join(HERE, "MANIFEST.json"), "w"), indent=1)
print("claimed:", sorted(claimed))
