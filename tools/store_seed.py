"""usage: store_seed.py <name e.g. C27a> <src dir> <detected_by text> [ported]"""
import json, os, shutil, sys
name, src, detected = sys.argv[1:4]
ported = len(sys.argv) > 4
dst = f"/verif/seeded/{name}"
os.makedirs(dst, exist_ok=True)
for f in ("patch.diff", "demo.py"):
    shutil.copy(os.path.join(src, f), os.path.join(dst, f))
meta = json.load(open(os.path.join(src, "meta.json")))
res = open(f"/tmp/confirm/{name}.result").read().strip().splitlines()
meta["confirmed"] = {"what_i_ran": "tools/confirm_seed.sh: scratch worktree of /repo HEAD; demo.py without the patch (exit 0), git apply patch.diff, demo.py again (exit 1), full test-suite with the patch applied (-n 6)", "result": res}
meta["detected_by"] = detected
if ported:
    meta["ported"] = "the sub-agent's patch was made against the pinned commit; it touched lines changed by a later fix: commit, so the same edit was re-applied by hand to the repaired tree (patch.diff is the ported version)"
json.dump(meta, open(os.path.join(dst, "meta.json"), "w"), indent=1)
print("stored", dst)
