#!/bin/bash
# usage: confirm_seed.sh <dir with patch.diff demo.py meta.json> <name>
# Confirms a seeded change in a scratch worktree of /repo HEAD: demo passes
# without the patch, fails with it, and the full suite still passes.
SRC="$1"; NAME="$2"; WT=/tmp/confirm/$NAME
mkdir -p /tmp/confirm; rm -rf "$WT"
git -C /repo worktree add --detach "$WT" HEAD >/dev/null 2>&1 || exit 9
cd "$WT"
export PYTHONPATH=$WT/src PSYCLONE_CONFIG=$WT/config/psyclone.cfg
OUT=/tmp/confirm/$NAME.result
{
echo "head=$(git rev-parse --short HEAD)"
timeout 600 /venv/bin/python "$SRC/demo.py" >/tmp/confirm/$NAME.demo0 2>&1; echo "demo_without_patch_exit=$?"
if git apply "$SRC/patch.diff" 2>/tmp/confirm/$NAME.applyerr; then echo "patch_applies=yes"; else echo "patch_applies=no"; fi
timeout 600 /venv/bin/python "$SRC/demo.py" >/tmp/confirm/$NAME.demo1 2>&1; echo "demo_with_patch_exit=$?"
/venv/bin/python -c "import psyclone" 2>/dev/null && echo "imports=yes"
timeout 5400 /venv/bin/python -m pytest -q -rf -p no:cacheprovider -n 6 --timeout=900 src/psyclone/tests > /tmp/confirm/$NAME.suite 2>&1
tail -3 /tmp/confirm/$NAME.suite | grep -E "passed|failed" | sed 's/^/suite=/'
grep "^FAILED" /tmp/confirm/$NAME.suite | head -8 | sed 's/^/failed_test=/'
} > "$OUT" 2>&1
cd /; git -C /repo worktree remove --force "$WT"
cat "$OUT"
