"""Regenerates the table of DESIGN.md section 7.5 (between the two marker
lines) from /verif/seeded/*/meta.json."""
import glob
import json
import os
import re

HERE = os.path.dirname(os.path.dirname(os.path.abspath(__file__)))
rows = []
for meta in sorted(glob.glob(os.path.join(HERE, "seeded", "*", "meta.json"))):
    name = os.path.basename(os.path.dirname(meta))
    m = json.load(open(meta))
    summ = " ".join(str(m.get("summary", "")).split())
    if len(summ) > 230:
        summ = summ[:227] + "..."
    det = " ".join(str(m.get("detected_by", "")).split())
    if len(det) > 200:
        det = det[:197] + "..."
    files = ", ".join(os.path.basename(f) for f in m.get("files", []))
    rows.append(f"| {name} | {files} | {summ.replace('|', '/')} | "
                f"{det.replace('|', '/')} |")
table = "\n".join(["| seed | file(s) | change | reported by |",
                   "|------|---------|--------|-------------|"] + rows)
path = os.path.join(HERE, "DESIGN.md")
text = open(path).read()
begin, end = "<!-- seed-table-begin -->", "<!-- seed-table-end -->"
if begin not in text:
    raise SystemExit("markers missing in DESIGN.md")
text = re.sub(re.escape(begin) + r".*?" + re.escape(end),
              lambda _m: begin + "\n" + table + "\n" + end, text, flags=re.S)
open(path, "w").write(text)
print(len(rows), "seeds")
